"""C07 sub-model 1: the gate vocabulary as real/imaginary expression trees.

ONE description per gate is used three ways:
  * printed as Coq text (coq/C07/GatesGen.v) over which the unitarity
    theorems of coq/C07/GateProofs.v are (re)checked,
  * evaluated with math.cos / math.sin to compare with the implementation's
    float matrix at rational parameters (tolerance 1e-12),
  * (the description itself) obtained from the implementation:
      - parametrised gates: the `*_param_gen` builders of
        quimb/tensor/circuit/gates.py are EXECUTED on symbolic parameters (an
        autoray backend `c07sym` whose cos / sin / complex / exp / stack build
        expression trees) - fail closed on anything outside that language;
      - constant gates: every float entry of CONSTANT_GATES[name] is recognised
        as (a + b/sqrt2)/2 with small integers a, b (tolerance 1e-12);
      - SU4 (built by contracting a small tensor network) is modelled by hand
        as the ordered product of its factors, each factor taken from the
        traced U3 / RZ / RY trees.
"""

import math
from fractions import Fraction

SQRT2_FLOAT = 2**0.5


class Refuse(Exception):
    pass


# ----------------------------------------------------------------------------
# real expression trees (tuples)
#   ('c', Fraction) | ('isqrt2',) | ('p', i) | ('cos', e) | ('sin', e)
#   ('add', a, b) | ('sub', a, b) | ('mul', a, b) | ('neg', a) | ('divsqrt2', a)


def C(x):
    return ("c", Fraction(x))


ZERO = C(0)
ONE = C(1)


def is_c(e, v=None):
    return e[0] == "c" and (v is None or e[1] == v)


def r_add(a, b):
    if is_c(a, 0):
        return b
    if is_c(b, 0):
        return a
    if is_c(a) and is_c(b):
        return ("c", a[1] + b[1])
    return ("add", a, b)


def r_sub(a, b):
    if is_c(b, 0):
        return a
    if is_c(a, 0):
        return r_neg(b)
    if is_c(a) and is_c(b):
        return ("c", a[1] - b[1])
    return ("sub", a, b)


def r_neg(a):
    if is_c(a):
        return ("c", -a[1])
    if a[0] == "neg":
        return a[1]
    return ("neg", a)


def r_mul(a, b):
    if is_c(a, 0) or is_c(b, 0):
        return ZERO
    if is_c(a, 1):
        return b
    if is_c(b, 1):
        return a
    if is_c(a) and is_c(b):
        return ("c", a[1] * b[1])
    return ("mul", a, b)


def r_const(x):
    """python number -> exact constant (floats are dyadic rationals; the one
    irrational float the builders use is 2**0.5)"""
    if isinstance(x, bool):
        raise Refuse("bool constant")
    if isinstance(x, int):
        return C(x)
    if isinstance(x, float):
        if x == SQRT2_FLOAT:
            return ("sqrt2",)
        if x != x or x in (float("inf"), float("-inf")):
            raise Refuse("non-finite constant")
        fr = Fraction(x)
        if fr.denominator > 1024:
            raise Refuse(f"float constant {x!r} is not a small dyadic rational")
        return ("c", fr)
    raise Refuse(f"constant of type {type(x).__name__}")


def r_div(a, b):
    """a / b with b a constant"""
    if b == ("sqrt2",):
        if is_c(a, 0):
            return ZERO
        return ("divsqrt2", a)
    if not is_c(b) or b[1] == 0:
        raise Refuse("division by a non-constant")
    if is_c(a):
        return ("c", a[1] / b[1])
    return ("div", a, b)


def r_eval(e, p):
    k = e[0]
    if k == "c":
        return float(e[1])
    if k == "isqrt2":
        return 1.0 / math.sqrt(2.0)
    if k == "p":
        return p[e[1]]
    if k == "cos":
        return math.cos(r_eval(e[1], p))
    if k == "sin":
        return math.sin(r_eval(e[1], p))
    if k == "add":
        return r_eval(e[1], p) + r_eval(e[2], p)
    if k == "sub":
        return r_eval(e[1], p) - r_eval(e[2], p)
    if k == "mul":
        return r_eval(e[1], p) * r_eval(e[2], p)
    if k == "div":
        return r_eval(e[1], p) / r_eval(e[2], p)
    if k == "neg":
        return -r_eval(e[1], p)
    if k == "divsqrt2":
        return r_eval(e[1], p) / math.sqrt(2.0)
    raise Refuse(f"eval: {k}")


def r_coq(e):
    k = e[0]
    if k == "c":
        fr = e[1]
        if fr.denominator == 1:
            return f"{fr.numerator}" if fr.numerator >= 0 else f"(- {-fr.numerator})"
        s = f"({abs(fr.numerator)} / {fr.denominator})"
        return s if fr.numerator >= 0 else f"(- {s})"
    if k == "isqrt2":
        return "(/ sqrt 2)"
    if k == "p":
        return f"p{e[1]}"
    if k in ("cos", "sin"):
        return f"{k} ({r_coq(e[1])})"
    if k == "add":
        return f"({r_coq(e[1])} + {r_coq(e[2])})"
    if k == "sub":
        return f"({r_coq(e[1])} - {r_coq(e[2])})"
    if k == "mul":
        return f"({r_coq(e[1])} * {r_coq(e[2])})"
    if k == "div":
        return f"({r_coq(e[1])} / {r_coq(e[2])})"
    if k == "neg":
        return f"(- {r_coq(e[1])})"
    if k == "divsqrt2":
        return f"({r_coq(e[1])} / sqrt 2)"
    raise Refuse(f"coq: {k}")


# ----------------------------------------------------------------------------
# the symbolic autoray backend


class SReal:
    """a real backend scalar"""

    def __init__(self, e):
        self.e = e

    @staticmethod
    def lift(o):
        if isinstance(o, SReal):
            return o
        if isinstance(o, (int, float)) and not isinstance(o, bool):
            return SReal(r_const(o))
        return None

    def _bin(self, o, f, swap=False):
        if isinstance(o, (SCplx, complex)):
            a = SCplx.lift(self)
            return NotImplemented if a is None else a._bin(o, {r_add: "add", r_sub: "sub", r_mul: "mul"}[f], swap)
        b = SReal.lift(o)
        if b is None:
            return NotImplemented
        x, y = (b.e, self.e) if swap else (self.e, b.e)
        if x == ("sqrt2",) or y == ("sqrt2",):
            raise Refuse("sqrt2 constant outside a division")
        return SReal(f(x, y))

    def __add__(self, o):
        return self._bin(o, r_add)

    def __radd__(self, o):
        return self._bin(o, r_add, True)

    def __sub__(self, o):
        return self._bin(o, r_sub)

    def __rsub__(self, o):
        return self._bin(o, r_sub, True)

    def __mul__(self, o):
        return self._bin(o, r_mul)

    def __rmul__(self, o):
        return self._bin(o, r_mul, True)

    def __neg__(self):
        return SReal(r_neg(self.e))

    def __truediv__(self, o):
        b = SReal.lift(o)
        if b is None:
            return NotImplemented
        return SReal(r_div(self.e, b.e))


class SCplx:
    """a complex backend scalar (re, im) of real trees"""

    def __init__(self, re, im):
        self.re, self.im = re, im

    @staticmethod
    def lift(o):
        if isinstance(o, SCplx):
            return o
        if isinstance(o, SReal):
            return SCplx(o.e, ZERO)
        if isinstance(o, complex):
            return SCplx(r_const(o.real), r_const(o.imag))
        if isinstance(o, (int, float)) and not isinstance(o, bool):
            return SCplx(r_const(o), ZERO)
        return None

    def _bin(self, o, op, swap=False):
        b = SCplx.lift(o)
        if b is None:
            return NotImplemented
        x, y = (b, self) if swap else (self, b)
        if op == "add":
            return SCplx(r_add(x.re, y.re), r_add(x.im, y.im))
        if op == "sub":
            return SCplx(r_sub(x.re, y.re), r_sub(x.im, y.im))
        if op == "mul":
            return SCplx(
                r_sub(r_mul(x.re, y.re), r_mul(x.im, y.im)),
                r_add(r_mul(x.re, y.im), r_mul(x.im, y.re)),
            )
        raise Refuse(op)

    def __add__(self, o):
        return self._bin(o, "add")

    def __radd__(self, o):
        return self._bin(o, "add", True)

    def __sub__(self, o):
        return self._bin(o, "sub")

    def __rsub__(self, o):
        return self._bin(o, "sub", True)

    def __mul__(self, o):
        return self._bin(o, "mul")

    def __rmul__(self, o):
        return self._bin(o, "mul", True)

    def __neg__(self):
        return SCplx(r_neg(self.re), r_neg(self.im))

    def __truediv__(self, o):
        b = SReal.lift(o)
        if b is None:
            return NotImplemented
        return SCplx(r_div(self.re, b.e), r_div(self.im, b.e))


class SArr:
    """nested array of SCplx / SReal"""

    def __init__(self, items):
        self.items = list(items)

    def __getitem__(self, ix):
        if not isinstance(ix, tuple):
            ix = (ix,)
        x = self
        for i in ix:
            if not isinstance(x, SArr) or not isinstance(i, int):
                raise Refuse("unsupported array indexing")
            x = x.items[i]
        return x

    def map(self, f):
        return SArr([x.map(f) if isinstance(x, SArr) else f(x) for x in self.items])

    def __truediv__(self, o):
        return self.map(lambda x: x / o)

    def __mul__(self, o):
        return self.map(lambda x: x * o)

    __rmul__ = __mul__

    def __neg__(self):
        return self.map(lambda x: -x)

    def nested(self):
        return [x.nested() if isinstance(x, SArr) else x for x in self.items]


for _cls in (SReal, SCplx, SArr):
    _cls.__module__ = "c07sym"

_registered = False


def _register():
    global _registered
    if _registered:
        return
    import autoray as ar

    def _cos(x):
        if not isinstance(x, SReal):
            raise Refuse("cos of a non-real")
        return SReal(("cos", x.e))

    def _sin(x):
        if not isinstance(x, SReal):
            raise Refuse("sin of a non-real")
        return SReal(("sin", x.e))

    def _complex(a, b):
        a, b = SReal.lift(a), SReal.lift(b)
        if a is None or b is None:
            raise Refuse("complex() of non-reals")
        return SCplx(a.e, b.e)

    def _exp(z):
        if not isinstance(z, SCplx) or not is_c(z.re, 0):
            raise Refuse("exp of something that is not purely imaginary")
        return SCplx(("cos", z.im), ("sin", z.im))

    def _stack(xs, *a, **kw):
        if a or kw:
            raise Refuse("stack with options")
        return SArr(xs)

    ar.register_function("c07sym", "cos", _cos)
    ar.register_function("c07sym", "sin", _sin)
    ar.register_function("c07sym", "complex", _complex)
    ar.register_function("c07sym", "exp", _exp)
    ar.register_function("c07sym", "stack", _stack)
    _registered = True


def _flatten(nested, nq):
    """nested (2,)*2nq lists -> 2^nq x 2^nq list of SCplx"""
    d = 2**nq

    def get(ix):
        x = nested
        for i in ix:
            if not isinstance(x, list) or len(x) != 2:
                raise Refuse("array shape is not (2,)*2n")
            x = x[i]
        if isinstance(x, list):
            raise Refuse("array shape is not (2,)*2n")
        c = SCplx.lift(x)
        if c is None:
            raise Refuse("array leaf is not a scalar")
        return c

    M = []
    for r in range(d):
        row = []
        for c in range(d):
            bits = [(r >> (nq - 1 - k)) & 1 for k in range(nq)] + [(c >> (nq - 1 - k)) & 1 for k in range(nq)]
            z = get(bits)
            row.append((z.re, z.im))
        M.append(row)
    return M


# number of parameters of each registered builder (read from its use of params)
def _count_params(fn, maxp=20):
    class Spy(list):
        used = -1

        def __getitem__(self, i):
            if isinstance(i, slice):
                stop = i.stop if i.stop is not None else maxp
                Spy.used = max(Spy.used, stop - 1)
                return list.__getitem__(self, i)
            Spy.used = max(Spy.used, i)
            return list.__getitem__(self, i)

    Spy.used = -1
    ps = Spy(SReal(("p", i)) for i in range(maxp))
    out = fn(ps)
    return Spy.used + 1, out


def trace_param_gate(name):
    """Execute the registered builder on symbolic parameters.
    Returns (nparams, nqubits, matrix of (re_tree, im_tree))."""
    from quimb.tensor.circuit import gates as G

    _register()
    fn = G.PARAM_GATES[name]
    nq = G.GATE_SIZE[name]
    npar, out = _count_params(fn)
    if not isinstance(out, SArr):
        raise Refuse(f"{name}: builder did not return a stacked symbolic array ({type(out).__name__})")
    return npar, nq, _flatten(out.nested(), nq)


# ----------------------------------------------------------------------------
# constant gates: recognise (a + b/sqrt2)/2


def recognise(x, tol=1e-12):
    best = None
    for a in range(-4, 5):
        for b in range(-4, 5):
            v = (a + b / math.sqrt(2.0)) / 2.0
            if abs(v - x) <= tol:
                cost = abs(a) + abs(b)
                if best is None or cost < best[0]:
                    best = (cost, a, b)
    if best is None:
        raise Refuse(f"constant entry {x!r} is not (a + b/sqrt2)/2 with small integers")
    _, a, b = best
    e = ("c", Fraction(a, 2))
    if b:
        e = r_add(e, r_mul(("c", Fraction(b, 2)), ("isqrt2",)))
    return e


def const_gate_model(name):
    import numpy as np
    from quimb.tensor.circuit import gates as G

    A = np.asarray(G.CONSTANT_GATES[name])
    nq = G.GATE_SIZE[name]
    d = 2**nq
    if A.size != d * d:
        raise Refuse(f"{name}: array size {A.size} != {d}x{d}")
    A = A.reshape(d, d)
    M = [[(recognise(float(A[r, c].real)), recognise(float(A[r, c].imag))) for c in range(d)] for r in range(d)]
    return 0, nq, M


# ----------------------------------------------------------------------------
# SU4: ordered product of factors, mirrors su4_gate_param_gen's network
#   wires a (first / most significant) and b; time runs right to left in the product
SU4_FACTORS = [  # leftmost factor first (applied last)
    ("kron", ("U3", (6, 7, 8)), ("U3", (9, 10, 11))),  # TA3 (x) TA4
    ("const", "NOTC"),  # TNOTC3: control b, target a
    ("kron", ("I", ()), ("RY", (14,))),  # TRy3 on b
    ("const", "CX"),  # TCNOT2: control a, target b
    ("kron", ("RZ", (12,)), ("RY", (13,))),  # TRz1 on a, TRy2 on b
    ("const", "NOTC"),  # TNOTC1
    ("kron", ("U3", (0, 1, 2)), ("U3", (3, 4, 5))),  # TA1 (x) TA2
]
NOTC = [[1, 0, 0, 0], [0, 0, 0, 1], [0, 0, 1, 0], [0, 1, 0, 0]]  # |a b> -> |a xor b, b>


def m_eval(M, p):
    import numpy as np

    return np.array([[complex(r_eval(re, p), r_eval(im, p)) for re, im in row] for row in M])


def su4_eval(models, p):
    import numpy as np

    out = np.eye(4, dtype=complex)
    for f in SU4_FACTORS:
        if f[0] == "const":
            F = np.array(NOTC, dtype=complex) if f[1] == "NOTC" else m_eval(models[f[1]][2], [])
        else:
            mats = []
            for nm, idx in f[1:]:
                mats.append(np.eye(2, dtype=complex) if nm == "I" else m_eval(models[nm][2], [p[i] for i in idx]))
            F = np.kron(mats[0], mats[1])
        out = out @ F
    return out


# ----------------------------------------------------------------------------
# Coq emission


def coq_matrix(M):
    rows = []
    for row in M:
        rows.append("[" + "; ".join(f"({r_coq(re)}, {r_coq(im)})" for re, im in row) + "]")
    return "[" + ";\n   ".join(rows) + "]"


def ident(name):
    return "g_" + name.replace("/", "_")


def build_models():
    """-> (models: name -> (nparams, nqubits, matrix), refusals: name -> reason)"""
    from quimb.tensor.circuit import gates as G

    models, refused = {}, {}
    for name in sorted(G.CONSTANT_GATES):
        try:
            models[name] = const_gate_model(name)
        except Refuse as e:
            refused[name] = str(e)
    for name in sorted(G.PARAM_GATES):
        if name == "SU4":
            continue
        try:
            models[name] = trace_param_gate(name)
        except Refuse as e:
            refused[name] = str(e)
        except Exception as e:  # a builder outside the traced language
            refused[name] = f"{type(e).__name__}: {e}"
    return models, refused


def emit_coq(models):
    lines = [
        "(* GENERATED by harness/c07_gates.py from quimb/tensor/circuit/gates.py on every run - do not edit.",
        "   Parametrised gates: the *_param_gen builders executed on symbolic parameters;",
        "   constant gates: entries of CONSTANT_GATES recognised as (a + b/sqrt2)/2. *)",
        "From Coq Require Import Reals List.",
        "From QV Require Import C07.CMat.",
        "Import ListNotations.",
        "Open Scope R_scope.",
        "",
    ]
    for name in sorted(models):
        npar, nq, M = models[name]
        args = " ".join(f"p{i}" for i in range(npar))
        sig = f"({args} : R) " if npar else ""
        lines.append(f"Definition {ident(name)} {sig}: lmat :=\n  {coq_matrix(M)}.")
        lines.append("")
    if all(k in models for k in ("U3", "RZ", "RY", "CX")):
        lines.append("(* SU4 = ordered product of the factors of su4_gate_param_gen's network (wire a = first qubit) *)")
        notc = [[(C(v), ZERO) for v in row] for row in NOTC]
        lines.append(f"Definition g_NOTC : lmat :=\n  {coq_matrix(notc)}.")

        def fac(f):
            if f[0] == "const":
                return f"(of_list {ident(f[1])})"
            parts = []
            for nm, idx in f[1:]:
                if nm == "I":
                    parts.append("fid")
                else:
                    parts.append("(of_list (" + ident(nm) + " " + " ".join(f"p{i}" for i in idx) + "))")
            return f"(fkron 2 {parts[0]} {parts[1]})"

        expr = fac(SU4_FACTORS[-1])
        for f in reversed(SU4_FACTORS[:-1]):
            expr = f"(fmul 4 {fac(f)}\n   {expr})"
        args = " ".join(f"p{i}" for i in range(15))
        lines.append(f"Definition g_SU4 ({args} : R) : fmat :=\n  {expr}.")
        lines.append("")
    return "\n".join(lines)

"""C05 - tensor decomposition: exact when untruncated, optimal and honest when truncated.

Proof part (coq/C05): executable models over Q of BOTH truncation-count
algorithms of quimb/tensor/decomp.py (generic `_trim_and_renorm_svd_result`:
cumsum prefix count + 1; accelerated `_compute_number_svals_to_keep_numba`: tail
accumulation with break), all six cutoff modes, max(n,1), the bond cap, the
renormalisation factor and the reported error; theorems for all spectra
(bounds, rule + minimality with the code's <= at ties, generic = accelerated in
exact arithmetic, error^2 = discarded weight); the absorb / isometry-flag /
driver tables proved exhaustively; a model of the (typed-key) cache on
parse_split_opts.  The models follow the code after the fix commits 91dfb209,
29128285, 740177ad; the pre-fix variants live in coq/C05/Historic.v.
Tie (H): exact spectra P diag(s) Q^T (signed permutations, dyadic s) through the
numba kernels called directly, `_trim_and_renorm_svd_result` called directly,
and `array_split` end to end; cutoffs on and next to the tie points; the
observed kept values / renorm factor / error are embedded as exact rationals and
compared with the model inside Coq (vm_compute).  Tables: `_do_absorb(_numba)`,
`parse_method_absorb`, `parse_split_left_right_isom`, alias / default maps and
the per-driver return table, observed on the implementation.
Oracle (tests / searcher): Fraction reference of the documented rule on the same
exact cases; every registered method x absorb x dtype x shape class through
`Tensor.split` (reconstruction, isometry of flagged factors, info['error'],
bond cap, rejection); cache history dependence of `parse_split_opts`.
Batched input (x.ndim > 2 -> generic routine on a stack; model + theorems in
coq/C05/Batch.v): exact correspondence of the common bond and every member's
kept values / renorm factor / error through `_trim_and_renorm_svd_result` and
`array_split` on stacks whose members have different scales; oracle (tests):
Fraction reference per member, accelerated 2D routine member by member,
per-member reconstruction distance.
"""

import itertools
import math
import warnings
from fractions import Fraction as Fr

import numpy as np

from harness.common import blit, coqlist, zlit

RULE = (
    "exact stream: descending dyadic spectra (d=1..6, repeats and zeros, fixed + seeded random) x 6 cutoff modes x "
    "cutoffs {None, 0, every dyadic tie point, tie +- 2^-12, the 2^-12 grid neighbours of non-dyadic ties, random "
    "dyadics} x max_bond {None,1..d+1} x renorm {None,0,1,2,True}; paths: numba kernels (f8,f4), numba trim, generic "
    "trim, array_split('svd'/'svd:eig'/'eigh') on P diag(s) Q^T (tall/wide/square, real/complex). A case is "
    "non-trivial when it truncates (kept < d). Oracle stream: every registered method x 12 absorb requests x 4 dtypes "
    "x {tall, wide, rank-deficient, dim-1} through Tensor.split with random index order. Batched stream: stacks of 2..4 "
    "descending dyadic spectra (d=2..5) each scaled by its own power of two 2^-4..2^6 (20% equal scales), batch shapes of "
    "ndim 1..3, x 6 modes x cutoffs on / next to the tie points of EVERY member x max_bond {None,1..d+1} x renorm forms; paths: "
    "generic trim on s of shape batch+(d,), array_split('svd'/'svd:eig'/'eigh') on stacked P diag(s) Q^T (tall/wide/square, "
    "real/complex, absorb None/both/left/right); non-trivial when the common bond < d."
)

MODES = {1: "abs", 2: "rel", 3: "sum2", 4: "rsum2", 5: "sum1", 6: "rsum1"}
CODES = [None, 2, -12, -11, -10, -1, 0, 1, 10, 11, 12]
EPS = Fr(1, 4096)

HEADER = """From Coq Require Import ZArith QArith Qabs List Bool String.
From QV Require Import C05.Model C05.Eig.
Import ListNotations.
Open Scope Q_scope.
Definition mode (c : Z) : cmode := match cmode_of_code c with Some m => m | None => Abs end.
Definition tolQ (k : Z) : Q := Qpower (1 # 2) k.
Definition close (k : Z) (exact : bool) (x y : Q) : bool :=
  if exact then Qeq_bool x y else Qabs_le_rel x y (tolQ k).
Fixpoint ql_close (k : Z) (a b : list Q) : bool :=
  match a, b with
  | [], [] => true
  | x :: a', y :: b' => Qabs_le_rel x y (tolQ k) && ql_close k a' b'
  | _, _ => false
  end.
Definition obs_ok (k : Z) (r : trim) (vals : list Q) (f : option Q) (fex : bool) (err : option Q) (eex : bool) : bool :=
  (match t_rn r with
   | None => ql_eqb (t_svals r) vals
   | Some (p, num, den) =>
       match f with
       | Some fv => close k fex (Qpower fv p) (num / den) && ql_close k vals (map (Qmult fv) (t_svals r))
       | None => false
       end
   end)
  && match err with None => true | Some e => close k eex (e * e) (t_err2 r) end.
Definition chk_n k mc c mb rn s vals f fex err eex : bool :=
  obs_ok k (n_trim (mode mc) c mb rn s) vals f fex err eex.
Definition chk_g k mc c mb rn s (raised : bool) vals f fex err eex : bool :=
  negb raised && obs_ok k (g_trim (mode mc) c mb rn s) vals f fex err eex.
Definition chk_e k mc c mb (rv : pyval) s vals f fex err eex : bool :=
  chk_n k mc c mb (parse_renorm (mode mc) rv) s vals f fex err eex.
(* static truncation in the SVD-via-eig drivers: values in the ORDER the driver returns them *)
Definition chk_eig (s : list Q) (mb : Z) (descending : bool) (vals : list Q) : bool :=
  ql_eqb (eig_shortcut_svals (rev s) mb descending) vals.
Definition chk_rn k (s : list Q) (n rn : Z) (f : Q) (fex : bool) : bool :=
  let '(p, num, den) := n_renorm s n rn in close k fex (Qpower f p) (num / den).
"""

BATCH_HEADER = HEADER.replace("C05.Model C05.Eig.", "C05.Model C05.Eig C05.Batch.") + """
(* one observed member: (kept values, renorm factor, exact?, error, exact?) *)
Definition mobs := (list Q * option Q * bool * option Q * bool)%type.
Fixpoint all_obs_ok (k : Z) (rs : list trim) (os : list mobs) : bool :=
  match rs, os with
  | [], [] => true
  | r :: rs', (vals, f, fex, err, eex) :: os' => obs_ok k r vals f fex err eex && all_obs_ok k rs' os'
  | _, _ => false
  end.
(* batched generic routine: every member's kept values / renorm factor / error, and the common bond *)
Definition chk_gb k mc c mb rn (ss : list (list Q)) (raised : bool) (bond : Z) (os : list mobs) : bool :=
  negb raised && (gb_kept (mode mc) c mb rn ss =? bond)%Z && all_obs_ok k (gb_trim (mode mc) c mb rn ss) os.
Definition chk_eb k mc c mb (rv : pyval) ss bond os : bool :=
  chk_gb k mc c mb (parse_renorm (mode mc) rv) ss false bond os.
"""


# ----------------------------------------------------------------------------
# literals


def qlit(x):
    x = Fr(x)
    return f"(Qmake {zlit(x.numerator)} {x.denominator}%positive)"


def qlist(xs):
    return coqlist(xs, qlit)


def qopt(x):
    return "None" if x is None else f"(Some {qlit(x)})"


def pyvlit(v):
    if v is None:
        return "PNone"
    if v is True or v is False:
        return f"(PBool {blit(v)})"
    return f"(PInt {zlit(v)})"


def codelit(c):
    return "None" if c is None else f"(Some {zlit(c)})"


def is_dyadic(x):
    d = Fr(x).denominator
    return d & (d - 1) == 0


def short(x, bits=20):
    x = Fr(x)
    return is_dyadic(x) and x.denominator <= 2**bits and abs(x.numerator) <= 2**40


def fr(x):
    return Fr(float(x))


# ----------------------------------------------------------------------------
# spectra and cutoffs


FIXED_SPECTRA = [
    [1], [2], [0], [1, 1], [2, 0], [4, 2, 1, Fr(1, 2)], [4, 2, 2, 1], [2, 2, 2, 2], [3, 3, 1, 1, Fr(1, 2)],
    [8, 4, 2, 1, Fr(1, 2), Fr(1, 4)], [2, 1, 1, 1, 1], [4, 2, 1, 1], [4, 4, 2, 2, 2, 2], [2, 1, 0, 0],
    [Fr(3, 2), 1, Fr(1, 2), Fr(1, 2), Fr(1, 4), Fr(1, 4)], [6, 2, 2, 2, 2, 2], [5, 3], [1, 1, 1, 1, 1, 1],
    [7, Fr(1, 4), Fr(1, 4)], [0, 0, 0],
]


def corpus_spectra():
    import json
    import os

    path = os.path.join(os.path.dirname(os.path.dirname(os.path.abspath(__file__))), "corpus", "C05", "spectra.json")
    try:
        with open(path) as f:
            return [[Fr(v) for v in s] for s in json.load(f)["spectra"]]
    except FileNotFoundError:
        return []


def spectra(ctx):
    out = corpus_spectra()
    out += [[Fr(v) for v in s] for s in FIXED_SPECTRA if [Fr(v) for v in s] not in out]
    for _ in range(ctx.n(8, 60)):
        d = ctx.rng.randint(1, 6)
        out.append(sorted([Fr(ctx.rng.randint(0, 32), 4) for _ in range(d)], reverse=True))
    return out


def tails(s, p):
    sp = [v**p for v in s]
    return [sum(sp[j:], Fr(0)) for j in range(len(s) + 1)]


def tie_points(s, mode):
    if mode == 1:
        return set(s)
    if mode == 2:
        return {v / s[0] for v in s} if s[0] > 0 else {Fr(0)}
    p = 2 if mode in (3, 4) else 1
    t = tails(s, p)
    if mode in (3, 5):
        return set(t)
    return {x / t[0] for x in t} if t[0] > 0 else {Fr(0)}


def cutoffs_for(ctx, s, mode):
    cs = {None, Fr(0), Fr(1), Fr(2), Fr(ctx.rng.randint(1, 127), 64), Fr(ctx.rng.randint(1, 63), 1024)}
    for t in tie_points(s, mode):
        if is_dyadic(t) and t.denominator <= 4096:
            cs |= {t, t + EPS, t - EPS}
        else:
            lo = Fr(math.floor(t * 4096), 4096)
            cs |= {lo, lo + EPS}
    cs = sorted(cs, key=lambda c: (c is not None, c if c is not None else 0))
    keep = ctx.n(6, 14)
    if len(cs) > keep:
        head = [c for c in cs if c is None or c == 0]
        rest = [c for c in cs if c is not None and c != 0]
        cs = head + ctx.rng.sample(rest, keep - len(head))
    return cs


# ----------------------------------------------------------------------------
# the documented rule, in exact rational arithmetic (independent of the Coq model)


def spec_trim(s, mode, cutoff, max_bond, renorm):
    """kept count demanded by the documentation: the SMALLEST n >= 1 whose
    discarded part obeys the cutoff rule (<= at ties, as implemented), capped by
    max_bond; (count, renorm ratio num/den in power `renorm`, error^2)."""
    d = len(s)
    c = Fr(-1) if cutoff is None else cutoff
    mb = -1 if max_bond is None else max_bond
    if c > 0 or renorm > 0:
        if mode == 1:
            ok = lambda n: all(v <= c for v in s[n:])
        elif mode == 2:
            ok = lambda n: all(v <= c * s[0] for v in s[n:])
        else:
            p = 2 if mode in (3, 4) else 1
            t = tails(s, p)
            target = c * t[0] if mode in (4, 6) else c
            ok = lambda n: t[n] <= target
        n = next((k for k in range(1, d + 1) if ok(k)), d)
        if mb > 0:
            n = min(n, mb)
    else:
        n = min(d, mb) if mb > 0 else d
    err2 = sum((v * v for v in s[n:]), Fr(0))
    ratio = None
    if n < d and renorm > 0:
        num = sum((v**renorm for v in s), Fr(0))
        den = sum((v**renorm for v in s[:n]), Fr(0))
        ratio = (num, den)
    return n, ratio, err2


def renorm_power(mode, rv):
    """documented meaning of the `renorm` argument"""
    if rv is None or rv is False:
        return 0
    if rv is True:
        return {3: 2, 4: 2, 5: 1, 6: 1}.get(mode, 0)
    return int(rv)


def check_against_spec(ctx, key, desc, s, mode, cutoff, max_bond, renorm, vals, err, tol):
    """direct property oracle on what the implementation returned"""
    n, ratio, err2 = spec_trim(s, mode, cutoff, max_bond, renorm)
    if len(vals) != n:
        ctx.violation(key + ":count", f"kept {len(vals)} values, the cutoff rule + bond cap demand {n}",
                      {**desc, "kept": len(vals), "expected": n})
        return
    if err is not None and abs(float(err) ** 2 - float(err2)) > tol * max(1.0, float(err2)):
        ctx.violation(key + ":error", f"reported error^2 {float(err) ** 2} != discarded weight {float(err2)}",
                      {**desc, "reported_error": float(err), "expected_error_sq": str(err2)})
    if ratio is None:
        if [Fr(v) for v in vals] != list(s[:n]):
            ctx.violation(key + ":values", "kept values are not the n largest singular values",
                          {**desc, "got": [float(v) for v in vals]})
    elif ratio[1] > 0:
        got = sum(float(v) ** renorm for v in vals)
        if abs(got - float(ratio[0])) > tol * max(1.0, float(ratio[0])):
            ctx.violation(key + ":renorm_power_ignored",
                          f"after renorm={renorm} the sum of kept s^{renorm} is {got}, not the original {float(ratio[0])}",
                          {**desc, "got_values": [float(v) for v in vals]})


# ----------------------------------------------------------------------------
# exact matrices


def signed_perm(rng, n, cplx=False):
    p = list(range(n))
    rng.shuffle(p)
    M = np.zeros((n, n), dtype=complex if cplx else float)
    for i, j in enumerate(p):
        M[i, j] = rng.choice([1, -1, 1j, -1j]) if cplx else rng.choice([1.0, -1.0])
    return M


def exact_matrix(rng, s, shape_kind, cplx=False):
    d = len(s)
    extra = rng.randint(1, 2)
    m, n = {"tall": (d + extra, d), "wide": (d, d + extra), "square": (d, d)}[shape_kind]
    S = np.zeros((m, n))
    S[:d, :d] = np.diag([float(v) for v in s])
    return signed_perm(rng, m, cplx) @ S @ signed_perm(rng, n, cplx)


def obs_fields(s, vals, err):
    """harness-side canonicalisation of one observed result -> Coq literals"""
    vals = [fr(v) for v in vals]
    f = None
    if vals and s and s[0] > 0:
        f = vals[0] / s[0]
    fex = f is not None and short(f)
    e = None if err is None else fr(err)
    eex = e is not None and short(e)
    return f"{qlist(vals)} {qopt(f)} {blit(fex)} {qopt(e)} {blit(eex)}"


# ----------------------------------------------------------------------------
# stage: exact correspondence of the truncation routines


def trunc_stream(ctx):
    from quimb.tensor import decomp as D

    rng = ctx.rng
    cases, info = [], {}
    cid = 0

    def add(expr, meta):
        nonlocal cid
        cid += 1
        cases.append((cid, expr))
        info[cid] = meta

    for s in spectra(ctx):
        d = len(s)
        sf = np.array([float(v) for v in s])
        allzero = s[0] == 0
        for mode in MODES:
            for cutoff in cutoffs_for(ctx, s, mode):
                cq = Fr(-1) if cutoff is None else cutoff
                cfl = float(cq)
                base = {"s": [str(v) for v in s], "cutoff_mode": MODES[mode], "cutoff": None if cutoff is None else str(cutoff)}
                # (K) the count kernel, double and single precision
                n_impls = []
                for dt in ("float64", "float32"):
                    n_impl = int(D._compute_number_svals_to_keep_numba(sf.astype(dt), np.dtype(dt).type(cfl), mode))
                    n_impls.append(n_impl)
                    ng = spec_trim(s, mode, cq, None, 1)[0]  # renorm=1: the kernel is only reached on the dynamic branch
                    ctx.count(("K", tuple(s), mode, str(cutoff), dt), n_impl < d)
                    ctx.bump("count_kernel_" + dt)
                    if n_impl != ng:
                        ctx.violation("count_kernel:numba:count",
                                      f"_compute_number_svals_to_keep_numba kept {n_impl}, the rule demands {ng}",
                                      {**base, "dtype": dt, "kept": n_impl, "expected": ng})
                add(f"(n_nchi_dynamic (mode {zlit(mode)}) {qlit(cq)} {qlist(s)} =? {zlit(n_impls[0])})%Z && "
                    f"({zlit(n_impls[0])} =? {zlit(n_impls[1])})%Z",
                    {**base, "path": "count_kernel", "impl_n_float64": n_impls[0], "impl_n_float32": n_impls[1]})
                # trimming routines on a sample of (max_bond, renorm)
                combos = list(itertools.product([None] + list(range(1, d + 2)), [None, 0, 1, 2, True]))
                for mb, rv in rng.sample(combos, min(len(combos), ctx.n(2, 4))):
                    rn = renorm_power(mode, rv)
                    if allzero and rn > 0:
                        continue  # 0/0 renormalisation of the zero matrix: outside the domain
                    mbi = -1 if mb is None else mb
                    desc = {**base, "max_bond": mb, "renorm": rn}
                    common = f"{zlit(mode)} {qlit(cq)} {zlit(mbi)}"
                    # (N) accelerated trim
                    U, VH = np.eye(d), np.eye(d)
                    _, sv, _, err = D._trim_and_renorm_svd_result_numba(U, sf.copy(), VH, cfl, mode, mbi, None, rn, False, True)
                    sv = np.asarray(sv)
                    trunc = len(sv) < d
                    ctx.count(("N", tuple(s), mode, str(cutoff), mb, rn), trunc)
                    ctx.bump("numba_trim")
                    add(f"chk_n 40 {common} {zlit(rn)} {qlist(s)} {obs_fields(s, sv, err)}", {**desc, "path": "numba_trim",
                        "impl_values": [float(v) for v in sv], "impl_error": float(err)})
                    check_against_spec(ctx, "trim:numba", {**desc, "path": "_trim_and_renorm_svd_result_numba"},
                                       s, mode, cq, mb, rn, sv, err, 1e-12)
                    # (G) generic trim
                    ginfo = {}
                    raised = None
                    try:
                        _, gv, _ = D._trim_and_renorm_svd_result(np.eye(d), sf.copy(), np.eye(d), cutoff=cfl, cutoff_mode=mode,
                                                                 max_bond=mbi, absorb=None, renorm=rn, info=ginfo)
                        gv = np.asarray(gv)
                        gerr = ginfo.get("error")
                    except Exception as e:  # the model never raises: this is a mismatch and a violation
                        raised, gv, gerr = e, [], None
                    ctx.count(("G", tuple(s), mode, str(cutoff), mb, rn), raised is not None or len(gv) < d)
                    ctx.bump("generic_trim")
                    add(f"chk_g 40 {common} {zlit(rn)} {qlist(s)} {blit(raised is not None)} {obs_fields(s, gv, gerr)}",
                        {**desc, "path": "generic_trim", "impl_raised": repr(raised), "impl_values": [float(v) for v in gv]})
                    gdesc = {**desc, "path": "_trim_and_renorm_svd_result"}
                    if raised is not None:
                        # (fixed 91dfb209: abs / rel with renorm > 0 used to raise UnboundLocalError here)
                        key = "trim:generic:absrel_renorm_raises" if (mode in (1, 2) and rn > 0 and isinstance(raised, UnboundLocalError)) \
                            else "trim:generic:raised"
                        ctx.violation(key, f"generic trim raised {type(raised).__name__}: {raised}", gdesc)
                    else:
                        check_against_spec(ctx, "trim:generic", gdesc, s, mode, cq, mb, rn, gv, gerr, 1e-12)
                        if len(gv) == len(sv) and not np.allclose(gv, sv, rtol=1e-12, atol=0):
                            ctx.violation("trim:generic_vs_numba:values", "generic and accelerated trimming return different values",
                                          {**gdesc, "generic": [float(v) for v in gv], "numba": [float(v) for v in sv]})
                    # (E) end to end through array_split on P diag(s) Q^T
                    if rng.random() < ctx.n(0.4, 1.0):
                        e2e_case(ctx, D, add, s, mode, cutoff, cq, mb, rv, rn, desc)
    # (S) static truncation (max_bond only, cutoff <= 0, no renorm, no info) through the one-step SVD-via-eig drivers
    static_eig_stream(ctx, D, add)
    # (R) renorm factor kernel
    for s in spectra(ctx)[: ctx.n(24, 60)]:
        if s[0] == 0 or len(s) < 2:
            continue
        sf = np.array([float(v) for v in s])
        for n, rn in itertools.product(range(1, len(s)), (1, 2, 3)):
            for dt, k in (("float64", 40), ("float32", 16)):
                f = D._compute_svals_renorm_factor_numba(sf.astype(dt), n, np.dtype(dt).type(rn))
                ff = fr(f)
                ctx.count(("R", tuple(s), n, rn, dt), True)
                ctx.bump("renorm_kernel")
                add(f"chk_rn {k} {qlist(s)} {zlit(n)} {zlit(rn)} {qlit(ff)} {blit(short(ff) and dt == 'float64')}",
                    {"path": "renorm_kernel", "s": [str(v) for v in s], "n": n, "renorm": rn, "dtype": dt, "impl_f": float(f)})
                want = (sum(float(v) ** rn for v in s) / sum(float(v) ** rn for v in s[:n])) ** (1.0 / rn)
                if abs(float(f) - want) > (1e-12 if dt == "float64" else 1e-5) * want:
                    ctx.violation("renorm_kernel:value", f"_compute_svals_renorm_factor_numba = {float(f)}, expected {want}",
                                  {"s": [str(v) for v in s], "n": n, "renorm": rn, "dtype": dt})
    failed, errors = ctx.coq_cases("trunc", HEADER, cases, shard=500)
    for path, err in errors:
        ctx.broken_obligation("correspondence:trunc:" + path.split("/")[-1], err)
    for c in failed[:6]:
        ctx.broken_obligation("correspondence:trunc_model_vs_impl", info[c])
    if failed:
        ctx.extra["trunc_mismatches"] = len(failed)
    for c in (1, len(cases) // 2, len(cases)):
        if c in info:
            ctx.sample(info[c])
    ctx.extra["trunc_cases"] = len(cases)


def static_eig_stream(ctx, D, add):
    """`array_split(x, 'svd:eig', max_bond=k, cutoff=0.0|None)` without info / renorm takes the one-step driver
    `_svd_via_eig_numba(max_bond=k, descending=False)`: both Gram branches (x^H x for tall, x x^H for wide / most
    square requests), every absorb form; plus the generic `svd_via_eig` called directly.  Values are compared in the
    order returned with the slice model (Coq), factors with the best rank-k approximation P diag(s[:k]) Q^T."""
    rng = ctx.rng
    specs = [s for s in spectra(ctx) if len(s) >= 2 and s[0] > 0]
    for s in specs[: ctx.n(22, 70)]:
        d = len(s)
        for mb in range(1, d + 1):
            for kind in ("tall", "wide", "square"):
                cplx = rng.random() < 0.3
                x = exact_matrix(rng, s, kind, cplx=cplx)
                sk = [float(v) for v in s[:mb]] + [0.0] * (d - mb)
                # the same P, Q: rebuild the best rank-mb approximation by zeroing the discarded values exactly
                try:
                    U0, s0, V0 = np.linalg.svd(x, full_matrices=False)
                except Exception:
                    continue
                if sorted((fr(v) for v in s0), reverse=True) != list(s):
                    ctx.bump("static_eig_svd_not_exact")
                    continue
                best = (U0[:, :mb] * s0[:mb]) @ V0[:mb, :] if not (mb < d and s[mb - 1] == s[mb]) else None
                cutoff = rng.choice([0.0, None])
                for a in (None, "s", "both", "left", "right", "lfactor", "rorthog"):
                    desc = {"s": [str(v) for v in s], "max_bond": mb, "shape": list(x.shape), "complex": cplx, "absorb": a,
                            "cutoff": cutoff, "method": "svd:eig", "x": [[str(complex(v)) if cplx else float(v) for v in row] for row in x.tolist()]}
                    ctx.count(("S", tuple(s), mb, kind, str(a), cplx), mb < d)
                    ctx.bump("static_eig")
                    D.parse_split_opts.cache_clear()
                    try:
                        L, sv, R = D.array_split(x, method="svd:eig", absorb=a, max_bond=mb, cutoff=cutoff)
                    except Exception as e:
                        ctx.violation("array_split:svd:eig:static_max_bond:raised", f"raised {type(e).__name__}: {e}", desc)
                        continue
                    if sv is not None:
                        got = [fr(v) for v in np.asarray(sv)]
                        add(f"chk_eig {qlist(s)} {zlit(mb)} false {qlist(got)}",
                            {**{k: v for k, v in desc.items() if k != "x"}, "path": "svd:eig one-step", "impl_values": [float(v) for v in got]})
                        if sorted(got, reverse=True) != list(s[: min(mb, d)]):
                            ctx.violation("array_split:svd:eig:static_max_bond:values",
                                          f"max_bond={mb} kept singular values {[float(v) for v in got]}, the {mb} largest are {[float(v) for v in s[:mb]]}",
                                          {**desc, "got": [float(v) for v in got]})
                    if L is not None and R is not None and best is not None:
                        rec = (np.asarray(L) * np.asarray(sv)[None, :]) @ np.asarray(R) if sv is not None else np.asarray(L) @ np.asarray(R)
                        err = float(np.linalg.norm(rec - best))
                        if rec.shape != best.shape or not err <= 1e-9 * max(1.0, float(s[0])):
                            ctx.violation("array_split:svd:eig:static_max_bond:not_best_rank_k",
                                          f"max_bond={mb}: L s R differs from the best rank-{mb} approximation by {err:.3g}",
                                          {**desc, "distance": err})
                    for F, nm in ((L, "left"), (R, "right")):
                        if F is not None and (np.asarray(F).shape[1 if nm == "left" else 0] != min(mb, d)):
                            ctx.violation("array_split:svd:eig:static_max_bond:bond", f"{nm} factor has bond {np.asarray(F).shape}, max_bond={mb}", desc)
                # generic (non-numba) driver, both orders
                for desc_flag in (False, True):
                    try:
                        _, gs, _ = D.svd_via_eig(x, absorb=None, max_bond=mb, descending=desc_flag)
                    except Exception as e:
                        ctx.violation("svd_via_eig:static_max_bond:raised", f"raised {type(e).__name__}: {e}", {"s": [str(v) for v in s], "max_bond": mb})
                        continue
                    got = [fr(v) for v in np.asarray(gs)]
                    ctx.bump("static_eig_generic")
                    add(f"chk_eig {qlist(s)} {zlit(mb)} {blit(desc_flag)} {qlist(got)}",
                        {"path": "svd_via_eig generic", "s": [str(v) for v in s], "max_bond": mb, "descending": desc_flag,
                         "impl_values": [float(v) for v in got]})
                    if sorted(got, reverse=True) != list(s[: min(mb, d)]):
                        ctx.violation("svd_via_eig:static_max_bond:values", f"generic svd_via_eig(max_bond={mb}) kept {[float(v) for v in got]}",
                                      {"s": [str(v) for v in s], "max_bond": mb, "descending": desc_flag, "shape": list(x.shape)})


def e2e_case(ctx, D, add, s, mode, cutoff, cq, mb, rv, rn, desc):
    rng = ctx.rng
    d = len(s)
    variant = rng.choice(["svd", "svd", "svd:complex", "svd:eig", "eigh", "tensor"])
    if s[0] == 0 and variant == "svd:eig":
        variant = "svd"  # zero matrix: see svd_eig_zero_matrix in the oracle stream
    kind = rng.choice(["tall", "wide", "square"])
    if variant == "eigh":
        # hermitian P diag(+-s) P^T: singular values are |eigenvalues|
        P = signed_perm(rng, d)
        signs = [rng.choice([1.0, -1.0]) for _ in range(d)]
        x = P @ np.diag([float(v) * g for v, g in zip(s, signs)]) @ P.T
        method = "eigh"
    else:
        x = exact_matrix(rng, s, kind, cplx=(variant == "svd:complex"))
        method = "svd:eig" if variant == "svd:eig" else "svd"
    # is the driver exact on this matrix?  (untruncated singular values must be exactly s)
    D.parse_split_opts.cache_clear()
    try:
        _, s0, _ = D.array_split(x, method=method, absorb=None, cutoff=0.0)
    except Exception as e:
        ctx.violation(f"array_split:{method}:raised", f"untruncated split raised {type(e).__name__}: {e}",
                      {**desc, "method": method, "x": np.asarray(x).tolist() if not np.iscomplexobj(x) else str(x.tolist())})
        return
    got0 = sorted((abs(fr(v)) for v in np.asarray(s0)), reverse=True)
    if got0 != list(s):
        ctx.bump("e2e_driver_not_exact_" + method)
        return
    info = {}
    D.parse_split_opts.cache_clear()  # isolate from the cache history (that is the cache stream's subject)
    kw = dict(method=method, absorb=None, max_bond=mb, cutoff=None if cutoff is None else float(cutoff),
              cutoff_mode=MODES[mode], renorm=rv)
    try:
        if variant == "tensor":
            import quimb.tensor as qtn

            dims_l = {4: (2, 2), 6: (2, 3), 8: (2, 4)}.get(x.shape[0], (x.shape[0],))
            dims_r = {4: (2, 2), 6: (3, 2), 8: (4, 2)}.get(x.shape[1], (x.shape[1],))
            linds = [f"l{i}" for i in range(len(dims_l))]
            rinds = [f"r{i}" for i in range(len(dims_r))]
            T = qtn.Tensor(x.reshape(dims_l + dims_r), inds=linds + rinds)
            perm = linds + rinds
            rng.shuffle(perm)
            T = T.transpose(*perm)
            kw.pop("method")
            tl, ts, tr = T.split(linds, method=method, get="tensors", info=info, **kw)
            sv = np.asarray(ts.data)
        elif method == "eigh":
            _, sv, _ = D.array_split(x, **kw)  # eigh takes no `info`
            sv = np.asarray(sv)
        else:
            _, sv, _ = D.array_split(x, info=info, **kw)
            sv = np.asarray(sv)
    except Exception as e:
        ctx.violation(f"array_split:{method}:raised", f"array_split raised {type(e).__name__}: {e}", {**desc, "method": method, **kw})
        return
    if method == "eigh":
        sv = np.abs(sv)
        err = None  # eigh reports no error
    else:
        err = info.get("error")
    ctx.count(("E", variant, tuple(s), mode, str(cutoff), mb, str(rv)), len(sv) < d)
    ctx.bump("e2e_" + variant)
    mbi = -1 if mb is None else mb
    add(f"chk_e 40 {zlit(mode)} {qlit(cq)} {zlit(mbi)} {pyvlit(rv)} {qlist(s)} {obs_fields(s, sv, err)}",
        {**desc, "path": "array_split:" + variant, "renorm_arg": str(rv), "impl_values": [float(v) for v in sv],
         "impl_error": None if err is None else float(err)})
    check_against_spec(ctx, "array_split:" + method, {**desc, "method": method, "variant": variant, "renorm_arg": str(rv)},
                       s, mode, cq, mb, rn, sv, err, 1e-12)


# ----------------------------------------------------------------------------
# stage: batched / stacked inputs (x.ndim > 2 -> the generic routine on a stack of spectra)


def obs_tuple(s, vals, err):
    """one member's observation as a Coq `mobs` literal"""
    vals = [fr(v) for v in vals]
    f = None
    if vals and s and s[0] > 0:
        f = vals[0] / s[0]
    fex = f is not None and short(f)
    e = None if err is None else fr(err)
    eex = e is not None and short(e)
    return f"({qlist(vals)}, {qopt(f)}, {blit(fex)}, {qopt(e)}, {blit(eex)})"


def batch_spectra(rng):
    """2..4 descending dyadic spectra of a common length d = 2..5, each multiplied by its own power of two
    (members of clearly different scale), repeats and trailing zeros allowed, every member non-zero"""
    d = rng.randint(2, 5)
    nb = rng.randint(2, 4)
    scales = [rng.randint(-4, 6) for _ in range(nb)]
    if rng.random() < 0.2:
        scales = [scales[0]] * nb  # the uniform-scale class stays in the alphabet
    specs = []
    for k in scales:
        base = sorted([Fr(rng.randint(0, 32), 4) for _ in range(d)], reverse=True)
        if base[0] == 0:
            base[0] = Fr(1, 4)
        if rng.random() < 0.25:  # a member that is effectively rank 1 next to richer ones
            base = [base[0]] + [v / 64 for v in base[1:]]
        specs.append([v * Fr(2) ** k for v in base])
    shapes = {2: [(2,), (2, 1), (1, 2)], 3: [(3,), (1, 3), (3, 1, 1)], 4: [(4,), (2, 2), (2, 1, 2)]}[nb]
    return specs, rng.choice(shapes), scales


def batch_cutoffs(ctx, specs, mode):
    cs = set()
    for s in specs:
        cs |= set(cutoffs_for(ctx, s, mode))
    head = [c for c in cs if c is None or c == 0]
    rest = sorted(c for c in cs if c is not None and c != 0)
    pick = ctx.rng.sample(rest, min(len(rest), ctx.n(3, 6)))
    if ctx.rng.random() < 0.3:
        pick += [ctx.rng.choice(head)]
    return pick


def stack_exact(rng, specs, bshape, kind, cplx, hermitian):
    """members P_b diag(s_b) Q_b^T of one common matrix shape, stacked to bshape + (m, n)"""
    d = len(specs[0])
    extra = rng.randint(1, 2)
    m, n = (d, d) if hermitian else {"tall": (d + extra, d), "wide": (d, d + extra), "square": (d, d)}[kind]
    xs = []
    for s in specs:
        if hermitian:
            P = signed_perm(rng, d, cplx)
            xs.append(P @ np.diag([float(v) * rng.choice([1.0, -1.0]) for v in s]) @ P.conj().T)
        else:
            S = np.zeros((m, n))
            S[:d, :d] = np.diag([float(v) for v in s])
            xs.append(signed_perm(rng, m, cplx) @ S @ signed_perm(rng, n, cplx))
    return np.stack(xs).reshape(tuple(bshape) + (m, n))


def check_batch_against_spec(ctx, site, desc, specs, mode, cq, mb, rn, vals, errs, tol):
    """direct property oracle (Fraction reference of the documented rule, member by member): the common bond is
    the largest count any member needs against ITS OWN spectrum; values / error / renorm per member.  A test."""
    name = MODES[mode]
    want = max(spec_trim(s, mode, cq, mb, rn)[0] for s in specs)
    bond = len(vals[0])
    if bond != want:
        per = [spec_trim(s, mode, cq, mb, rn)[0] for s in specs]
        ctx.violation(f"{site}:batched:{name}:count",
                      f"batched bond {bond}; judged against their own spectra the members need {per} -> {want}",
                      {**desc, "kept": bond, "expected": want, "per_member_expected": per})
        return False
    for b, s in enumerate(specs):
        err2 = sum((v * v for v in s[bond:]), Fr(0))
        if errs is not None and abs(float(errs[b]) ** 2 - float(err2)) > tol * max(float(s[0]) ** 2, float(err2)):
            ctx.violation(f"{site}:batched:{name}:member_error",
                          f"member {b}: reported error^2 {float(errs[b]) ** 2} != discarded weight {float(err2)}",
                          {**desc, "member": b, "reported_error": float(errs[b]), "expected_error_sq": str(err2)})
        if bond == len(s) or rn == 0:
            if [fr(v) for v in vals[b]] != list(s[:bond]):
                ctx.violation(f"{site}:batched:{name}:member_values", f"member {b}: kept values are not its {bond} largest singular values",
                              {**desc, "member": b, "got": [float(v) for v in vals[b]]})
        else:
            tot = sum(float(v) ** rn for v in s)
            got = sum(float(v) ** rn for v in vals[b])
            if abs(got - tot) > tol * tot:
                ctx.violation(f"{site}:batched:{name}:member_renorm",
                              f"member {b}: after renorm={rn} the sum of kept s^{rn} is {got}, not its own total {tot}",
                              {**desc, "member": b, "got_values": [float(v) for v in vals[b]]})
    return True


def batched_stream(ctx):
    """Exact correspondence of the generic routine on stacks (model: coq/C05/Batch.v gb_trim / gb_kept) through
    (GB) `_trim_and_renorm_svd_result` called with s of shape batch + (d,), and (EB) `array_split` on stacks of
    exact matrices (ndim 3..5, svd / svd:eig / eigh, tall / wide / square, real / complex), all six cutoff modes,
    cutoffs on / next to the tie points of EVERY member, every bond cap and renorm form.  Oracle (tests): Fraction
    reference per member, the accelerated 2D routine member by member, reconstruction distance per member."""
    from quimb.tensor import decomp as D

    rng = ctx.rng
    cases, info = [], {}

    def add(expr, meta):
        cases.append((len(cases) + 1, expr))
        info[len(cases)] = meta

    for _ in range(ctx.n(16, 120)):
        specs, bshape, scales = batch_spectra(rng)
        d, nb = len(specs[0]), len(specs)
        sarr = np.array([[float(v) for v in s] for s in specs])
        for mode in MODES:
            for cutoff in batch_cutoffs(ctx, specs, mode):
                cq = Fr(-1) if cutoff is None else cutoff
                cfl = float(cq)
                mb = rng.choice([None, None] + list(range(1, d + 2)))
                rv = rng.choice([None, None, 0, 1, 2, True])
                rn = renorm_power(mode, rv)
                mbi = -1 if mb is None else mb
                desc = {"spectra": [[str(v) for v in s] for s in specs], "batch_shape": list(bshape), "log2_scales": scales,
                        "cutoff_mode": MODES[mode], "cutoff": None if cutoff is None else str(cutoff), "max_bond": mb, "renorm": rn}
                sslit = coqlist(specs, qlist)
                common = f"{zlit(mode)} {qlit(cq)} {zlit(mbi)}"
                # what the accelerated 2D routine keeps, member by member (theorem C05_batch_bond_is_max_of_member_counts)
                n2d = [len(np.asarray(D._trim_and_renorm_svd_result_numba(np.eye(d), sarr[b].copy(), np.eye(d), cfl, mode, mbi, None, rn,
                                                                          False, True)[1])) for b in range(nb)]
                # (GB) generic routine called directly on the stack of spectra
                U = np.broadcast_to(np.eye(d), tuple(bshape) + (d, d)).copy()
                ginfo, raised = {}, None
                try:
                    _, gv, _ = D._trim_and_renorm_svd_result(U, sarr.reshape(tuple(bshape) + (d,)).copy(), U.copy(), cutoff=cfl, cutoff_mode=mode,
                                                             max_bond=mbi, absorb=None, renorm=rn, info=ginfo)
                    gv = np.asarray(gv).reshape(nb, -1)
                    gerr = np.broadcast_to(np.asarray(ginfo["error"], dtype=float), tuple(bshape)).reshape(nb) \
                        if np.ndim(ginfo["error"]) else np.full(nb, float(ginfo["error"]))
                except Exception as e:
                    raised, gv, gerr = e, np.zeros((nb, 0)), np.zeros(nb)
                bond = gv.shape[1]
                ctx.count(("GB", tuple(map(tuple, specs)), bshape, mode, str(cutoff), mb, rn), raised is not None or bond < d)
                ctx.bump("batched_generic_trim")
                ctx.bump("batched_scales_" + ("differ" if len(set(scales)) > 1 else "equal"))
                obs = coqlist(range(nb), lambda b: obs_tuple(specs[b], gv[b], gerr[b]))
                add(f"chk_gb 40 {common} {zlit(rn)} {sslit} {blit(raised is not None)} {zlit(bond)} {obs}",
                    {**desc, "path": "generic_trim_batched", "impl_raised": repr(raised), "impl_bond": bond, "impl_values": gv.tolist()})
                gdesc = {**desc, "path": "_trim_and_renorm_svd_result", "s_shape": list(bshape) + [d]}
                if raised is not None:
                    ctx.violation(f"trim:generic:batched:{MODES[mode]}:raised", f"generic trim raised {type(raised).__name__}: {raised}", gdesc)
                elif check_batch_against_spec(ctx, "trim:generic", gdesc, specs, mode, cq, mb, rn, gv, gerr, 1e-12) and bond != max(n2d):
                    ctx.violation(f"trim:generic_vs_numba:batched:{MODES[mode]}:count",
                                  f"batched bond {bond}, the accelerated routine member by member keeps {n2d}", {**gdesc, "numba_counts": n2d})
                # (EB) end to end through array_split
                if rng.random() < ctx.n(0.5, 1.0):
                    batched_e2e(ctx, D, add, specs, bshape, mode, cutoff, cq, mb, rv, rn, desc, n2d)
    failed, errors = ctx.coq_cases("batched", BATCH_HEADER, cases, shard=ctx.n(100, 400))
    for path, err in errors:
        ctx.broken_obligation("correspondence:batched:" + path.split("/")[-1], err)
    for c in failed[:6]:
        ctx.broken_obligation("correspondence:batched_model_vs_impl", info[c])
    if failed:
        ctx.extra["batched_mismatches"] = len(failed)
    for c in (1, len(cases)):
        if c in info:
            ctx.sample(info[c])
    ctx.extra["batched_cases"] = len(cases)


def batched_e2e(ctx, D, add, specs, bshape, mode, cutoff, cq, mb, rv, rn, desc, n2d):
    rng = ctx.rng
    d, nb = len(specs[0]), len(specs)
    method = rng.choice(["svd", "svd", "svd:eig", "eigh"])
    kind = rng.choice(["tall", "wide", "square"])
    cplx = rng.random() < 0.3
    x = stack_exact(rng, specs, bshape, kind, cplx, method == "eigh")
    site = f"array_split:{method}"
    edesc = {**desc, "method": method, "x_shape": list(x.shape), "complex": cplx, "renorm_arg": str(rv)}
    D.parse_split_opts.cache_clear()
    try:
        _, s0, _ = D.array_split(x, method=method, absorb=None, cutoff=0.0)
    except Exception as e:
        ctx.violation(f"{site}:batched:raised", f"untruncated batched split raised {type(e).__name__}: {e}", edesc)
        return
    s0 = np.abs(np.asarray(s0)).reshape(nb, -1)
    if [sorted((fr(v) for v in row), reverse=True) for row in s0] != [list(s) for s in specs]:
        ctx.bump("batched_e2e_driver_not_exact_" + method)
        return
    absorb = rng.choice([None, None, None, "both", "left", "right"])
    info = {}
    kw = dict(method=method, absorb=absorb, max_bond=mb, cutoff=None if cutoff is None else float(cutoff), cutoff_mode=MODES[mode], renorm=rv)
    if method != "eigh":
        kw["info"] = info  # eigh takes no `info`
    D.parse_split_opts.cache_clear()
    try:
        L, sv, R = D.array_split(x, **kw)
    except Exception as e:
        ctx.violation(f"{site}:batched:raised", f"batched split raised {type(e).__name__}: {e}", {**edesc, "absorb": absorb})
        return
    L, R = np.asarray(L), np.asarray(R)
    bond = L.shape[-1]
    ctx.count(("EB", method, kind, cplx, str(absorb), tuple(map(tuple, specs)), bshape, mode, str(cutoff), mb, str(rv)), bond < d)
    ctx.bump("batched_e2e_" + method)
    edesc["absorb"] = absorb
    if L.shape[:-2] != tuple(bshape) or R.shape[:-2] != tuple(bshape) or R.shape[-2] != bond:
        ctx.violation(f"{site}:batched:shape", f"factors have shapes {L.shape}, {R.shape} for input {x.shape}", edesc)
        return
    errs = None
    if "error" in info and info["error"] is not None:
        errs = np.broadcast_to(np.asarray(info["error"], dtype=float), tuple(bshape)).reshape(nb) if np.ndim(info["error"]) \
            else np.full(nb, float(info["error"]))
    mbi = -1 if mb is None else mb
    if sv is not None:
        svm = np.abs(np.asarray(sv)).reshape(nb, -1)
        obs = coqlist(range(nb), lambda b: obs_tuple(specs[b], svm[b], None if errs is None else errs[b]))
        add(f"chk_eb 40 {zlit(mode)} {qlit(cq)} {zlit(mbi)} {pyvlit(rv)} {coqlist(specs, qlist)} {zlit(bond)} {obs}",
            {**edesc, "path": "array_split_batched:" + method, "impl_bond": bond, "impl_values": svm.tolist()})
        ok = check_batch_against_spec(ctx, site, edesc, specs, mode, cq, mb, rn, svm, errs, 1e-12)
        rec = (L * np.asarray(sv)[..., None, :]) @ R
    else:
        want = max(spec_trim(s, mode, cq, mb, rn)[0] for s in specs)
        ok = bond == want
        if not ok:
            ctx.violation(f"{site}:batched:{MODES[mode]}:count", f"batched bond {bond}, the members' own rules demand {want}",
                          {**edesc, "kept": bond, "expected": want})
        rec = L @ R
    if ok and bond != max(n2d):
        ctx.violation(f"{site}:generic_vs_numba:batched:{MODES[mode]}:count",
                      f"batched bond {bond}, the accelerated routine member by member keeps {n2d}", {**edesc, "numba_counts": n2d})
    # honest error, member by member: ||x_b - L_b s_b R_b||^2 = weight discarded from member b (no renorm; tolerance: a test)
    if ok and rn == 0:
        dist = np.linalg.norm((rec - x).reshape(nb, -1), axis=1)
        for b, s in enumerate(specs):
            want = math.sqrt(float(sum((v * v for v in s[bond:]), Fr(0))))
            if abs(float(dist[b]) - want) > 1e-9 * float(s[0]):
                ctx.violation(f"{site}:batched:{MODES[mode]}:member_distance",
                              f"member {b}: ||x - L s R|| = {float(dist[b]):.6g}, its discarded weight is {want:.6g}",
                              {**edesc, "member": b, "distance": float(dist[b]), "expected": want})


# ----------------------------------------------------------------------------
# stage: tables (absorb, option parsing, isometry flags, driver returns)

METH_IDS = {"auto": 0, "svd": 1, "svd:eig": 2, "svd:rand": 3, "eigh": 4, "qr": 5, "cholesky": 6, "qr:cholesky": 7,
            "svds": 8, "isvd": 9, "rsvd": 10, "eigsh": 11, "lu": 12, "polar_right": 13, "polar_left": 14,
            "lq": 15, "lq:cholesky": 16, "eig": 17}
REGISTERED = [m for m in METH_IDS if m not in ("auto", "lq", "lq:cholesky", "eig")]
ALIASES = ["U,s,VH", "s", "lsqrt", "VH", "rorthog", "Us", "lfactor", "Us,VH", "left", "Usq,sqVH", "both", "U,sVH", "right",
           "U", "lorthog", "sVH", "rfactor", "sqVH", "rsqrt"]
HERMITIAN_METHODS = ("eigh", "eigsh", "cholesky")
ITERATIVE = ("svds", "isvd", "rsvd", "eigsh")

TABLE_HEADER = HEADER + """
Open Scope string_scope.
Fixpoint alias_code (l : list (string * option Z)) (s : string) : option (option Z) :=
  match l with [] => None | (k, v) :: r => if String.eqb k s then Some v else alias_code r s end.
Definition al (s : string) : aarg := match alias_code absorb_aliases s with Some c => ACode c | None => AAuto end.
Definition al_known (s : string) : bool := match alias_code absorb_aliases s with Some _ => true | None => false end.
Close Scope string_scope.
Definition lf_of (n : Z) : lfac := match n with 0%Z => LNone | 1%Z => LU | 2%Z => LUs | _ => LUsq end.
Definition rf_of (n : Z) : rfac := match n with 0%Z => RNone | 1%Z => RVH | 2%Z => RsVH | _ => RsqVH end.
Definition abs_chk (a : option Z) (raised : bool) (l : Z) (sret : bool) (r : Z) : bool :=
  match do_absorb a with
  | None => raised
  | Some (l', b, r') => negb raised && lfac_eqb l' (lf_of l) && Bool.eqb b sret && rfac_eqb r' (rf_of r)
  end.
Definition absn_chk (a : option Z) (l : Z) (sret : bool) (r : Z) : bool :=
  let '(l', b, r') := do_absorb_numba a in lfac_eqb l' (lf_of l) && Bool.eqb b sret && rfac_eqb r' (rf_of r).
Definition pma_chk (mid : Z) (a : aarg) (t : bool) (mid' : Z) (c : option Z) : bool :=
  let '(m', c') := parse_method_absorb (meth_of_id mid) a t in (meth_id m' =? mid')%Z && code_eqb c' c.
Definition isom_chk (mid : Z) (a : aarg) (l r : bool) : bool :=
  let '(l', r') := parse_isom (meth_of_id mid) a in Bool.eqb l l' && Bool.eqb r r'.
Definition drv_chk (mid shp : Z) (c : option Z) (raised lnone sret rnone liso riso : bool) : bool :=
  match driver_returns (meth_of_id mid) (shape_of_id shp) c with
  | None => raised
  | Some (l, b, r) =>
      negb raised && Bool.eqb lnone (lfac_eqb l LNone) && Bool.eqb sret b && Bool.eqb rnone (rfac_eqb r RNone)
      && (lfac_eqb l LNone || Bool.eqb liso (lfac_eqb l LU)) && (rfac_eqb r RNone || Bool.eqb riso (rfac_eqb r RVH))
  end.
Fixpoint zl_eqb (a b : list Z) : bool :=
  match a, b with [], [] => true | x :: a', y :: b' => (x =? y)%Z && zl_eqb a' b' | _, _ => false end.
Definition cl_same (a b : list (option Z)) : bool :=
  forallb (fun x => code_in x b) a && forallb (fun x => code_in x a) b.
"""


def strlit(s):
    return '"' + s + '"%string'


def aarg_lit(a):
    if isinstance(a, str):
        return "AAuto" if a == "auto" else f"(al {strlit(a)})"
    return f"(ACode {codelit(a)})"


def classify(M, cands):
    if M is None:
        return 0
    M = np.asarray(M)
    for k, C in cands:
        if M.shape == C.shape and np.array_equal(M, C):
            return k
    return -1


def gen_matrix(nprng, m, n, dt, herm=False, rank=None):
    cplx = "complex" in dt
    r = min(m, n) if rank is None else rank

    def rnd(a, b):
        X = nprng.normal(size=(a, b))
        return X + 1j * nprng.normal(size=(a, b)) if cplx else X

    if herm:
        A = rnd(m, r)
        x = A @ A.conj().T + (np.eye(m) if rank is None else 0)
    elif rank is None:
        x = rnd(m, n)
    else:
        x = rnd(m, r) @ rnd(r, n)
    return x.astype(dt)


def untruncated_kwargs(method, m, n):
    if method in ITERATIVE:
        return {}  # documented default cutoff=1e-10: keeps the full numerical rank
    kw = {"cutoff": 0.0}
    if method == "svd:rand":
        kw["max_bond"] = min(m, n)
    if method == "lu":
        kw["cutoff_mode"] = "rel"
    return kw


def isom_defect(M, side):
    M = np.asarray(M)
    G = M.conj().T @ M if side == "l" else M @ M.conj().T
    return float(np.linalg.norm(G - np.eye(G.shape[0])))


def tables_stream(ctx):
    from quimb.tensor import decomp as D

    cases, info = [], {}
    cid = 0

    def add(expr, meta):
        nonlocal cid
        cid += 1
        cases.append((cid, expr))
        info[cid] = meta
        ctx.count(meta, True)

    # registry must be what the model enumerates
    if sorted(D._SPLIT_FNS) != sorted(REGISTERED):
        ctx.broken_obligation("registry_changed", {"registered": sorted(D._SPLIT_FNS), "modelled": sorted(REGISTERED)})
    # (T1) _do_absorb / _do_absorb_numba on integer data (s perfect squares: sqrt exact)
    U = np.array([[1.0, 2.0], [3.0, -1.0], [0.0, 5.0]])
    s = np.array([9.0, 4.0])
    VH = np.array([[2.0, -1.0, 3.0], [1.0, 4.0, -2.0]])
    lc = [(1, U), (2, U * s), (3, U * np.sqrt(s))]
    rc = [(1, VH), (2, s[:, None] * VH), (3, np.sqrt(s)[:, None] * VH)]
    # documented forms (array_split docstring): code -> (left, s returned, right); 1 = bare, 2 = times s, 3 = times sqrt(s)
    doc_forms = {None: (1, True, 1), 2: (0, True, 0), -12: (3, False, 0), -11: (0, False, 1), -10: (2, False, 0), -1: (2, False, 1),
                 0: (3, False, 3), 1: (1, False, 2), 10: (1, False, 0), 11: (0, False, 2), 12: (0, False, 3)}
    for a in CODES + [5, -3, 3, 100]:
        ctx.bump("absorb_table")
        try:
            L, sv, R = D._do_absorb(U.copy(), s.copy(), VH.copy(), a)
            raised = False
        except ValueError:
            L = sv = R = None
            raised = True
        l, r = classify(L, lc), classify(R, rc)
        add(f"abs_chk {codelit(a)} {blit(raised)} {zlit(l)} {blit(sv is not None)} {zlit(r)}",
            {"table": "_do_absorb", "absorb": a, "raised": raised, "left": l, "s": sv is not None, "right": r})
        if l < 0 or r < 0 or (sv is not None and not np.array_equal(np.asarray(sv), s)):
            ctx.violation("do_absorb:value", "_do_absorb returned a factor that is none of U, U s, U sqrt(s) / VH, s VH, sqrt(s) VH",
                          {"absorb": a})
        if a in doc_forms and (raised or (l, sv is not None, r) != doc_forms[a]):
            ctx.violation("do_absorb:form", f"_do_absorb(absorb={a}) does not return the documented form",
                          {"absorb": a, "raised": raised, "got": [l, sv is not None, r], "documented": list(doc_forms[a]),
                           "legend": "0 none, 1 bare U/VH, 2 times s, 3 times sqrt(s)"})
        if a not in doc_forms and not raised:
            ctx.violation("do_absorb:invalid_code_accepted", f"_do_absorb(absorb={a}) did not raise", {"absorb": a})
        L, sv, R = D._do_absorb_numba(U.copy(), s.copy(), VH.copy(), a)
        l, r = classify(L, lc), classify(R, rc)
        if a in doc_forms and (l, sv is not None, r) != doc_forms[a]:
            ctx.violation("do_absorb_numba:form", f"_do_absorb_numba(absorb={a}) does not return the documented form",
                          {"absorb": a, "got": [l, sv is not None, r], "documented": list(doc_forms[a])})
        add(f"absn_chk {codelit(a)} {zlit(l)} {blit(sv is not None)} {zlit(r)}",
            {"table": "_do_absorb_numba", "absorb": a, "left": l, "s": sv is not None, "right": r})
    # (T2) static maps
    amap = D._ABSORB_MAP
    strs = sorted(k for k in amap if isinstance(k, str))
    add(f"forallb al_known {coqlist(strs, strlit)} && (Z.of_nat (List.length absorb_aliases) =? {zlit(len(strs))})%Z",
        {"table": "_ABSORB_MAP keys", "aliases": strs})
    for k in strs:
        add(f"match al {strlit(k)} with ACode c => code_eqb c {codelit(amap[k])} | AAuto => false end", {"table": "_ABSORB_MAP", "alias": k})
    add(f"cl_same all_codes {coqlist([k for k in amap if not isinstance(k, str)], codelit)}", {"table": "_ABSORB_MAP codes"})
    for k, v in D._ABSORB_TRANSPOSE_MAP.items():
        add(f"code_eqb (absorb_transpose {codelit(k)}) {codelit(v)}", {"table": "_ABSORB_TRANSPOSE_MAP", "code": k})
    add(f"cl_same returns_left_absorbs {coqlist(list(D._RETURNS_LEFT_ABSORBS), codelit)} && "
        f"cl_same returns_right_absorbs {coqlist(list(D._RETURNS_RIGHT_ABSORBS), codelit)}", {"table": "_RETURNS_*_ABSORBS"})
    for m in REGISTERED:
        add(f"code_eqb (default_absorb (meth_of_id {zlit(METH_IDS[m])})) {codelit(D._DEFAULT_ABSORB.get(m, 'missing'))}",
            {"table": "_DEFAULT_ABSORB", "method": m})
    for name, code in D._CUTOFF_MODE_MAP.items():
        if isinstance(name, str):
            add(f"(cmode_code (mode {zlit(code)}) =? {zlit(code)})%Z && {blit(MODES.get(code) == name)}", {"table": "_CUTOFF_MODE_MAP", "name": name})
    for code in MODES:
        add(f"(renorm_lookup (mode {zlit(code)}) =? {zlit(D._RENORM_LOOKUP.get(code, 0))})%Z", {"table": "_RENORM_LOOKUP", "mode": code})
    # (T2b) parse_method_absorb / parse_split_left_right_isom: every method x every absorb spelling
    with warnings.catch_warnings():
        warnings.simplefilter("ignore")
        for m in METH_IDS:
            for a in ["auto"] + ALIASES + CODES:
                for trunc in (True, False):
                    ctx.bump("parse_method_absorb")
                    try:
                        m2, c2 = D.parse_method_absorb.__wrapped__(m, a, truncation=trunc)
                    except Exception as e:
                        ctx.violation("parse_method_absorb:raised", f"parse_method_absorb({m!r}, {a!r}) raised {type(e).__name__}: {e}",
                                      {"method": m, "absorb": a, "truncation": trunc})
                        continue
                    add(f"pma_chk {zlit(METH_IDS[m])} {aarg_lit(a)} {blit(trunc)} {zlit(METH_IDS.get(m2, -1))} {codelit(c2)}",
                        {"table": "parse_method_absorb", "method": m, "absorb": a, "truncation": trunc, "impl": [m2, c2]})
                li, ri = D.parse_split_left_right_isom.__wrapped__(m, a)
                add(f"isom_chk {zlit(METH_IDS[m])} {aarg_lit(a)} {blit(li)} {blit(ri)}",
                    {"table": "parse_split_left_right_isom", "method": m, "absorb": a, "impl": [li, ri]})
    # (T3) what every driver returns for every code (float64, 4x4, well conditioned)
    nprng = np.random.default_rng(ctx.seed + 5)
    baseline = {}
    with warnings.catch_warnings():
        warnings.simplefilter("ignore")
        for m in REGISTERED:
            # shape class matters only for the polar drivers (0 tall, 1 square, 2 wide)
            shapes = [(1, 4, 4)] + ([(0, 5, 3), (2, 3, 5)] if m in ("polar_left", "polar_right") else [])
            for shp, mm, nn in shapes:
                x = gen_matrix(nprng, mm, nn, "float64", herm=m in HERMITIAN_METHODS) * 3.0
                for c in CODES:
                    ctx.bump("driver_table")
                    D.parse_split_opts.cache_clear()
                    try:
                        L, sv, R = D.array_split(x, method=m, absorb=c, **untruncated_kwargs(m, mm, nn))
                        # isometric in the sense Tensor.split flags it: left M^H M = 1, right M M^H = 1
                        obs = (False, L is None, sv is not None, R is None,
                               L is not None and isom_defect(L, "l") < 1e-6, R is not None and isom_defect(R, "r") < 1e-6)
                        exc = None
                    except Exception as e:
                        obs = (True, True, False, True, False, False)
                        exc = e
                    if shp == 1:
                        baseline[(m, c)] = exc
                    add(f"drv_chk {zlit(METH_IDS[m])} {zlit(shp)} {codelit(c)} " + " ".join(blit(b) for b in obs),
                        {"table": "driver_returns", "method": m, "shape": [mm, nn], "absorb": c, "impl": list(obs)})
    ctx.extra["_baseline"] = baseline
    failed, errors = ctx.coq_cases("tables", TABLE_HEADER, cases, shard=500)
    for path, err in errors:
        ctx.broken_obligation("correspondence:tables:" + path.split("/")[-1], err)
    for c in failed[:8]:
        ctx.broken_obligation("correspondence:tables_model_vs_impl", info[c])
    ctx.extra["table_cases"] = len(cases)


# ----------------------------------------------------------------------------
# stage: functools.cache on parse_split_opts


def cache_stream(ctx):
    from quimb.tensor import decomp as D

    rng = ctx.rng
    cases, info = [], {}
    values = [None, False, True, 0, 1, 2]
    histories = [[(4, 1), (4, True)], [(4, True), (4, 1)], [(1, 1), (1, True)], [(6, True), (6, 1), (4, True)],
                 [(3, 0), (3, False), (3, None)]]
    for _ in range(ctx.n(120, 1500)):
        histories.append([(rng.choice(list(MODES)), rng.choice(values)) for _ in range(rng.randint(2, 6))])
    for cid, hist in enumerate(histories, 1):
        D.parse_split_opts.cache_clear()
        seen, cached, pure = [], [], []
        for mode, rv in hist:
            args = ("svd", "both", None, 1e-10, MODES[mode], rv)
            got = D.parse_split_opts(*args)[1]["renorm"]
            want = D.parse_split_opts.__wrapped__(*args)[1]["renorm"]
            cached.append(int(got))
            pure.append(int(want))
            if got != want or type(got) is not type(want) and not (got == 0 and want == 0):
                if int(got) != int(want):
                    key = "parse_split_opts:cache:renorm_True_after_1" if rv is True else "parse_split_opts:cache:renorm_1_after_True"
                    ctx.violation(key, f"parse_split_opts(renorm={rv!r}) returned renorm={got} from the cache, a fresh call gives {want}",
                                  {"history": [[MODES[a], repr(b)] for a, b in seen + [(mode, rv)]], "cached": int(got), "fresh": int(want)})
            seen.append((mode, rv))
        collide = cached != pure
        ctx.count(("cache", tuple((a, repr(b)) for a, b in hist)), collide)
        ctx.bump("cache_history" + ("_colliding" if collide else ""))
        calls = coqlist(hist, lambda p: f"(mode {zlit(p[0])}, {pyvlit(p[1])})")
        cases.append((cid, f"zl_eqb (cached_run [] {calls}) {coqlist(cached, zlit)} && "
                           f"zl_eqb (map (fun k => parse_renorm (fst k) (snd k)) {calls}) {coqlist(pure, zlit)}"))
        info[cid] = {"history": [[MODES[a], repr(b)] for a, b in hist], "impl_cached": cached, "impl_fresh": pure}
    D.parse_split_opts.cache_clear()
    # end-to-end effect of the history: same call, different kept values
    x = np.diag([4.0, 2.0, 1.0, 0.5])
    kw = dict(method="svd", absorb=None, cutoff=0.06, cutoff_mode="rsum2")
    fresh = np.asarray(D.array_split(x, renorm=True, **kw)[1])
    D.parse_split_opts.cache_clear()
    D.array_split(x, renorm=1, **kw)
    after = np.asarray(D.array_split(x, renorm=True, **kw)[1])
    D.parse_split_opts.cache_clear()
    if not np.array_equal(fresh, after):
        ctx.violation("parse_split_opts:cache:renorm_True_after_1",
                      "array_split(..., renorm=True) returns different singular values after an earlier renorm=1 call",
                      {"x": "diag(4,2,1,0.5)", **kw, "fresh": fresh.tolist(), "after_renorm_1": after.tolist()})
    failed, errors = ctx.coq_cases("cache", TABLE_HEADER, cases, shard=400)
    for path, err in errors:
        ctx.broken_obligation("correspondence:cache:" + path.split("/")[-1], err)
    for c in failed[:5]:
        ctx.broken_obligation("correspondence:cache_model_vs_impl", info[c])
    ctx.sample(info[1])


# ----------------------------------------------------------------------------
# stage: oracle over every method x absorb x dtype x shape class (tests, tolerance)

DTYPES = ["float64", "float32", "complex128", "complex64"]
REQUESTS = ["auto", None, "lsqrt", "rorthog", "lfactor", "left", "both", "right", "lorthog", "rfactor", "rsqrt"]
LOSSY = ("svd:eig", "qr:cholesky", "svd:rand", "svds", "isvd", "rsvd", "eigsh", "cholesky")
CLEAN_REJECTIONS = ("ValueError", "NotImplementedError", "TypeError", "LinAlgError", "KeyError")

# shape classes: (left dims, right dims, rank or None)
GENERAL_SHAPES = {
    "tall": ((2, 3), (4,), None),
    "wide": ((3,), (2, 3), None),
    "rank_deficient": ((2, 3), (3, 2), 3),
    "dim1_row": ((1,), (4,), None),
    "dim1_col": ((2, 2), (1,), None),
    "dim1_both": ((1,), (1,), None),
}
HERM_SHAPES = {
    "square": ((2, 2), (2, 2), None),
    "rank_deficient": ((2, 2), (2, 2), 2),
    "dim1_both": ((1,), (1,), None),
}


def tol_for(method, dt):
    single = dt in ("float32", "complex64")
    if method in LOSSY:
        return 3e-2 if single else 1e-6
    return 5e-4 if single else 1e-9


def make_tensor(ctx, nprng, ldims, rdims, dt, herm, rank):
    import quimb.tensor as qtn

    m, n = int(np.prod(ldims)), int(np.prod(rdims))
    x = gen_matrix(nprng, m, n, dt, herm=herm, rank=rank)
    linds = [f"l{i}" for i in range(len(ldims))]
    rinds = [f"r{i}" for i in range(len(rdims))]
    T = qtn.Tensor(x.reshape(tuple(ldims) + tuple(rdims)), inds=linds + rinds, tags={"T"})
    perm = linds + rinds
    ctx.rng.shuffle(perm)
    return T.transpose(*perm), linds, rinds, x


def flagged_defect(t):
    li = t.left_inds
    if li is None:
        return None
    rest = [i for i in t.inds if i not in li]
    M = np.asarray(t.to_dense(li, rest))
    return isom_defect(M, "l")


def crash_key(method, dt, e):
    name = type(e).__name__
    if method == "svd:eig" and name == "TypingError" and dt in ("float32", "complex64"):
        return "array_split:svd:eig:single_precision:TypingError"
    return f"array_split:{method}:crash:{name}"


def oracle_stream(ctx):
    import quimb.tensor as qtn
    from quimb.tensor import decomp as D

    nprng = np.random.default_rng(ctx.seed + 11)
    baseline = ctx.extra.pop("_baseline", {})
    stats = {"splits": 0, "rejected": 0}
    with warnings.catch_warnings():
        warnings.simplefilter("ignore")
        for method in REGISTERED:
            herm = method in HERMITIAN_METHODS
            shapes = HERM_SHAPES if herm else GENERAL_SHAPES
            for sname, (ldims, rdims, rank) in shapes.items():
                if method in ("cholesky", "qr:cholesky") and rank is not None:
                    continue  # needs a positive definite (Gram) operator
                for dt in DTYPES:
                    reqs = REQUESTS if (not ctx.quick or sname in ("tall", "square", "rank_deficient")) else ctx.rng.sample(REQUESTS, 4)
                    for a in reqs:
                        T, linds, rinds, x = make_tensor(ctx, nprng, ldims, rdims, dt, herm, rank)
                        m, n = x.shape
                        kw = untruncated_kwargs(method, m, n)
                        desc = {"method": method, "absorb": a, "dtype": dt, "shape_class": sname, "matrix_shape": [m, n], **kw,
                                "left_inds": linds, "stored_inds": list(T.inds), "nprng_seed": ctx.seed + 11}
                        ctx.count(("O", method, str(a), dt, sname), True)
                        ctx.bump("oracle_" + method)
                        stats["splits"] += 1
                        D.parse_split_opts.cache_clear()
                        try:
                            _, code = D.parse_method_absorb(method, a, truncation=True)
                        except Exception:
                            code = "?"
                        base = baseline.get((method, code), "unknown")
                        if herm and rank is not None and code in (0, -12, 12):
                            if method == "eigsh":
                                continue  # sqrt forms of a numerically singular operator: tiny negative eigenvalues
                            kw["positive"] = 1  # documented switch: clip them (operator is positive semidefinite)
                        if method == "cholesky" and a is None:
                            continue  # cholesky ignores absorb (see the driver table): no s to wrap as a tensor
                        if method == "qr:cholesky" and ((m > n and code in (-1, -10, -11)) or (m < n and code in (1, 10, 11))):
                            continue  # documented (warning): not well-defined for that orientation
                        give_right = herm or ctx.rng.random() < 0.5
                        if give_right:
                            kw["right_inds"] = rinds
                        else:
                            rinds = [i for i in T.inds if i not in linds]  # documented: worked out from the stored order
                        try:
                            out = T.split(linds, method=method, absorb=a, get="tensors", **kw)
                        except Exception as e:
                            name = type(e).__name__
                            stats["rejected"] += 1
                            if name not in CLEAN_REJECTIONS:
                                ctx.violation(crash_key(method, dt, e), f"split raised {name} (a crash, not a rejection): {str(e)[:150]}", desc)
                            elif base is None and method not in ITERATIVE and not ("dtype" in str(e).lower() or name == "LinAlgError"):
                                # the same method/absorb works on the float64 4x4 baseline: this input must work too
                                ctx.violation(f"array_split:{method}:rejects_valid_input", f"split raised {name}: {str(e)[:150]}", desc)
                            continue
                        if isinstance(base, Exception):
                            ctx.violation(f"array_split:{method}:inconsistent_rejection",
                                          "combination rejected on the float64 baseline but accepted here", desc)
                        if a is None:
                            tl, ts, tr = out
                        else:
                            (tl, tr), ts = out, None
                        tol = tol_for(method, dt)
                        # shapes: every label keeps its dimension
                        dim_of = dict(zip(T.inds, T.shape))
                        shape_bad = False
                        for t1, own in ((tl, linds), (tr, rinds)):
                            if t1 is not None and any(dim_of[i] != dd for i, dd in zip(t1.inds, t1.shape) if i in dim_of):
                                shape_bad = True
                                ctx.violation("tensor_split:dims", "a factor carries a requested label with a different dimension",
                                              {**desc, "factor_inds": list(t1.inds), "factor_shape": list(t1.shape),
                                               "input_dims": {k: int(v) for k, v in dim_of.items()}})
                        if shape_bad:
                            continue
                        # labels: requested labels + one new bond
                        bonds = set()
                        if tl is not None:
                            if tuple(tl.inds[:-1]) != tuple(linds):
                                ctx.violation("tensor_split:labels", "left factor does not carry (left_inds..., bond)", {**desc, "got": list(tl.inds)})
                            bonds.add(tl.inds[-1])
                        if tr is not None:
                            if tuple(tr.inds[1:]) != tuple(rinds):
                                ctx.violation("tensor_split:labels", "right factor does not carry (bond, right_inds...)", {**desc, "got": list(tr.inds)})
                            bonds.add(tr.inds[0])
                        if ts is not None:
                            bonds.add(ts.inds[0])
                        if len(bonds) > 1:
                            ctx.violation("tensor_split:labels", "factors are not joined by one common new bond", {**desc, "bonds": sorted(bonds)})
                        # reconstruction
                        if tl is not None and tr is not None and (a is not None or ts is not None):
                            parts = [t for t in (tl, ts, tr) if t is not None]
                            R = qtn.tensor_contract(*parts, output_inds=T.inds) if ts is None else \
                                qtn.TensorNetwork(parts).contract(output_inds=T.inds)
                            nrm = float(np.linalg.norm(np.asarray(T.data))) or 1.0
                            err = float(np.linalg.norm(np.asarray(R.data) - np.asarray(T.data))) / nrm
                            if not err <= tol:
                                ctx.violation(f"tensor_split:{method}:reconstruction",
                                              f"contracting the factors gives relative error {err:.3g} (tolerance {tol:g}) with no truncation requested",
                                              {**desc, "rel_error": err})
                        # one-sided forms (gauge independent): Us Us^H = x x^H, (Usq Usq^H)^2 = x x^H, and mirrored
                        if code in (-10, -12, 11, 12) and not (method in ("cholesky", "polar_left", "polar_right")):
                            t1 = tl if code in (-10, -12) else tr
                            if t1 is not None:
                                xm = np.asarray(T.to_dense(linds, rinds)).astype(complex)
                                if code in (-10, -12):
                                    F = np.asarray(t1.to_dense(linds, [t1.inds[-1]])).astype(complex)
                                    G, target = F @ F.conj().T, xm @ xm.conj().T
                                else:
                                    F = np.asarray(t1.to_dense([t1.inds[0]], rinds)).astype(complex)
                                    G, target = F.conj().T @ F, xm.conj().T @ xm
                                if code in (-12, 12):
                                    G = G @ G
                                err1 = float(np.linalg.norm(G - target)) / (float(np.linalg.norm(target)) or 1.0)
                                if not err1 <= 50 * tol:
                                    ctx.violation(f"tensor_split:{method}:one_sided_form",
                                                  f"absorb={a!r}: the single returned factor is not the documented form (Gram mismatch {err1:.3g})",
                                                  {**desc, "gram_rel_error": err1})
                        # isometry of flagged factors
                        for side, t in (("left", tl), ("right", tr)):
                            if t is None:
                                continue
                            dfc = flagged_defect(t)
                            if dfc is not None and not dfc <= max(tol * 10, 1e-7):
                                if method in ("polar_left", "polar_right") and ((method == "polar_left" and m > n) or (method == "polar_right" and m < n)):
                                    # still open: W VH of a non-square polar decomposition is a partial isometry only
                                    key = f"tensor_split:isom_flag:{method}:non_square"
                                elif method in ("cholesky", "polar_left", "polar_right"):
                                    key = f"tensor_split:isom_flag:{method}:absorb_ignored"  # fixed 740177ad
                                elif rank is not None:
                                    key = f"tensor_split:isom_flag:{method}:rank_deficient_untruncated"
                                else:
                                    key = f"tensor_split:isom_flag:{method}"
                                ctx.violation(key, f"{side} factor has left_inds set (flagged isometric) but ||M^H M - 1|| = {dfc:.3g}",
                                              {**desc, "side": side, "defect": dfc})
        truncated_oracle(ctx, D, nprng)
        static_rank_oracle(ctx, D, nprng)
        special_inputs(ctx, D, nprng)
    ctx.extra["oracle_splits"] = stats


def truncated_oracle(ctx, D, nprng):
    """bond cap, reported error = actual Frobenius distance, optimal rank-k error (tests)"""
    d, k = 8, 3
    sig = np.array([2.0 ** (-i) for i in range(d)])
    for method in ("svd", "svd:eig", "eigh", "svd:rand", "svds", "isvd", "rsvd", "eigsh", "lu"):
        for dt in DTYPES:
            cplx = "complex" in dt
            single = dt in ("float32", "complex64")

            def unitary(n):
                A = nprng.normal(size=(n, n)) + (1j * nprng.normal(size=(n, n)) if cplx else 0)
                return np.linalg.qr(A)[0]

            if method in ("eigh", "eigsh"):
                Q = unitary(d)
                signs = np.array([1, -1, 1, 1, -1, 1, -1, 1.0])
                x = (Q * (sig * signs)) @ Q.conj().T
                x = (x + x.conj().T) / 2
            else:
                x = (unitary(d) * sig) @ unitary(d).conj().T
            x = x.astype(dt)
            nrm = float(np.linalg.norm(x))
            optimal = float(np.sqrt(np.sum(sig[k:] ** 2)))
            for a in (None, "both", "left"):
                desc = {"method": method, "dtype": dt, "absorb": a, "max_bond": k, "spectrum": "2^-i, i<8"}
                ctx.count(("OT", method, dt, str(a)), True)
                ctx.bump("oracle_truncated")
                info = {}
                kw = dict(method=method, absorb=a, max_bond=k)
                if method in ("svd", "svd:eig"):
                    kw["info"] = info
                if method == "lu":
                    kw = dict(method=method, absorb="both", cutoff=0.1, cutoff_mode="abs")
                    if a != "both":
                        continue
                D.parse_split_opts.cache_clear()
                try:
                    L, sv, R = D.array_split(x, **kw)
                except Exception as e:
                    name = type(e).__name__
                    if name not in CLEAN_REJECTIONS:
                        ctx.violation(crash_key(method, dt, e), f"truncated split raised {name}: {str(e)[:150]}", desc)
                    elif not ("dtype" in str(e).lower()):
                        ctx.violation(f"array_split:{method}:rejects_valid_input", f"truncated split raised {name}: {str(e)[:150]}", desc)
                    continue
                L, R = np.asarray(L), np.asarray(R)
                bond = L.shape[1]
                if method != "lu" and bond > k:
                    ctx.violation(f"array_split:{method}:max_bond_exceeded", f"bond {bond} > max_bond {k}", desc)
                rec = (L * np.asarray(sv)[None, :]) @ R if sv is not None else L @ R
                actual = float(np.linalg.norm(rec - x))
                tol = (3e-3 if single else 1e-7) * nrm
                if method == "lu":
                    continue  # not rank optimal by documentation; only the call itself is exercised
                if "error" in info and info["error"] is not None and abs(float(info["error"]) - actual) > tol:
                    ctx.violation(f"array_split:{method}:reported_error", f"info['error'] = {float(info['error']):.6g} but ||x - L s R|| = {actual:.6g}",
                                  {**desc, "reported": float(info["error"]), "actual": actual})
                randomised = method in ("isvd", "rsvd", "svd:rand")
                slack = 2.0 * optimal if randomised else (3e-2 if (method in ITERATIVE or single) else 1e-6) * nrm
                if actual > optimal + slack:
                    key = f"array_split:{method}:max_bond:keeps_smallest" if method == "eigsh" else f"array_split:{method}:not_optimal"
                    ctx.violation(key, f"rank-{bond} result has error {actual:.4g}, the best rank-{k} approximation has {optimal:.4g}",
                                  {**desc, "actual_error": actual, "optimal_error": optimal})
    # cutoff-driven truncation at tolerance: count is minimal and the reported error is the actual distance
    x = (np.linalg.qr(nprng.normal(size=(6, 6)))[0] * np.array([3.0, 1.7, 0.9, 0.31, 0.11, 0.013])) @ np.linalg.qr(nprng.normal(size=(6, 6)))[0]
    sref = [Fr(v) for v in np.linalg.svd(x, compute_uv=False)]
    for method in ("svd", "svd:eig"):
        for mode, name in MODES.items():
            for cutoff in (0.2, 0.05, 1e-3):
                info = {}
                D.parse_split_opts.cache_clear()
                L, sv, R = D.array_split(x, method=method, absorb=None, cutoff=cutoff, cutoff_mode=name, info=info)
                n, _, err2 = spec_trim(sref, mode, Fr(cutoff), None, 0)
                ctx.count(("OC", method, name, cutoff), True)
                desc = {"method": method, "cutoff_mode": name, "cutoff": cutoff, "spectrum": [3.0, 1.7, 0.9, 0.31, 0.11, 0.013]}
                if len(sv) != n:
                    ctx.violation(f"array_split:{method}:count", f"kept {len(sv)} values, the rule demands {n}", desc)
                actual = float(np.linalg.norm((np.asarray(L) * np.asarray(sv)) @ np.asarray(R) - x))
                if abs(float(info["error"]) - actual) > 1e-7:
                    ctx.violation(f"array_split:{method}:reported_error", f"info['error'] = {float(info['error'])} vs actual {actual}", desc)


def static_rank_oracle(ctx, D, nprng):
    """max_bond-only truncation (cutoff exactly 0 / None, no info, no renorm: the one-step drivers) must be the
    best rank-k approximation, for tall / wide / square inputs, every dtype and two-sided form (tests, tolerance)"""
    import quimb.tensor as qtn

    for method in ("svd", "svd:eig", "svd:rand"):
        for dt in DTYPES:
            cplx = "complex" in dt
            single = dt in ("float32", "complex64")
            for m, n in ((5, 9), (9, 5), (6, 6)):
                d = min(m, n)
                sig = np.array([2.0 ** (-i) for i in range(d)])

                def iso(r, c):
                    A = nprng.normal(size=(r, c)) + (1j * nprng.normal(size=(r, c)) if cplx else 0)
                    return np.linalg.qr(A)[0]

                x = ((iso(m, d) * sig) @ iso(n, d).conj().T).astype(dt)
                nrm = float(np.linalg.norm(x))
                for k in (1, 3):
                    optimal = float(np.sqrt(np.sum(sig[k:] ** 2)))
                    for a in (None, "both", "left", "right"):
                        cutoff = (0.0, None)[(k + m) % 2]
                        desc = {"method": method, "dtype": dt, "shape": [m, n], "absorb": a, "max_bond": k, "cutoff": cutoff,
                                "spectrum": "2^-i", "info": "not passed", "via": "array_split"}
                        ctx.count(("OS", method, dt, m, n, k, str(a)), True)
                        ctx.bump("oracle_static_rank")
                        D.parse_split_opts.cache_clear()
                        try:
                            if a == "both" and m <= n:
                                # through Tensor.split: left dims (m,), right dims factorised
                                T = qtn.Tensor(x.reshape((m, 3, n // 3)), inds=("a", "b", "c"))
                                tl, tr = T.split(["a"], method=method, absorb=a, max_bond=k, cutoff=cutoff, get="tensors")
                                L, sv, R = np.asarray(tl.data), None, np.asarray(tr.data).reshape(-1, n)
                                desc["via"] = "Tensor.split"
                            else:
                                L, sv, R = D.array_split(x, method=method, absorb=a, max_bond=k, cutoff=cutoff)
                        except Exception as e:
                            ctx.violation(crash_key(method, dt, e) if type(e).__name__ not in CLEAN_REJECTIONS else f"array_split:{method}:rejects_valid_input",
                                          f"static truncation raised {type(e).__name__}: {str(e)[:150]}", desc)
                            continue
                        L, R = np.asarray(L), np.asarray(R)
                        if L.shape[1] > k:
                            ctx.violation(f"array_split:{method}:max_bond_exceeded", f"bond {L.shape[1]} > max_bond {k}", desc)
                        rec = (L * np.asarray(sv)[None, :]) @ R if sv is not None else L @ R
                        actual = float(np.linalg.norm(rec - x))
                        slack = 2.0 * optimal + 1e-3 * nrm if method == "svd:rand" else (2e-2 if single else 1e-6) * nrm
                        if actual > optimal + slack:
                            ctx.violation(f"array_split:{method}:static_max_bond:not_best_rank_k",
                                          f"rank-{L.shape[1]} result has error {actual:.4g}, the best rank-{k} approximation has {optimal:.4g}",
                                          {**desc, "actual_error": actual, "optimal_error": optimal})


def special_inputs(ctx, D, nprng):
    """inputs the documentation allows that have their own history: 'no truncation'
    spelled cutoff=0.0 for the iterative drivers, the zero matrix, batched input"""
    x = nprng.normal(size=(6, 6))
    for method in ("svds", "isvd"):
        D.parse_split_opts.cache_clear()
        ctx.count(("S", method, "cutoff0"), True)
        try:
            L, sv, R = D.array_split(x, method=method, absorb=None, cutoff=0.0)
        except Exception as e:
            if type(e).__name__ not in CLEAN_REJECTIONS:
                ctx.violation(crash_key(method, "float64", e), f"raised {type(e).__name__}", {"method": method, "cutoff": 0.0})
            continue
        err = float(np.linalg.norm((np.asarray(L) * np.asarray(sv)) @ np.asarray(R) - x) / np.linalg.norm(x))
        if err > 1e-6:
            ctx.violation(f"array_split:{method}:cutoff0_no_max_bond:silent_truncation",
                          f"cutoff=0.0, max_bond=None (no truncation requested) silently returns rank {len(sv)} of 6, relative error {err:.3g}",
                          {"method": method, "cutoff": 0.0, "max_bond": None, "shape": [6, 6], "rank_returned": int(len(sv)), "rel_error": err})
    for shape in ((2, 2), (3, 2), (1, 1)):
        ctx.count(("S", "zero", shape), True)
        D.parse_split_opts.cache_clear()
        z = np.zeros(shape)
        for method in ("svd", "svd:eig", "qr"):
            try:
                L, sv, R = D.array_split(z, method=method, cutoff=0.0)
                if not (np.all(np.isfinite(np.asarray(L))) and np.all(np.isfinite(np.asarray(R))) and np.allclose(np.asarray(L) @ np.asarray(R), z)):
                    ctx.violation(f"array_split:{method}:zero_matrix:value", "factors of the zero matrix are not finite / do not multiply to zero",
                                  {"method": method, "shape": list(shape)})
            except Exception as e:
                key = f"array_split:{method}:zero_matrix:{type(e).__name__}"
                ctx.violation(key, f"splitting the zero matrix raised {type(e).__name__}: {e}", {"method": method, "shape": list(shape), "cutoff": 0.0})
    # batched input goes through the generic routine: bond = max over the batch
    rng = ctx.rng
    for _ in range(ctx.n(20, 200)):
        d = rng.randint(2, 4)
        specs = [sorted([Fr(rng.randint(0, 16), 2) for _ in range(d)], reverse=True) for _ in range(rng.randint(2, 3))]
        if any(s[0] == 0 for s in specs):
            continue
        xb = np.stack([exact_matrix(rng, s, "square") for s in specs])
        mode = rng.choice(list(MODES))
        cutoff = rng.choice(sorted(t for t in tie_points(specs[0], mode) if is_dyadic(t)) + [Fr(1, 8)])
        ctx.count(("B", tuple(map(tuple, specs)), mode, str(cutoff)), True)
        ctx.bump("batched")
        desc = {"spectra": [[str(v) for v in s] for s in specs], "cutoff_mode": MODES[mode], "cutoff": str(cutoff)}
        D.parse_split_opts.cache_clear()
        try:
            L, sv, R = D.array_split(xb, method="svd", absorb=None, cutoff=float(cutoff), cutoff_mode=MODES[mode])
        except Exception as e:
            ctx.violation("array_split:svd:batched:raised", f"batched split raised {type(e).__name__}: {e}", desc)
            continue
        want = max(spec_trim(s, mode, cutoff, None, 0)[0] for s in specs)
        if np.asarray(sv).shape[-1] != want:
            ctx.violation("array_split:svd:batched:count", f"batched bond {np.asarray(sv).shape[-1]}, expected max over the batch = {want}", desc)
        rn = 2 if mode in (3, 4) else 1
        want = max(spec_trim(s, mode, cutoff, None, rn)[0] for s in specs)  # renorm > 0 selects the dynamic branch
        try:
            D.array_split(xb, method="svd", absorb=None, cutoff=float(cutoff), cutoff_mode=MODES[mode], renorm=rn)
        except Exception as e:
            if want < d and mode > 2:
                ctx.violation("trim:generic:batched_renorm_raises", f"batched split with renorm raised {type(e).__name__}: {str(e)[:120]}", desc)
            elif mode <= 2 and want < d and isinstance(e, UnboundLocalError):
                ctx.violation("trim:generic:absrel_renorm_raises", f"batched split with renorm raised {type(e).__name__}: {e}", desc)
            else:
                ctx.violation("array_split:svd:batched:raised", f"batched split with renorm raised {type(e).__name__}: {e}", desc)


# ----------------------------------------------------------------------------


def run(ctx):
    ctx.extra["rule"] = RULE
    ctx.trusted_base += [
        "hand-written model coq/C05/Model.v of _trim_and_renorm_svd_result, _compute_number_svals_to_keep_numba, "
        "_compute_svals_renorm_factor_numba, _trim_and_renorm_svd_result_numba, its batched form (coq/C05/Batch.v: a batch is the "
        "list of member spectra in C order), _do_absorb(_numba), parse_method_absorb, "
        "parse_split_left_right_isom, the typed lru_cache on parse_split_opts (renorm argument); tie = correspondence evaluated in Coq on values "
        "observed in the implementation (exact rationals; tolerance 2^-40 only where the implementation takes a root)",
        "driver contract table `driver_returns` (which factor each driver returns for each absorb code): validated on the "
        "implementation for float64 4x4 inputs, and 5x3 / 3x5 for the shape-dependent polar drivers (returned / not returned / "
        "numerically isometric), not proved about LAPACK",
        "harness/c05.py generators, the Fraction reference of the documented rule, numpy as reference for reconstruction",
    ]
    ctx.assumptions += [
        "floats are modelled by exact rationals; the exact stream uses short dyadic inputs for which every float operation is "
        "exact (except the final root in renorm / error, compared at 2^-40); NaN handling of the kernels is not modelled",
        "max_bond is None or >= 1 and the matrix is non-empty (documented domain); ties are stated with the code's <= "
        "(a discarded weight equal to the cutoff is discarded) although the docstrings say <",
        "Eckart-Young optimality, accuracy of LAPACK / iterative / randomised drivers (batched LAPACK included; only the "
        "truncation bookkeeping of batched input is modelled): oracle stream at tolerance (tests), not theorems",
    ]
    ctx.check_props(["C05/Model.vo", "C05/Proofs.vo", "C05/Trim.vo", "C05/Tables.vo", "C05/Optimal.vo", "C05/Eig.vo", "C05/Batch.vo", "C05/Historic.vo", "C05/Props.v"])
    import time

    import os

    only = [s for s in os.environ.get("VERIF_C05_STAGES", "").split(",") if s]  # development aid (mutation runs)
    for st in (trunc_stream, tables_stream, cache_stream, oracle_stream, batched_stream):  # batched last: the earlier stages keep their random draws
        if only and st.__name__.split("_")[0] not in only:
            continue
        t0, c0 = time.time(), time.process_time()
        ctx.stage(st)
        ctx.extra.setdefault("stage_wall_s", {})[st.__name__] = round(time.time() - t0, 1)
        ctx.extra.setdefault("stage_python_cpu_s", {})[st.__name__] = round(time.process_time() - c0, 1)
    ctx.extra.pop("_baseline", None)


def replay(ctx, path):
    run(ctx)

"""C16 - threaded and parallel kernels give the serial answer for every schedule.

(T)  threading_choose_num_blocks / threading_get_block_range are re-translated
     from /repo/quimb/core.py into coq/Gen/C16_gen.v on every run and the
     partition theorems (coq/C16/Props.v) are re-checked against that text.
(H)  the implementation (numba-jitted functions, called directly) and the
     generated model are compared on an exhaustive grid inside Coq (vm_compute).
(scan) every kernel that uses the partition must have the loop shape the
     striding theorem is about.
(O)  direct oracle on the implementation: coverage-exactly-once on the grid and
     every threaded kernel vs its serial/numpy reference on integer data.
"""

import ast
import itertools
import os
import sys

import numpy as np

from harness.common import REPO, zlit, zlist
from tools import py2coq

RULE = (
    "exhaustive grid size_total x target_block_size x num_threads for the partition "
    "functions (impl vs generated Coq model, and coverage-exactly-once on the impl); "
    "threaded kernels vs serial references on integer data. A case is non-trivial when "
    "num_threads>1 and size_total>0; distinct = distinct (function, arguments) tuples."
)


def translate(ctx):
    try:
        text, notes = py2coq.translate_functions(
            os.path.join(REPO, "quimb/core.py"),
            [
                {"name": "threading_choose_num_blocks"},
                {"name": "threading_get_block_range"},
            ],
            relsrc="quimb/core.py",
        )
    except py2coq.Refuse as e:
        ctx.broken_obligation("translator:C16_gen", f"refused: {e}")
        return False
    except Exception as e:  # syntax errors etc.
        ctx.broken_obligation("translator:C16_gen", repr(e))
        return False
    ctx.regen("Gen/C16_gen.v", text)
    return True


def kernel_shape_scan(ctx):
    """Every function calling threading_choose_num_blocks must iterate
    `for b in range(thread_rank, num_blocks, num_threads)` and take its element
    range from threading_get_block_range(b, base_block_size, block_remainder)."""
    src = open(os.path.join(REPO, "quimb/core.py")).read()
    tree = ast.parse(src)
    users, bad = [], []
    for fn in ast.walk(tree):
        if not isinstance(fn, ast.FunctionDef):
            continue
        calls = [
            n for n in ast.walk(fn)
            if isinstance(n, ast.Call) and isinstance(n.func, ast.Name)
            and n.func.id == "threading_choose_num_blocks"
        ]
        if not calls:
            continue
        users.append(fn.name)
        ok = False
        for loop in ast.walk(fn):
            if not isinstance(loop, ast.For):
                continue
            it = loop.iter
            if (
                isinstance(it, ast.Call) and isinstance(it.func, ast.Name) and it.func.id == "range"
                and [ast.unparse(a) for a in it.args] == ["thread_rank", "num_blocks", "num_threads"]
            ):
                inner = [
                    n for n in ast.walk(loop)
                    if isinstance(n, ast.Call) and isinstance(n.func, ast.Name)
                    and n.func.id == "threading_get_block_range"
                    and [ast.unparse(a) for a in n.args]
                    == [loop.target.id, "base_block_size", "block_remainder"]
                ]
                rng = [
                    n for n in ast.walk(loop)
                    if isinstance(n, ast.For) and n is not loop
                    and isinstance(n.iter, ast.Call) and isinstance(n.iter.func, ast.Name)
                    and n.iter.func.id == "range"
                    and [ast.unparse(a) for a in n.iter.args] == ["istart", "istop"]
                ]
                if inner and rng:
                    ok = True
        if not ok:
            bad.append(fn.name)
    ctx.extra["kernels_using_partition"] = users
    if bad:
        ctx.broken_obligation("kernel_shape_scan", f"loop shape not recognised in {bad}")
    if len(users) < 8:
        ctx.broken_obligation("kernel_shape_scan", f"only {len(users)} kernels found")


def impl_choose(f, s, t, T):
    try:
        r = f(s, t, T)
    except ZeroDivisionError:
        return None
    out = []
    for x in r:
        x = float(x)
        if x != x or x in (float("inf"), float("-inf")):
            return None
        if x != int(x):
            return "nonint"
        out.append(int(x))
    return tuple(out)


def grid(ctx):
    if ctx.quick:
        sizes = list(range(0, 41)) + [63, 64, 65, 100, 127, 255]
        tbs = [1, 2, 3, 5, 8, 16, 33, 128]
        Ts = [1, 2, 3, 4, 5, 7, 8, 9, 16, 17]
    else:
        sizes = list(range(0, 301))
        tbs = list(range(1, 49))
        Ts = list(range(1, 18))
    tbs = tbs + [-t for t in tbs]
    return sizes, tbs, Ts


def correspondence(ctx):
    from quimb.core import threading_choose_num_blocks as choose
    from quimb.core import threading_get_block_range as brange

    sizes, tbs, Ts = grid(ctx)
    cases, info = [], {}
    cid = 0
    ranges_seen = set()
    for s, t, T in itertools.product(sizes, tbs, Ts):
        r = impl_choose(choose, s, t, T)
        rp = impl_choose(choose.py_func, s, t, T)
        ctx.count(("choose", s, t, T), nontrivial=(T > 1 and s > 0))
        ctx.bump("T>size" if T > s else "T<=size")
        ctx.bump("neg_target" if t < 0 else "pos_target")
        if r != rp:
            ctx.violation(
                "choose:jit_vs_python",
                "numba-compiled and pure-python threading_choose_num_blocks differ",
                {"call": "threading_choose_num_blocks", "args": [s, t, T], "jit": r, "py": rp},
            )
        if r == "nonint":
            exp = "None"  # never equal: model returns integers
            r = None
        exp = "None" if r is None else f"Some ({zlit(r[0])}, {zlit(r[1])}, {zlit(r[2])})"
        cid += 1
        info[cid] = ("threading_choose_num_blocks", [s, t, T], r)
        cases.append((cid, f"opt3_eqb (threading_choose_num_blocks {zlit(s)} {zlit(t)} {zlit(T)}) ({exp})"))
        if r is not None and r[0] >= 1:
            nb, base, rem = r
            if (nb, base, rem) not in ranges_seen and nb <= 64:
                ranges_seen.add((nb, base, rem))
                for b in range(nb):
                    st, sp = (int(x) for x in brange(b, base, rem))
                    cid += 1
                    info[cid] = ("threading_get_block_range", [b, base, rem], (st, sp))
                    cases.append(
                        (cid, f"opt2_eqb (threading_get_block_range {zlit(b)} {zlit(base)} {zlit(rem)}) "
                              f"(Some ({zlit(st)}, {zlit(sp)}))")
                    )
                    ctx.count(("range", b, base, rem), nontrivial=(rem > 0))
    header = (
        "From Coq Require Import ZArith List Bool.\nFrom QV Require Import Base.PyZ Gen.C16_gen.\n"
        "Import ListNotations.\nOpen Scope Z_scope.\n"
        "Definition opt3_eqb (a b : option (Z*Z*Z)) : bool := match a, b with\n"
        " | Some (x,y,z), Some (u,v,w) => (x =? u) && (y =? v) && (z =? w) | None, None => true | _, _ => false end.\n"
        "Definition opt2_eqb (a b : option (Z*Z)) : bool := match a, b with\n"
        " | Some (x,y), Some (u,v) => (x =? u) && (y =? v) | None, None => true | _, _ => false end.\n"
    )
    failed, errors = ctx.coq_cases("grid", header, cases, shard=1500)
    for path, err in errors:
        ctx.broken_obligation("correspondence:" + os.path.basename(path), err)
    for cid in failed[:5]:
        fn, args, r = info[cid]
        ctx.broken_obligation(
            "correspondence:translator_vs_impl",
            {"fn": fn, "args": args, "impl": r, "note": "generated model disagrees with implementation"},
        )
    ctx.sample({"fn": "threading_choose_num_blocks", "args": [10, -3, 4], "impl": impl_choose(choose, 10, -3, 4)})
    ctx.sample({"fn": "threading_choose_num_blocks", "args": [2, 1, 8], "impl": impl_choose(choose, 2, 1, 8)})


def coverage_oracle(ctx):
    """The property itself on the implementation: every element in exactly one
    block of exactly one thread, for every grid point."""
    from quimb.core import threading_choose_num_blocks as choose
    from quimb.core import threading_get_block_range as brange

    sizes, tbs, Ts = grid(ctx)
    for s, t, T in itertools.product(sizes, tbs, Ts):
        ctx.count(("cover", s, t, T), nontrivial=(T > 1 and s > 0))
        r = impl_choose(choose, s, t, T)
        if r is None or r == "nonint" or r[0] < 1:
            if s == 0:
                continue
            ctx.violation(
                "partition:no_blocks",
                f"threading_choose_num_blocks({s},{t},{T}) gives no usable partition ({r})",
                {"call": "threading_choose_num_blocks", "args": [s, t, T], "result": r},
            )
            continue
        nb, base, rem = r
        cover = np.zeros(s, dtype=int)
        okb = True
        for rank in range(T):
            for b in range(rank, nb, T):
                st, sp = (int(x) for x in brange(b, base, rem))
                if st < 0 or sp > s or st > sp:
                    okb = False
                else:
                    cover[st:sp] += 1
        if not okb or not np.all(cover == 1):
            ctx.violation(
                "partition:coverage",
                f"partition for size={s}, target={t}, threads={T} does not cover every element exactly once",
                {"call": "partition", "args": [s, t, T], "chooser": r, "cover": cover.tolist()[:64]},
            )


class _WaitShim:
    """Stand-in for quimb.core.cf: surfaces worker exceptions that cf.wait
    swallows, so that a crashed worker is seen as a failure, not as luck."""

    def __init__(self, real):
        self._real = real
        self.errors = []

    def __getattr__(self, k):
        return getattr(self._real, k)

    def wait(self, fs, *a, **kw):
        fs = list(fs)
        r = self._real.wait(fs, *a, **kw)
        for f in fs:
            e = f.exception()
            if e is not None:
                self.errors.append(repr(e))
        return r


def kernel_oracle(ctx):
    import quimb as qu
    import quimb.core as qc
    import scipy.sparse as sp

    shim = _WaitShim(qc.cf)
    qc.cf = shim
    rng = np.random.default_rng(ctx.seed + 16)
    sizes = [1, 2, 3, 5, 8, 17, 33] if ctx.quick else [1, 2, 3, 4, 5, 7, 8, 9, 16, 17, 31, 33, 64, 130]
    Ts = [1, 2, 3, 8, 16] if ctx.quick else [1, 2, 3, 4, 5, 8, 11, 16]
    tbss = [1, -1, 2, -3, 7] if ctx.quick else [1, -1, 2, -2, 3, -3, 7, -7, 16, -16, 128]
    reps = 1 if ctx.quick else 5

    def ints(*shape):
        return rng.integers(-4, 5, size=shape).astype(float)

    def report(name, args, got, want, extra=None):
        ok = got is not None and np.shape(got) == np.shape(want) and np.array_equal(np.asarray(got), np.asarray(want))
        if shim.errors:
            ok = False
        if not ok:
            ctx.violation(
                f"kernel:{name}",
                f"{name} with {args} differs from its serial reference"
                + (f" (worker exceptions: {shim.errors[:2]})" if shim.errors else ""),
                {"call": name, "args": args, "extra": extra,
                 "got": None if got is None else np.asarray(got).tolist()[:32],
                 "want": np.asarray(want).tolist()[:32]},
            )
        shim.errors.clear()

    for n, T, tbs, _ in itertools.product(sizes, Ts, tbss, range(reps)):
        key = {"n": n, "num_threads": T, "target_block_size": tbs}
        nt = T > 1
        x, y = ints(n), ints(n)
        ctx.count(("complex_array", n, T, tbs), nt)
        report("complex_array", key, qc.complex_array(x, y, num_threads=T, target_block_size=tbs), x + 1j * y)
        # phases that are multiples of pi/2 are not exact in float: compare to the serial run
        ph = ints(n)
        ctx.count(("phase_to_complex", n, T, tbs), nt)
        report("phase_to_complex", key, qc.phase_to_complex(ph, num_threads=T, target_block_size=tbs),
               qc.phase_to_complex(ph, num_threads=1, target_block_size=2**30))
        X, Y, c = ints(n), ints(n), 3.0
        X0 = X.copy()
        qc.subtract_update_(X, c, Y, num_threads=T, target_block_size=tbs)
        ctx.count(("subtract_update_1d", n, T, tbs), nt)
        report("subtract_update_1d", key, X, X0 - c * Y)
        X, Y = ints(n, 3), ints(n, 3)
        X0 = X.copy()
        qc.subtract_update_(X, c, Y, num_threads=T, target_block_size=tbs)
        ctx.count(("subtract_update_2d", n, T, tbs), nt)
        report("subtract_update_2d", key, X, X0 - c * Y)
        A = sp.random(n, n, density=0.5, random_state=int(rng.integers(1 << 30)), format="csr")
        A.data = np.round(A.data * 8) - 3.0
        v = ints(n)
        ctx.count(("par_dot_csr_matvec", n, T, tbs), nt)
        report("par_dot_csr_matvec", key,
               qc.par_dot_csr_matvec(A, v, target_block_size=tbs, num_threads=T), A.toarray() @ v)
        d, M = ints(n), ints(n, 4)
        ctx.count(("l_diag_dot_dense", n, T, tbs), nt)
        report("l_diag_dot_dense", key, qc.l_diag_dot_dense(d, M, num_threads=T, target_block_size=tbs), d[:, None] * M)
        M2 = ints(n, n)
        ctx.count(("r_diag_dot_dense", n, T, tbs), nt)
        report("r_diag_dot_dense", key, qc.r_diag_dot_dense(M2, d, num_threads=T, target_block_size=tbs), M2 * d[None, :])
        a, b = ints(n), ints(3)
        ctx.count(("outer", n, T, tbs), nt)
        report("outer", key, qc.outer(a, b, num_threads=T, target_block_size=tbs), np.outer(a, b))
        if n <= 17:
            Ka, Kb = ints(n, 2), ints(2, 3)
            ctx.count(("kron_dense", n, T, tbs), nt)
            report("kron_dense", key, qc.kron_dense(Ka, Kb, num_threads=T, target_block_size=tbs), np.kron(Ka, Kb))
    # par_reduce with an associative, non-commutative fn
    for n, T in itertools.product([1, 2, 3, 4, 5, 7, 8, 9], [1, 2, 3, 8]):
        mats = [rng.integers(-2, 3, size=(2, 2)).astype(float) for _ in range(n)]
        want = mats[0]
        for m in mats[1:]:
            want = want @ m
        ctx.count(("par_reduce", n, T), T > 1 and n > 2)
        report("par_reduce", {"n": n, "num_threads": T}, qc.par_reduce(np.matmul, mats, num_threads=T), want)
    # kron(..., parallel=True) == serial
    for n in [2, 3, 4, 5]:
        ops = [rng.integers(-2, 3, size=(2, 2)).astype(float) for _ in range(n)]
        want = ops[0]
        for m in ops[1:]:
            want = np.kron(want, m)
        ctx.count(("kron_parallel", n), True)
        report("kron_parallel", {"n_ops": n}, np.asarray(qu.kron(*ops, parallel=True)), want)
    qc.cf = shim._real
    ctx.sample({"kernel": "complex_array", "n": 2, "num_threads": 8, "target_block_size": 1})


def builder_oracle(ctx):
    """parallel construction / application of operators built from terms."""
    import quimb.operator as qop

    rng = np.random.default_rng(ctx.seed + 1616)
    Ls = [3, 4] if ctx.quick else [2, 3, 4, 5, 6]
    for L, sym in itertools.product(Ls, [None, "Z2", "U1"]):
        H = qop.SparseOperatorBuilder()
        for i in range(L - 1):
            H += 1.0, ("+", i), ("-", i + 1)
            H += 1.0, ("-", i), ("+", i + 1)
            H += float(rng.integers(1, 4)), ("z", i), ("z", i + 1)
        kw = {}
        if sym == "Z2":
            kw = dict(symmetry="Z2", sector=0)
        elif sym == "U1":
            kw = dict(symmetry="U1", sector=L // 2)
        try:
            A = H.build_sparse_matrix(**kw).toarray()
        except Exception as e:
            ctx.bump("builder_rejected")
            continue
        D = A.shape[0]
        x = rng.integers(-3, 4, size=D).astype(float)
        for par in [2, 3, 5] if ctx.quick else [2, 3, 4, 5, 8, 16]:
            ctx.count(("builder", L, sym, par), True)
            Ap = H.build_sparse_matrix(parallel=par, **kw).toarray()
            if not np.array_equal(A, Ap):
                ctx.violation(
                    "builder:build_sparse_matrix_parallel",
                    f"parallel={par} sparse build differs from serial (L={L}, symmetry={sym})",
                    {"call": "SparseOperatorBuilder.build_sparse_matrix", "L": L, "symmetry": sym, "parallel": par},
                )
            ys = H.matvec(x, **kw)
            yp = H.matvec(x, parallel=par, **kw)
            if not (np.array_equal(np.asarray(ys), A @ x) and np.array_equal(np.asarray(yp), A @ x)):
                ctx.violation(
                    "builder:matvec_parallel",
                    f"matvec parallel={par} / serial differ from the matrix product (L={L}, symmetry={sym})",
                    {"call": "SparseOperatorBuilder.matvec", "L": L, "symmetry": sym, "parallel": par,
                     "serial": np.asarray(ys).tolist(), "parallel_result": np.asarray(yp).tolist(),
                     "want": (A @ x).tolist()},
                )
            # caller supplied `out`: same documented meaning ("array to store the result in")
            o1 = np.full(D, 7.0)
            o2 = np.full(D, 7.0)
            r1 = H.matvec(x, out=o1, **kw)
            r2 = H.matvec(x, out=o2, parallel=par, **kw)
            if not np.array_equal(np.asarray(r1), np.asarray(r2)):
                ctx.violation(
                    "builder:matvec_out_serial_vs_parallel",
                    "matvec(x, out=preset) gives different results serially and in parallel",
                    {"call": "SparseOperatorBuilder.matvec", "L": L, "symmetry": sym, "parallel": par,
                     "out_preset": 7.0, "serial": np.asarray(r1).tolist(), "parallel_result": np.asarray(r2).tolist()},
                )


def world_correspondence(ctx):
    """Worker level (coq/C16/World.v): each numba kernel is called directly with world_rank=r, world_size=W and
    the rows it actually visited (read off its COO output) are compared, inside Coq, with the model's
    `stride r D W`; the parallel build's row sequence with `all_strides D W`; the private-buffer sum of
    matvec_numba workers with the serial kernel (exact integer data)."""
    import quimb.operator as qop
    from quimb.operator import configcore
    from harness.common import natlist

    rng = np.random.default_rng(ctx.seed + 161616)
    header = ("From Coq Require Import ZArith Arith List Bool.\nFrom QV Require Import C16.World.\nImport ListNotations.\n"
              "Fixpoint nl_eqb (a b : list nat) : bool := match a, b with [] , [] => true | x :: a', y :: b' => "
              "Nat.eqb x y && nl_eqb a' b' | _, _ => false end.\n"
              "Definition mem (x : nat) (l : list nat) : bool := existsb (Nat.eqb x) l.\n")
    cases, info = [], {}

    def add(expr, d):
        cid = len(cases)
        cases.append((cid, expr))
        info[cid] = d

    def uniq_in_order(a):
        out = []
        for v in a.tolist():
            if not out or out[-1] != v:
                out.append(int(v))
        return out

    Ls = [3, 4] if ctx.quick else [2, 3, 4, 5, 6]
    Ws = [1, 2, 3, 5, 7] if ctx.quick else [1, 2, 3, 4, 5, 7, 8, 11, 16, 19]
    for L, sym in itertools.product(Ls, [None, "Z2", "U1"]):
        H = qop.SparseOperatorBuilder()
        for i in range(L - 1):
            H += 1.0, ("+", i), ("-", i + 1)
            H += 1.0, ("-", i), ("+", i + 1)
            H += float(rng.integers(1, 4)), ("z", i), ("z", i + 1)
        for i in range(L):
            H += float(rng.integers(1, 3)) + 0.5, ("z", i)
        kw = {}
        if sym == "Z2":
            kw = dict(symmetry="Z2", sector=int(rng.integers(0, 2)))
        elif sym == "U1":
            kw = dict(symmetry="U1", sector=L // 2)
        try:
            dtype = H.get_dtype(None)
            D = H.hilbert_space.get_size(kw.get("sector"), kw.get("symmetry"))
            sector_nb, symmetry_nb = H.hilbert_space.get_sector_numba(sector=kw.get("sector"), symmetry=kw.get("symmetry"))
            cm = H.get_coupling_map(dtype=dtype, blocked=symmetry_nb == 3)
            base = dict(coupling_map=cm, sector=sector_nb, symmetry=symmetry_nb, dtype=dtype)
            d0, r0, c0 = configcore.build_coo_numba_core(**base)
        except Exception as e:
            ctx.bump("world_rejected:" + type(e).__name__)
            continue
        present = sorted(set(int(v) for v in c0))  # the kernels store the visited configuration ci in `cols`
        x = rng.integers(-3, 4, size=D).astype(float)
        y_serial = np.zeros(D)
        configcore.matvec_numba(x, y_serial, coupling_map=cm, sector=sector_nb, symmetry=symmetry_nb)
        for W in Ws:
            parts = []
            bufs = np.zeros((W, D))
            for r in range(W):
                dr, rr, cr = configcore.build_coo_numba_core(world_rank=r, world_size=W, **base)
                parts.append((dr, rr, cr))
                seen = uniq_in_order(cr)
                desc = {"call": "build_coo_numba_core", "L": L, "symmetry": sym, "D": int(D), "world_size": W, "world_rank": r,
                        "rows_visited": seen[:40]}
                add(f"nl_eqb (filter (fun ci => mem ci {natlist(present)}) (stride {r}%nat {int(D)}%nat {W}%nat)) {natlist(seen)}", desc)
                ctx.count(("world_stride", L, sym, W, r), W > 1)
                configcore.matvec_numba(x, bufs[r], coupling_map=cm, sector=sector_nb, symmetry=symmetry_nb,
                                        world_rank=r, world_size=W)
            ctx.bump("world:workers", W)
            # the serial triplets are exactly the multiset union of the workers' triplets
            trip = lambda d, r, c: sorted(zip(r.tolist(), c.tolist(), d.tolist()))
            allp = sorted(t for p in parts for t in trip(*p))
            if allp != trip(d0, r0, c0):
                ctx.violation("world:coo_workers_vs_serial",
                              f"the COO triplets of the {W} workers are not a permutation of the serial build (L={L}, symmetry={sym})",
                              {"call": "build_coo_numba_core", "L": L, "symmetry": sym, "world_size": W})
            if not np.array_equal(bufs.sum(0), y_serial):
                ctx.violation("world:matvec_workers_vs_serial",
                              f"the sum of the {W} workers' private matvec buffers differs from the serial kernel (L={L}, symmetry={sym})",
                              {"call": "matvec_numba", "L": L, "symmetry": sym, "world_size": W, "x": x.tolist(),
                               "serial": y_serial.tolist(), "workers_sum": bufs.sum(0).tolist()})
            # the public parallel build: rank-order concatenation of the workers (model: coo_parallel / all_strides)
            if W > 1:
                dp, rp, cp, _ = H.build_coo_data(parallel=W, **kw)
                seenp = uniq_in_order(cp)
                # consecutive duplicates across a worker boundary cannot occur: ranks visit disjoint rows
                add(f"nl_eqb (filter (fun ci => mem ci {natlist(present)}) (all_strides {int(D)}%nat {W}%nat)) {natlist(seenp)}",
                    {"call": "build_coo_data", "L": L, "symmetry": sym, "D": int(D), "parallel": W, "rows_visited": seenp[:40]})
                ctx.count(("world_parallel_build", L, sym, W), True)
    failed, errors = ctx.coq_cases("world", header, cases, shard=300)
    for path, err in errors:
        ctx.broken_obligation("correspondence:" + path.split("/")[-1], err)
    seen_keys = set()
    for c in failed:
        d = info[c]
        key = "world:" + d["call"] + ":rows"
        if key in seen_keys:
            continue
        seen_keys.add(key)
        ctx.violation(key, f"{d['call']} visits rows {d['rows_visited']} which is not range(world_rank, D, world_size) of the "
                           "model (coq/C16/World.v): some row is computed by no worker or by two", d)
    ctx.extra["coq_cases_world"] = len(cases)


def thread_rows_correspondence(ctx):
    """coq/C16/Kernel.v: the rows ONE thread of each numba kernel actually writes (the kernel is called directly with
    thread_rank=r, num_threads=T on buffers preset to a sentinel) against the model's `thread_rows`, which is built from the
    partition functions regenerated from the source.  Exact, inside Coq, over a grid of (size, target_block_size, T, r)."""
    import quimb.core as qc
    import scipy.sparse as sp

    header = ("From Coq Require Import ZArith List Bool.\nFrom QV Require Import Base.PyZ Gen.C16_gen C16.Proofs C16.Kernel.\n"
              "Import ListNotations.\nOpen Scope Z_scope.\n"
              "Fixpoint zl_eqb (a b : list Z) : bool := match a, b with [], [] => true | x :: a', y :: b' => Z.eqb x y && zl_eqb a' b' "
              "| _, _ => false end.\n"
              "Definition rows_of (size tbs T r : Z) : list Z := match threading_choose_num_blocks size tbs T with "
              "Some (nb, base, rem) => thread_rows base rem T nb r | None => [] end.\n")
    rng = np.random.default_rng(ctx.seed + 1617)
    cases, info = [], {}
    sizes = [1, 2, 3, 5, 8, 13, 17] if ctx.quick else [1, 2, 3, 4, 5, 7, 8, 9, 13, 16, 17, 31, 33, 40]
    Ts = [1, 2, 3, 5, 8] if ctx.quick else [1, 2, 3, 4, 5, 8, 11, 16]
    tbss = [1, -1, 2, -3, 7] if ctx.quick else [1, -1, 2, -2, 3, -3, 5, 7, -7, 16, -16]
    SENT = -777.0

    def touched(arr):
        a = np.asarray(arr)
        a = a.reshape(a.shape[0], -1)
        return [int(i) for i in np.nonzero((a != SENT).any(axis=1))[0]]

    kernels = {}

    def k_complex(n, kw):
        out = np.full(n, SENT, dtype=complex)
        qc._complex_array_numba(np.arange(1.0, n + 1), np.ones(n), out, **kw)
        return touched(out)

    def k_ldiag(n, kw):
        out = np.full((n, 2), SENT)
        qc._l_diag_dot_dense_par(np.arange(1.0, n + 1), np.ones((n, 2)), out, **kw)
        return touched(out)

    def k_outer(n, kw):
        out = np.full((n, 3), SENT)
        qc._outer_par(np.arange(1.0, n + 1), np.ones(3), out, n, 3, **kw)
        return touched(out)

    def k_subtract(n, kw):
        X = np.full(n, SENT)
        qc._subtract_update_1d_numba(X, 1.0, np.ones(n), **kw)
        return touched(X)

    def k_csr(n, kw):
        A = sp.identity(n, format="csr")
        out = np.full(n, SENT)
        qc._dot_csr_matvec_numba(A.data, A.indptr, A.indices, np.arange(1.0, n + 1), out, **kw)
        return touched(out)

    def k_kron(n, kw):
        out = np.full((n * 2, 2), SENT)
        qc._kron_dense_numba(np.ones((n, 1)), np.ones((2, 2)), out, n, 1, 2, 2, **kw)
        return touched(out)

    kernels = {"_complex_array_numba": (k_complex, 1), "_l_diag_dot_dense_par": (k_ldiag, 1), "_outer_par": (k_outer, 1),
               "_subtract_update_1d_numba": (k_subtract, 1), "_dot_csr_matvec_numba": (k_csr, 1), "_kron_dense_numba": (k_kron, 2)}
    for n, T, tbs in itertools.product(sizes, Ts, tbss):
        names = list(kernels) if not ctx.quick else list(rng.choice(list(kernels), size=2, replace=False))
        for name in names:
            fn, mult = kernels[name]
            for r in range(T):
                kw = dict(thread_rank=r, num_threads=T, target_block_size=tbs)
                try:
                    rows = fn(n, kw)
                except Exception as e:
                    ctx.violation(f"thread_rows:{name}:raised", f"{name}(size={n * mult}, {kw}) raised {type(e).__name__}: {e}",
                                  {"call": name, "size": n * mult, **kw})
                    continue
                cid = len(cases)
                cases.append((cid, f"zl_eqb (rows_of {zlit(n * mult)} {zlit(tbs)} {zlit(T)} {zlit(r)}) {zlist(rows)}"))
                info[cid] = {"call": name, "size": n * mult, **kw, "rows_written": rows[:40]}
                ctx.count(("thread_rows", name, n, T, tbs, r), T > 1)
                ctx.bump("thread_rows:" + name)
    failed, errors = ctx.coq_cases("threadrows", header, cases, shard=400)
    for path, err in errors:
        ctx.broken_obligation("correspondence:" + path.split("/")[-1], err)
    seen = set()
    for c in failed:
        d = info[c]
        key = "thread_rows:" + d["call"]
        if key in seen:
            continue
        seen.add(key)
        ctx.violation(key, f"thread {d['thread_rank']} of {d['num_threads']} of {d['call']} (size={d['size']}, target_block_size="
                           f"{d['target_block_size']}) writes rows {d['rows_written']}, not the rows of the proved schedule (coq/C16/Kernel.v)", d)
    ctx.extra["coq_cases_thread_rows"] = len(cases)


def run(ctx):
    ctx.extra["rule"] = RULE
    ctx.trusted_base += [
        "translator tools/py2coq.py (Python int subset -> Gallina; floats as exact rationals: "
        "valid while operands < 2^26, where float division+round/ceil equal the exact ones)",
        "modelled, not verified: numba code generation, OS thread interleaving and memory visibility "
        "(theorem assumes sequentially consistent writes to disjoint cells); the kernels' loop shape is "
        "checked syntactically (kernel_shape_scan) and behaviourally (kernels vs serial references)",
    ]
    ctx.assumptions += [
        "size_total >= 0 and num_threads >= 1 (what maybe_multithread passes)",
        "integer-valued float64 data so that serial and threaded results compare with ==",
    ]
    ok = ctx.stage(translate)
    ctx.stage(kernel_shape_scan)
    ctx.check_props(["Gen/C16_gen.vo", "C16/Proofs.vo", "C16/World.vo", "C16/Kernel.vo", "C16/Props.v"])
    if ok:
        ctx.stage(correspondence)
    ctx.stage(coverage_oracle)
    ctx.stage(kernel_oracle)
    ctx.stage(builder_oracle)
    ctx.stage(world_correspondence)
    if ok:
        ctx.stage(thread_rows_correspondence)


def replay(ctx, path):
    import json

    d = json.load(open(path))
    print(json.dumps(d, indent=1)[:2000])
    run(ctx)

"""C20 - entanglement and information measures satisfy their defining identities.

Proof part (coq/C20): ONLY the index / dispatch layer of quimb/calc.py -
partial_transpose as an index permutation (entry formula, involution, full
transpose, complement), the re-indexing arithmetic of logneg_subsys /
mutinf_subsys, the swap-to-the-smaller-side rule of entropy_subsys /
tr_sqrt_subsys / schmidt_gap / partial_transpose_norm, the ket/operator
dispatch table, the |el - outcome| < tol grouping rule of projector / measure
(one tolerance for the projector and for the normaliser), and Kraus /
measurement / collapse / purification / one-qubit Pauli identities over an
arbitrary commutative ring.
Tie (H): partial_transpose entries on Gaussian-integer matrices, the (dims,
sysa) the shortcut paths hand on (observed by rebinding module globals), the
branch each measure takes, and the (outcome, projected group, normaliser) of
measure / the group of projector read off exact dyadic results, compared inside
Coq with the model.
Oracle (TESTS - the bulk of this property): every spectral identity (entropy,
mutual information, negativity, concurrence, fidelity, trace distance, Schmidt
gap, discord, purification, Kraus / measurement / dephasing maps) against plain
numpy references at tolerance 1e-8, with invariances, bounds, ket vs projector,
dense vs sparse, exact vs *_subsys vs lazy / approximate paths.
"""

import itertools
import math

import numpy as np

from harness.common import blit, natlist, natlit, optlit, zlist, zlit

TOL = 1e-8

RULE = (
    "dimension lists from {2,3,4}^{<=4} (total dimension capped per stream), subsystem sets of every size in random "
    "order incl. non-contiguous; random pure states and mixed states of rank 1..D with spectrum ratio <= 4; "
    "Gaussian-integer matrices for the exact partial-transpose correspondence; thresholds None / 2**13 / small for the "
    "route correspondence; pure states with known Schmidt spectrum (product, Bell pair, 3:1) where the requested side is "
    ">= approx_thresh and the complement is tiny; sparse kets / operators with unequal dims relabelled by 3- and 4-cycles; "
    "projector / measure with tol omitted / on the level grid / off it / tiny / huge, observables with 1..3 clusters of degenerate and near-degenerate "
    "levels (spacings 6e-8..1e-3, levels exactly tol away included), supplied as (el, ev) tuples / lists in sorted or arbitrary order or as dense "
    "(also block-diagonal, autoblock) matrices, outcomes requested (a level or a point between levels) or sampled, kets / their projectors / mixed states. Non-trivial: at least two subsystems and a proper non-empty subsystem set (a state that is "
    "not a product for entanglement measures)."
)

HEADER = (
    "From Coq Require Import ZArith List Bool Arith.\nFrom QV Require Import C20.Model.\nImport ListNotations.\n"
    "Fixpoint zl_eqb (a b : list Z) : bool := match a, b with [], [] => true | x :: a', y :: b' => (x =? y)%Z && zl_eqb a' b' | _, _ => false end.\n"
    "Fixpoint nl_eqb (a b : list nat) : bool := match a, b with [], [] => true | x :: a', y :: b' => Nat.eqb x y && nl_eqb a' b' | _, _ => false end.\n"
    "Fixpoint nll_eqb (a b : list (list nat)) : bool := match a, b with [], [] => true | x :: a', y :: b' => nl_eqb x y && nll_eqb a' b' | _, _ => false end.\n"
    "Definition pt_check dims A (es : list (Z * Z * Z * Z)) : bool :=\n"
    "  forallb (fun e => match e with (r, c, r', c') => let '(x, y) := pt_flat dims A r c in (x =? r')%Z && (y =? c')%Z end) es.\n"
    "Definition route_eqb (a b : route) : bool := match a, b with RPure, RPure => true\n"
    "  | RApprox s z, RApprox s' z' => nl_eqb s s' && (z =? z')%Z | RExact s z, RExact s' z' => nl_eqb s s' && (z =? z')%Z | _, _ => false end.\n"
    "Definition lroute_eqb (a b : lroute) : bool := match a, b with LReject, LReject => true | LApprox, LApprox => true\n"
    "  | LPureBip s, LPureBip s' => nl_eqb s s' | LExact k d a, LExact k' d' a' => nl_eqb k k' && zl_eqb d d' && nl_eqb a a' | _, _ => false end.\n"
    "Definition collapse_eqb (a b : Z * list nat * Z) : bool := match a, b with (o, g, t), (o', g', t') => (o =? o')%Z && nl_eqb g g' && (t =? t')%Z end.\n"
    "Definition ocalls_eqb (a b : option (list (list nat))) : bool := match a, b with None, None => true | Some x, Some y => nll_eqb x y | _, _ => false end.\n"
    "Definition branch_eqb (a b : branch) : bool := match a, b with\n"
    "  | BOverlap, BOverlap | BSqrtm, BSqrtm | BKetDistance, BKetDistance | BTraceNorm, BTraceNorm\n"
    "  | BEntropySubsys, BEntropySubsys | BThreeEntropies, BThreeEntropies | BTrSqrtSmaller, BTrSqrtSmaller\n"
    "  | BNormPT, BNormPT | BKetConcurrence, BKetConcurrence | BWootters, BWootters | BAsDop, BAsDop\n"
    "  | BAmplitudes, BAmplitudes | BDiagonal, BDiagonal => true | _, _ => false end.\n"
)


# ----------------------------------------------------------------------------
# generators and plain-numpy references


def gen_dims(rng, maxD, nmin=1, nmax=4):
    while True:
        n = rng.randint(nmin, nmax)
        dims = [rng.choice([2, 3, 4]) for _ in range(n)]
        if int(np.prod(dims)) <= maxD:
            return dims


def gen_subset(rng, n, kmin=1, kmax=None):
    kmax = n if kmax is None else kmax
    k = rng.randint(kmin, max(kmin, kmax))
    s = rng.sample(range(n), k)
    return s  # random order, possibly non-contiguous


def rand_unitary(g, d):
    q, r = np.linalg.qr(g.normal(size=(d, d)) + 1j * g.normal(size=(d, d)))
    return q * (np.diag(r) / np.abs(np.diag(r)))


def rand_ket(g, D):
    v = g.normal(size=(D, 1)) + 1j * g.normal(size=(D, 1))
    return v / np.linalg.norm(v)


def rand_rho(g, D, rank=None):
    rank = D if rank is None else rank
    U = rand_unitary(g, D)[:, :rank]
    p = 1.0 + 3.0 * g.random(rank)
    p = p / p.sum()
    rho = (U * p) @ U.conj().T
    return (rho + rho.conj().T) / 2


def local_unitary(g, dims):
    U = np.eye(1)
    for d in dims:
        U = np.kron(U, rand_unitary(g, d))
    return U


def ref_ptr(rho, dims, keep):
    """partial trace keeping `keep` (result ordered by ascending subsystem)"""
    n = len(dims)
    keep = sorted(set(keep))
    T = rho.reshape(list(dims) + list(dims))
    row = list(range(n))
    col = list(range(n, 2 * n))
    for i in range(n):
        if i not in keep:
            col[i] = row[i]
    out = [row[i] for i in keep] + [col[i] for i in keep]
    d = int(np.prod([dims[i] for i in keep])) if keep else 1
    return np.einsum(T, row + col, out).reshape(d, d)


def ref_pt(rho, dims, A):
    n = len(dims)
    D = int(np.prod(dims))
    T = rho.reshape(list(dims) + list(dims))
    for i in set(A):
        T = np.swapaxes(T, i, i + n)
    return T.reshape(D, D)


def ref_entropy(rho):
    e = np.linalg.eigvalsh((rho + rho.conj().T) / 2)
    e = e[e > 1e-14]
    return float(-(e * np.log2(e)).sum())


def ref_trnorm(M):
    return float(np.abs(np.linalg.eigvalsh((M + M.conj().T) / 2)).sum())


def ref_embed(op, dims, where):
    """operator on dims[where] (in the GIVEN order) embedded into the full space"""
    n = len(dims)
    D = int(np.prod(dims))
    k = len(where)
    kd = [dims[i] for i in where]
    T = np.eye(D, dtype=complex).reshape(list(dims) + list(dims))
    A = np.asarray(op, dtype=complex).reshape(kd + kd)
    R = np.tensordot(A, T, axes=(list(range(k, 2 * k)), list(where)))
    R = np.moveaxis(R, list(range(k)), list(where))
    return R.reshape(D, D)


def ref_permute(rho, dims, perm):
    n = len(dims)
    D = int(np.prod(dims))
    if rho.shape[1] == 1:
        return rho.reshape(dims).transpose(perm).reshape(D, 1)
    return rho.reshape(list(dims) + list(dims)).transpose(list(perm) + [p + n for p in perm]).reshape(D, D)


def dop(psi):
    return psi @ psi.conj().T


def close(a, b, tol=TOL):
    a, b = complex(a), complex(b)
    return abs(a - b) <= tol * (1.0 + abs(b))


def mclose(A, B, tol=TOL):
    A, B = np.asarray(A), np.asarray(B)
    return A.shape == B.shape and bool(np.all(np.abs(A - B) <= tol * (1.0 + np.abs(B).max(initial=0.0))))


def call(ctx, key, f, replay):
    """run f(); an exception on a valid input is a violation"""
    try:
        return True, f()
    except Exception as e:  # noqa
        ctx.violation(key + ":raised", f"{key} raised {type(e).__name__}: {str(e)[:120]}", {**replay, "error": str(e)[:300]})
        return False, None


def expect(ctx, key, ok, what, replay):
    if not ok:
        ctx.violation(key, what, replay)
    return ok


def tolist(x):
    x = np.asarray(x)
    if np.iscomplexobj(x):
        return [[[float(v.real), float(v.imag)] for v in row] for row in np.atleast_2d(x)]
    return np.atleast_2d(x).tolist()


def fromlist(x):
    a = np.asarray(x, dtype=float)
    if a.ndim == 3 and a.shape[-1] == 2:
        return a[..., 0] + 1j * a[..., 1]
    return a


# ----------------------------------------------------------------------------
# the three correspondence streams queue their cases; one Coq run evaluates them all

QUEUE = []


def _queue(stream, cases, info):
    for cid, expr in cases:
        QUEUE.append((stream, expr, info[cid]))


def correspondence_stage(ctx):
    cases = [(i + 1, expr) for i, (_, expr, _) in enumerate(QUEUE)]
    failed, errors = ctx.coq_cases("corr", HEADER, cases, shard=ctx.n(270, 400))
    for path, err in errors:
        ctx.broken_obligation("correspondence:" + path.split("/")[-1], err)
    seen = {}
    for c in failed:
        stream, _, inf = QUEUE[c - 1]
        seen[stream] = seen.get(stream, 0) + 1
        if seen[stream] <= 3:
            ctx.broken_obligation(f"correspondence:{stream}_model_vs_impl", inf)
        if stream == "route" and seen[stream] <= 25:
            route_searcher(ctx, inf)
    ctx.extra["correspondence_cases"] = {st: sum(1 for q in QUEUE if q[0] == st) for st in ("partial_transpose", "route", "dispatch", "measure_tol")}
    ctx.extra["correspondence_failed"] = len(failed)


# ----------------------------------------------------------------------------
# correspondence 1: partial_transpose entries (exact, Gaussian integers)


def pt_stream(ctx):
    import quimb as qu

    rng = ctx.rng
    cases, info = [], {}
    all_dims = [list(d) for n in range(1, 5) for d in itertools.product([2, 3, 4], repeat=n)]
    maxD = ctx.n(100, 256)
    all_dims = [d for d in all_dims if int(np.prod(d)) <= maxD]
    picks = all_dims if not ctx.quick else (all_dims[:12] + rng.sample(all_dims[12:], min(50, max(0, len(all_dims) - 12))))
    cid = 0
    for dims in picks:
        n = len(dims)
        D = int(np.prod(dims))
        # every subset for n <= 3 (in a random order / with duplicates), a sample for n = 4
        subsets = [list(s) for k in range(0, n + 1) for s in itertools.combinations(range(n), k)]
        if n == 4 or ctx.quick:
            subsets = rng.sample(subsets, min(len(subsets), 3 if ctx.quick else 8))
        rho = np.add.outer(np.arange(D, dtype=float), 1j * np.arange(D, dtype=float))  # rho[r,c] = r + i c
        for A in subsets:
            A = list(A)
            rng.shuffle(A)
            style = rng.choice(["list", "tuple", "dup", "int"])
            arg = A
            if style == "tuple":
                arg = tuple(A)
            elif style == "dup" and A:
                arg = A + [A[0]]
            elif style == "int" and len(A) == 1:
                arg = A[0]
            desc = {"dims": dims, "sysa": A, "style": style}
            ctx.count(("pt", tuple(dims), tuple(sorted(A))), n >= 2 and 0 < len(A) < n)
            ctx.bump("partial_transpose")
            ok, X = call(ctx, "partial_transpose", lambda: np.asarray(qu.partial_transpose(rho, dims, arg)), desc)
            if not ok:
                continue
            # direct oracle on every entry
            want = ref_pt(rho, dims, A)
            expect(ctx, "partial_transpose:value", X.shape == want.shape and np.array_equal(X, want),
                   "partial_transpose differs from swapping ket/bra digits of the subsystems in sysa", desc)
            if X.shape != (D, D):
                continue
            pts = [(rng.randrange(D), rng.randrange(D)) for _ in range(ctx.n(12, 24))] + [(0, D - 1), (D - 1, 0), (D - 1, D - 1)]
            es = []
            for r, c in pts:
                v = X[r, c]
                es.append(f"({zlit(r)}, {zlit(c)}, {zlit(int(round(v.real)))}, {zlit(int(round(v.imag)))})")
            cid += 1
            info[cid] = desc
            cases.append((cid, f"pt_check {zlist(dims)} {natlist(sorted(set(A)))} [{'; '.join(es)}]"))
            if cid <= 2:
                ctx.sample({"stream": "partial_transpose", **desc})
    _queue("partial_transpose", cases, info)

    # ket input = projector input; involution; all = transpose; complement = transposed
    g = np.random.default_rng(ctx.seed + 2001)
    for it in range(ctx.n(40, 400)):
        dims = gen_dims(rng, 64)
        n = len(dims)
        D = int(np.prod(dims))
        A = gen_subset(rng, n, 0 if rng.random() < 0.1 else 1)
        psi = rand_ket(g, D)
        rho = rand_rho(g, D, rng.randint(1, D))
        desc = {"dims": dims, "sysa": A}
        ctx.count(("pt_alg", tuple(dims), tuple(A)), n >= 2 and 0 < len(A) < n)
        ok, res = call(ctx, "partial_transpose", lambda: (
            np.asarray(qu.partial_transpose(psi, dims, A)), np.asarray(qu.partial_transpose(dop(psi), dims, A)),
            np.asarray(qu.partial_transpose(rho, dims, A)),
            np.asarray(qu.partial_transpose(qu.partial_transpose(rho, dims, A), dims, A)),
            np.asarray(qu.partial_transpose(rho, dims, list(range(n)))),
            np.asarray(qu.partial_transpose(rho, dims, [i for i in range(n) if i not in A]))), desc)
        if not ok:
            continue
        pk, pp, pr, prr, pall, pc = res
        expect(ctx, "partial_transpose:ket_vs_projector", mclose(pk, pp, 1e-12), "partial_transpose(ket) != partial_transpose(|psi><psi|)", desc)
        expect(ctx, "partial_transpose:involution", mclose(prr, rho, 1e-12), "partial transpose applied twice is not the identity", desc)
        expect(ctx, "partial_transpose:all", mclose(pall, rho.T, 1e-12), "transposing every subsystem is not the ordinary transpose", desc)
        expect(ctx, "partial_transpose:complement", mclose(pc, pr.T, 1e-12), "transposing the complement is not the transposed partial transpose", desc)
        # local-unitary covariance: (U rho U^dag)^{T_A} = V rho^{T_A} V^dag with V = conj(U) on A
        Us = [rand_unitary(g, d) for d in dims]
        U = np.eye(1)
        V = np.eye(1)
        for i, u in enumerate(Us):
            U = np.kron(U, u)
            V = np.kron(V, u.conj() if i in A else u)
        lhs = np.asarray(qu.partial_transpose(U @ rho @ U.conj().T, dims, A))
        expect(ctx, "partial_transpose:local_unitary", mclose(lhs, V @ pr @ V.conj().T, 1e-10),
               "partial transpose is not covariant under local unitaries", desc)


# ----------------------------------------------------------------------------
# correspondence 2: routes / re-indexing of the *_subsys shortcuts


class _Stop(Exception):
    pass


def _natl(x):
    return natlist([int(i) for i in x])


def route_stream(ctx):
    import quimb as qu
    import quimb.calc as qc
    import quimb.linalg.approx_spectral as qa

    rng = ctx.rng
    g = np.random.default_rng(ctx.seed + 2002)
    cases, info = [], {}
    cid = 0
    saved = {(m, k): getattr(m, k) for m, k in [(qa, "ptr"), (qa, "lazy_ptr_linop"), (qc, "ptr"), (qc, "tr_sqrt_subsys"),
                                                 (qc, "logneg_subsys_approx"), (qc, "logneg"), (qc, "entropy_subsys")]}
    log = []

    def spy_ptr(p, dims, keep):
        R = saved[(qa, "ptr")](p, dims, keep)
        log.append(("ptr", [int(i) for i in keep], int(R.shape[0])))
        return R

    def spy_lazy(psi_ab, dims, sysa, **kw):
        log.append(("lazy", [int(i) for i in sysa]))
        raise _Stop()

    def spy_cptr(p, dims, keep):
        R = saved[(qc, "ptr")](p, dims, keep)
        log.append(("cptr", [int(i) for i in keep], int(R.shape[0])))
        return R

    def spy_trs(psi, dims, sysa, **kw):
        log.append(("tr_sqrt_subsys", [int(i) for i in sysa]))
        return saved[(qc, "tr_sqrt_subsys")](psi, dims, sysa, **kw)

    def spy_lapprox(psi, dims, sysa, sysb, **kw):
        log.append(("logneg_approx",))
        return 0.0

    def spy_logneg(p, dims=(2, 2), sysa=0):
        log.append(("logneg", [int(d) for d in dims], [int(i) for i in sysa], int(p.shape[0])))
        return saved[(qc, "logneg")](p, dims, sysa)

    def spy_es(psi, dims, sysa, **kw):
        log.append(("entropy_subsys", [int(i) for i in sysa]))
        return saved[(qc, "entropy_subsys")](psi, dims, sysa, **kw)

    def thr_lit(t):
        return optlit(t, zlit)

    try:
        qa.ptr, qa.lazy_ptr_linop = spy_ptr, spy_lazy
        qc.ptr, qc.tr_sqrt_subsys, qc.logneg_subsys_approx, qc.logneg, qc.entropy_subsys = spy_cptr, spy_trs, spy_lapprox, spy_logneg, spy_es
        N = ctx.n(260, 3000)
        for it in range(N):
            dims = gen_dims(rng, 96, 1, 4)
            n = len(dims)
            D = int(np.prod(dims))
            psi = rand_ket(g, D)
            A = gen_subset(rng, n)
            thresh = rng.choice([None, 2**13, 2, 3, 4, 6, 8, 12])
            fn = rng.choice(["entropy_subsys", "tr_sqrt_subsys", "schmidt_gap", "ptnorm", "mutinf_subsys", "logneg_subsys", "logneg_subsys"])
            desc = {"fn": fn, "dims": dims, "sysa": A, "approx_thresh": thresh}
            log.clear()
            nontriv = n >= 2 and len(set(A)) < n
            if fn in ("entropy_subsys", "tr_sqrt_subsys"):
                f = saved[(qc, "entropy_subsys")] if fn == "entropy_subsys" else saved[(qc, "tr_sqrt_subsys")]
                try:
                    f(psi, dims, A, approx_thresh=thresh)
                except _Stop:
                    pass
                except Exception as e:
                    ctx.violation(fn + ":raised", f"{fn} raised {type(e).__name__}", {**desc, "error": str(e)[:200]})
                    continue
                if not log:
                    obs = "RPure"
                elif log[0][0] == "lazy":
                    szs = int(np.prod([dims[i] for i in set(log[0][1])]))
                    obs = f"(RApprox {_natl(log[0][1])} {zlit(szs)})"
                else:
                    obs = f"(RExact {_natl(log[0][1])} {zlit(log[0][2])})"
                expr = f"route_eqb (bipartite_route {zlist(dims)} {_natl(A)} {thr_lit(thresh)}) {obs}"
            elif fn == "schmidt_gap":
                ok, _ = call(ctx, fn, lambda: qc.schmidt_gap(psi, dims, A), desc)
                if not ok:
                    continue
                obs = "RPure" if not log else f"(RExact {_natl(log[0][1])} {zlit(log[0][2])})"
                expr = f"route_eqb (schmidt_route {zlist(dims)} {_natl(A)}) {obs}"
            elif fn == "ptnorm":
                ok, _ = call(ctx, "partial_transpose_norm", lambda: qc.partial_transpose_norm(psi, dims, A), desc)
                if not ok or not log:
                    continue
                obs = f"ptr({log[0][1]}) -> dim {log[0][2]}"
                expr = (f"nl_eqb (ptn_ket_sys {zlist(dims)} {_natl(A)}) {_natl(log[0][1])} && "
                        f"(prod_sel 0 (ptn_ket_sys {zlist(dims)} {_natl(A)}) {zlist(dims)} =? {zlit(log[0][2])})%Z")
            else:
                rest = [i for i in range(n) if i not in A]
                if rest and rng.random() < 0.85:
                    B = rng.sample(rest, rng.randint(1, len(rest)))
                else:
                    B = [rng.randint(0, n + 1)]  # possibly overlapping / out of range
                bad = any(not (0 <= i < n) for i in A + B)
                if set(A) & set(B) and not bad:
                    continue  # overlapping subsystems: outside the documented domain
                desc["sysb"] = B
                nontriv = n >= 2
                if fn == "mutinf_subsys":
                    try:
                        qc.mutinf_subsys(psi, dims, A, B, approx_thresh=None)
                        obs = "(Some [" + "; ".join(_natl(e[1]) for e in log if e[0] == "entropy_subsys") + "])"
                    except ValueError:
                        obs = "None"
                    except Exception as e:
                        ctx.violation(fn + ":raised", f"{fn} raised {type(e).__name__}", {**desc, "error": str(e)[:200]})
                        continue
                    expr = f"ocalls_eqb (mutinf_subsys_calls {zlist(dims)} {_natl(A)} {_natl(B)}) {obs}"
                else:
                    try:
                        qc.logneg_subsys(psi, dims, A, B, approx_thresh=thresh)
                        names = [e[0] for e in log]
                        if "tr_sqrt_subsys" in names:
                            obs = f"(LPureBip {_natl(log[names.index('tr_sqrt_subsys')][1])})"
                        elif "logneg_approx" in names:
                            obs = "LApprox"
                        else:
                            kp = log[names.index("cptr")]
                            lg = log[names.index("logneg")]
                            obs = f"(LExact {_natl(kp[1])} {zlist(lg[1])} {_natl(lg[2])})"
                            # the re-numbered description must fit the reduced operator it is applied to
                            expect(ctx, "logneg_subsys:reindex", int(np.prod(lg[1])) == lg[3] == kp[2] and all(0 <= j < len(lg[1]) for j in lg[2]),
                                   "logneg_subsys hands (new_dims, new_sysa) that do not describe the reduced state", {**desc, "new_dims": lg[1], "new_sysa": lg[2]})
                    except _Stop:
                        obs = f"(LPureBip {_natl([e for e in log if e[0] == 'tr_sqrt_subsys'][0][1])})"
                    except ValueError:
                        obs = "LReject"
                    except Exception as e:
                        ctx.violation(fn + ":raised", f"{fn} raised {type(e).__name__}", {**desc, "error": str(e)[:200]})
                        continue
                    expr = f"lroute_eqb (logneg_subsys_route {zlist(dims)} {_natl(A)} {_natl(B)} {thr_lit(thresh)}) {obs}"
                    if bad:
                        ctx.bump("route_rejected_indices")
            ctx.count(("route", fn, tuple(dims), tuple(A), tuple(desc.get("sysb", ())), thresh), nontriv)
            ctx.bump("route_" + fn)
            cid += 1
            info[cid] = {**desc, "observed": obs}
            cases.append((cid, expr))
            if cid in (1, 2):
                ctx.sample({"stream": "route", **info[cid]})
    finally:
        for (m, k), v in saved.items():
            setattr(m, k, v)
    _queue("route", cases, info)


# ----------------------------------------------------------------------------
# correspondence 3: which branch each measure takes for kets / operators


def dispatch_stream(ctx):
    import quimb as qu
    import quimb.calc as qc

    rng = ctx.rng
    g = np.random.default_rng(ctx.seed + 2003)
    names = ["isop", "isvec", "expec", "sqrtm", "norm", "entropy", "entropy_subsys", "ptr", "tr_sqrt", "norm_trace_dense",
             "partial_transpose", "array_contract", "qu", "dop", "mutual_information", "nla"]
    saved = {k: getattr(qc, k) for k in names}
    log = []

    def mk(name):
        real = saved[name]

        def spy(*a, **kw):
            log.append(name)
            if name == "mutual_information":
                raise _Stop()
            return real(*a, **kw)

        return spy

    class NlaProxy:
        @staticmethod
        def eigvals(x):
            log.append("eigvals")
            return saved["nla"].eigvals(x)

    cases, info = [], {}
    cid = 0

    def state(kind, D):
        return rand_ket(g, D) if kind == "Ket" else rand_rho(g, D)

    try:
        for k in names:
            setattr(qc, k, NlaProxy if k == "nla" else mk(k))
        for it in range(ctx.n(120, 1200)):
            m = rng.choice(["MFidelity", "MTraceDistance", "MMutinf", "MPTNorm", "MLogneg", "MNegativity", "MConcurrence",
                            "MDiscord", "MMeasure", "MCounts", "MDecomp", "MPartialTranspose"])
            k1, k2 = rng.choice(["Ket", "Op"]), rng.choice(["Ket", "Op"])
            many = False
            if m in ("MConcurrence", "MDiscord"):
                many = rng.random() < 0.5
                dims = [2, 2, 2] if many else [2, 2]
            elif m in ("MCounts", "MDecomp"):
                dims = [2] * rng.randint(1, 3)
            else:
                dims = gen_dims(rng, 36, 2, 3)
            D = int(np.prod(dims))
            p1, p2 = state(k1, D), state(k2, D)
            A = [rng.randrange(len(dims))]
            log.clear()
            desc = {"measure": m, "kind1": k1, "kind2": k2, "dims": dims}
            try:
                if m == "MFidelity":
                    qc.fidelity(p1, p2)
                    obs = "BSqrtm" if "sqrtm" in log else ("BOverlap" if "expec" in log else "?")
                elif m == "MTraceDistance":
                    qc.trace_distance(p1, p2)
                    obs = "BTraceNorm" if "norm" in log else ("BKetDistance" if "expec" in log else "?")
                elif m == "MMutinf":
                    qc.mutinf(p1, dims, A)
                    obs = "BEntropySubsys" if "entropy_subsys" in log else ("BThreeEntropies" if log.count("entropy") == 3 and log.count("ptr") == 2 else "?")
                elif m in ("MPTNorm", "MLogneg", "MNegativity"):
                    {"MPTNorm": qc.partial_transpose_norm, "MLogneg": qc.logneg, "MNegativity": qc.negativity}[m](p1, dims, A)
                    obs = "BTrSqrtSmaller" if ("tr_sqrt" in log and "ptr" in log) else ("BNormPT" if ("norm_trace_dense" in log and "partial_transpose" in log) else "?")
                elif m == "MConcurrence":
                    qc.concurrence(p1, dims, 0, len(dims) - 1)
                    obs = "BWootters" if "eigvals" in log else "BKetConcurrence"
                    if many and "ptr" not in log:
                        obs = "?"
                elif m == "MDiscord":
                    try:
                        qc.quantum_discord(p1, dims, 0, len(dims) - 1)
                    except _Stop:
                        pass
                    obs = "BAsDop" if (("ptr" in log) if many else ("qu" in log)) else "?"
                elif m == "MMeasure":
                    el, ev = np.linalg.eigh(rand_rho(g, D))
                    qc.measure(p1, (el, saved["qu"](ev)), eigenvalue=float(el[0]))
                    obs = "BDiagonal" if "array_contract" in log else "BAmplitudes"
                elif m == "MCounts":
                    r1 = qc.simulate_counts(p1, 50, seed=5)
                    probs = np.abs(p1.reshape(-1)) ** 2 if k1 == "Ket" else np.diag(p1).real
                    r2 = qc.simulate_counts(np.sqrt(probs).reshape(-1, 1) if k1 == "Op" else np.diag(probs), 50, seed=5)
                    # both kinds must sample the same distribution with the same seed
                    obs = ("BDiagonal" if k1 == "Op" else "BAmplitudes") if r1 == r2 else "?"
                elif m == "MDecomp":
                    qc.pauli_decomp(p1, mode="c")
                    obs = "BAsDop" if (("qu" in log) == (k1 == "Ket")) else "?"
                else:
                    X = np.asarray(qc.partial_transpose(p1, dims, A))
                    obs = "BAsDop" if ("qu" in log and X.shape == (D, D)) else "?"
            except Exception as e:
                ctx.violation(f"dispatch:{m}:raised", f"{m} raised {type(e).__name__} on a {k1}/{k2} input", {**desc, "error": str(e)[:200]})
                continue
            ctx.count(("dispatch", m, k1, k2, many), True)
            ctx.bump("dispatch")
            cid += 1
            info[cid] = {**desc, "observed": obs, "calls": list(log)[:12]}
            if obs == "?":
                ctx.broken_obligation("correspondence:dispatch_unrecognised_branch", info[cid])
                continue
            s1, s2 = p1.shape, p2.shape
            cases.append((cid, f"branch_eqb (dispatch {m} (kind_of {zlit(s1[0])} {zlit(s1[1])}) (kind_of {zlit(s2[0])} {zlit(s2[1])}) {blit(many)}) {obs}"))
    finally:
        for k, v in saved.items():
            setattr(qc, k, v)
    _queue("dispatch", cases, info)


# ----------------------------------------------------------------------------
# oracle streams (TESTS): textbook values, invariances, bounds, path agreement


def _subsys_case(rng, g, maxD, nmin=2):
    dims = gen_dims(rng, maxD, nmin, 4)
    n = len(dims)
    D = int(np.prod(dims))
    A = gen_subset(rng, n, 1, n - 1) if rng.random() < 0.9 else list(range(n))
    return dims, n, D, A


def _relabel(rng, dims, A):
    """random relabelling of the subsystems: returns perm, new dims, image of A"""
    n = len(dims)
    perm = list(range(n))
    rng.shuffle(perm)
    nd = [dims[p] for p in perm]
    return perm, nd, [perm.index(i) for i in A]


def entropy_stream(ctx):
    import quimb as qu
    import scipy.sparse as sp

    rng = ctx.rng
    g = np.random.default_rng(ctx.seed + 2004)
    for it in range(ctx.n(110, 1500)):
        dims, n, D, A = _subsys_case(rng, g, ctx.n(64, 144))
        Bc = [i for i in range(n) if i not in A]
        rank = rng.choice([1, 2, D, rng.randint(1, D)])
        rho = rand_rho(g, D, rank)
        psi = rand_ket(g, D)
        desc = {"dims": dims, "sysa": A, "rank": rank, "case_seed": [ctx.seed, it]}
        ctx.count(("entropy", tuple(dims), tuple(A), rank), len(A) < n)
        ctx.bump("entropy_mutinf")
        if it < 1:
            ctx.sample({"stream": "entropy", **desc})
        # --- entropy: textbook value, eigenvalue-list input, bounds, unitary invariance
        e_ref = ref_entropy(rho)
        ok, e = call(ctx, "entropy", lambda: (qu.entropy(rho), qu.entropy(np.linalg.eigvalsh(rho)),
                                               qu.entropy(rho, rank=rank) if (rank <= 2 and D > 3) else None), desc)
        if ok:
            expect(ctx, "entropy:value", close(e[0], e_ref), f"entropy {e[0]} != -sum p log2 p = {e_ref}", desc)
            expect(ctx, "entropy:eigenvalue_list", close(e[1], e_ref), "entropy(list of eigenvalues) differs", desc)
            expect(ctx, "entropy:bounds", -TOL <= e[0] <= math.log2(rank) + TOL, "entropy outside [0, log2 rank]", desc)
            if e[2] is not None:
                expect(ctx, "entropy:rank_shortcut", close(e[2], e_ref, 1e-6), f"entropy(rank={rank}) {e[2]} != {e_ref}", desc)
            U = rand_unitary(g, D)
            expect(ctx, "entropy:unitary_invariance", close(qu.entropy(U @ rho @ U.conj().T), e_ref), "entropy not unitarily invariant", desc)
        # --- mutual information (operator): H(A)+H(B)-H(AB), symmetry, sub-additivity, Araki-Lieb
        ra, rb = ref_ptr(rho, dims, A), ref_ptr(rho, dims, Bc)
        sa, sb = ref_entropy(ra), ref_entropy(rb) if Bc else 0.0
        mi_ref = sa + sb - e_ref
        ok, mi = call(ctx, "mutinf:operator", lambda: qu.mutinf(rho, dims, A), desc)
        if ok:
            expect(ctx, "mutinf:operator:value", close(mi, mi_ref), f"mutinf {mi} != H(A)+H(B)-H(AB) = {mi_ref}", desc)
            expect(ctx, "mutinf:subadditivity", mi >= -TOL and abs(sa - sb) <= e_ref + TOL, "sub-additivity / Araki-Lieb violated", desc)
            if Bc:
                ok2, mi2 = call(ctx, "mutinf:operator", lambda: qu.mutinf(rho, dims, Bc), desc)
                if ok2:
                    expect(ctx, "mutinf:symmetry", close(mi2, mi), f"mutinf(A) {mi} != mutinf(B) {mi2}", desc)
            if rank <= 2 and D > 3:
                ok2, mi3 = call(ctx, "mutinf:rank", lambda: qu.mutinf(rho, dims, A, rank=rank), desc)
                if ok2:
                    expect(ctx, "mutinf:rank_shortcut", close(mi3, mi_ref, 1e-6), f"mutinf(rank={rank}) {mi3} != {mi_ref}", desc)
            # local unitaries and relabelling
            U = local_unitary(g, dims)
            perm, nd, nA = _relabel(rng, dims, A)
            ok2, inv = call(ctx, "mutinf:operator", lambda: (qu.mutinf(U @ rho @ U.conj().T, dims, A),
                                                            qu.mutinf(ref_permute(rho, dims, perm), nd, nA)), {**desc, "perm": perm})
            if ok2:
                expect(ctx, "mutinf:local_unitary", close(inv[0], mi_ref), "mutinf changed under local unitaries", desc)
                expect(ctx, "mutinf:relabelling", close(inv[1], mi_ref), "mutinf changed under subsystem relabelling", {**desc, "perm": perm})
        # --- pure states: entropy_subsys, mutinf(ket) = 2 S(A) = mutinf(projector), schmidt gap, sparse ket
        pa = ref_ptr(dop(psi), dims, A)
        s_ref = ref_entropy(pa) if Bc else 0.0
        ok, r = call(ctx, "entropy_subsys", lambda: (qu.entropy_subsys(psi, dims, A), qu.entropy_subsys(psi, dims, Bc) if Bc else 0.0,
                                                      qu.mutinf(psi, dims, A), qu.mutinf(dop(psi), dims, A),
                                                      qu.entropy_subsys(sp.csr_matrix(psi), dims, A), qu.mutinf(sp.csr_matrix(psi), dims, A),
                                                      qu.entropy_subsys(psi, dims, A, approx_thresh=None)), desc)
        if ok:
            expect(ctx, "entropy_subsys:value", close(r[0], s_ref), f"entropy_subsys {r[0]} != S(rho_A) = {s_ref}", desc)
            expect(ctx, "entropy_subsys:schmidt_symmetry", close(r[1], r[0]) or not Bc, "S(A) != S(B) for a pure state", desc)
            expect(ctx, "mutinf:ket:value", close(r[2], 2 * s_ref), f"mutinf(ket) {r[2]} != 2 S(A) = {2 * s_ref}", desc)
            expect(ctx, "mutinf:ket_vs_projector", close(r[3], r[2], 1e-7), f"mutinf(ket) {r[2]} != mutinf(projector) {r[3]}", desc)
            expect(ctx, "entropy_subsys:sparse", close(r[4], r[0]) and close(r[5], r[2]), "sparse ket gives a different entropy / mutinf", desc)
            expect(ctx, "entropy_subsys:no_thresh", close(r[6], r[0]), "approx_thresh=None changes the exact value", desc)
            U = local_unitary(g, dims)
            perm, nd, nA = _relabel(rng, dims, A)
            ok2, inv = call(ctx, "entropy_subsys", lambda: (qu.entropy_subsys(U @ psi, dims, A), qu.entropy_subsys(ref_permute(psi, dims, perm), nd, nA)), {**desc, "perm": perm})
            if ok2:
                expect(ctx, "entropy_subsys:local_unitary", close(inv[0], s_ref), "entropy_subsys changed under local unitaries", desc)
                expect(ctx, "entropy_subsys:relabelling", close(inv[1], s_ref), "entropy_subsys changed under relabelling", {**desc, "perm": perm})
        if Bc:
            ev = np.sort(np.linalg.eigvalsh(pa))[::-1]
            ev = np.concatenate([ev, [0.0]])
            gap_ref = float(ev[0] - ev[1])
        else:
            gap_ref = 1.0
        ok, sg = call(ctx, "schmidt_gap", lambda: (qu.schmidt_gap(psi, dims, A), qu.schmidt_gap(psi, dims, Bc) if Bc else 1.0,
                                                   qu.schmidt_gap(sp.csr_matrix(psi), dims, A)), desc)
        if ok:
            expect(ctx, "schmidt_gap:value", close(sg[0], gap_ref), f"schmidt_gap {sg[0]} != {gap_ref}", desc)
            expect(ctx, "schmidt_gap:symmetry", close(sg[1], sg[0]), "schmidt_gap(A) != schmidt_gap(B)", desc)
            expect(ctx, "schmidt_gap:sparse", close(sg[2], sg[0]), "schmidt_gap(sparse ket) differs", desc)
        # --- tr_sqrt / tr_sqrt_subsys (full-rank arguments only: sqrt is not Lipschitz at 0)
        rf = rand_rho(g, min(D, 16))
        t_ref = float(np.sqrt(np.linalg.eigvalsh(rf)).sum())
        ok, t = call(ctx, "tr_sqrt", lambda: qu.tr_sqrt(rf), desc)
        if ok:
            expect(ctx, "tr_sqrt:value", close(t, t_ref), f"tr_sqrt {t} != {t_ref}", desc)
        if Bc:
            small = pa if pa.shape[0] <= D // pa.shape[0] else ref_ptr(dop(psi), dims, Bc)
            ts_ref = float(np.sqrt(np.clip(np.linalg.eigvalsh(small), 0, None)).sum())
            ok, ts = call(ctx, "tr_sqrt_subsys", lambda: qu.calc.tr_sqrt_subsys(psi, dims, A), desc)
            if ok:
                expect(ctx, "tr_sqrt_subsys:value", close(ts, ts_ref, 1e-7), f"tr_sqrt_subsys {ts} != {ts_ref}", desc)
        # --- mutinf_subsys: exact vs shortcut vs reference, for three parties
        if n >= 2:
            k = rng.randint(1, n - 1) if n > 2 else 1
            SA = rng.sample(range(n), k)
            rest = [i for i in range(n) if i not in SA]
            SB = rng.sample(rest, rng.randint(1, len(rest)))
            d3 = {**desc, "sysa": SA, "sysb": SB}
            P = dop(psi)
            ms_ref = ref_entropy(ref_ptr(P, dims, SA)) + ref_entropy(ref_ptr(P, dims, SB)) - ref_entropy(ref_ptr(P, dims, SA + SB))
            ok, ms = call(ctx, "mutinf_subsys", lambda: (qu.mutinf_subsys(psi, dims, SA, SB), qu.mutinf_subsys(psi, dims, SB, SA),
                                                          qu.mutinf_subsys(sp.csr_matrix(psi), dims, SA, SB)), d3)
            if ok:
                expect(ctx, "mutinf_subsys:value", close(ms[0], ms_ref, 1e-7), f"mutinf_subsys {ms[0]} != {ms_ref}", d3)
                expect(ctx, "mutinf_subsys:symmetry", close(ms[1], ms[0]), "mutinf_subsys(A,B) != mutinf_subsys(B,A)", d3)
                expect(ctx, "mutinf_subsys:sparse", close(ms[2], ms[0]), "mutinf_subsys(sparse ket) differs", d3)
                # the long way round through ptr + mutinf on the reduced operator
                keep = sorted(SA + SB)
                if len(keep) >= 2 and len(keep) < n:
                    red = np.asarray(qu.ptr(psi, dims, keep))
                    ok2, ml = call(ctx, "mutinf:operator", lambda: qu.mutinf(red, [dims[i] for i in keep], [keep.index(i) for i in SA]), d3)
                    if ok2:
                        expect(ctx, "mutinf_subsys:vs_exact_path", close(ml, ms[0], 1e-7), f"mutinf_subsys {ms[0]} != mutinf(ptr(psi)) {ml}", d3)


def negativity_stream(ctx):
    import quimb as qu
    import scipy.sparse as sp

    rng = ctx.rng
    g = np.random.default_rng(ctx.seed + 2005)
    for it in range(ctx.n(120, 1300)):
        dims, n, D, A = _subsys_case(rng, g, ctx.n(48, 100))
        Bc = [i for i in range(n) if i not in A]
        rank = rng.choice([1, 2, D, rng.randint(1, D)])
        rho = rand_rho(g, D, rank)
        psi = rand_ket(g, D)
        desc = {"dims": dims, "sysa": A, "rank": rank, "case_seed": [ctx.seed, it]}
        ctx.count(("negativity", tuple(dims), tuple(A), rank), len(A) < n)
        ctx.bump("negativity_logneg")
        if it < 1:
            ctx.sample({"stream": "negativity", **desc})
        nrm_ref = ref_trnorm(ref_pt(rho, dims, A))
        ok, r = call(ctx, "logneg:operator", lambda: (qu.calc.partial_transpose_norm(rho, dims, A), qu.logneg(rho, dims, A), qu.negativity(rho, dims, A),
                                                       qu.logneg(rho, dims, Bc) if Bc else 0.0), desc)
        if ok:
            expect(ctx, "partial_transpose_norm:operator:value", close(r[0], nrm_ref), f"||rho^T_A||_1 {r[0]} != {nrm_ref}", desc)
            expect(ctx, "logneg:operator:value", close(r[1], max(0.0, math.log2(nrm_ref))), f"logneg {r[1]} != log2 ||rho^T_A||_1", desc)
            expect(ctx, "negativity:operator:value", close(r[2], max(0.0, (nrm_ref - 1) / 2)), f"negativity {r[2]} != (||rho^T_A||_1 - 1)/2", desc)
            expect(ctx, "logneg:bounds", r[1] >= -TOL and r[2] >= -TOL and r[0] >= 1 - TOL, "negative (log-)negativity or norm < 1", desc)
            expect(ctx, "logneg:symmetry", close(r[3], r[1]) or not Bc, "logneg(A) != logneg(complement)", desc)
            U = local_unitary(g, dims)
            perm, nd, nA = _relabel(rng, dims, A)
            ok2, inv = call(ctx, "logneg:operator", lambda: (qu.logneg(U @ rho @ U.conj().T, dims, A), qu.logneg(ref_permute(rho, dims, perm), nd, nA)), {**desc, "perm": perm})
            if ok2:
                expect(ctx, "logneg:local_unitary", close(inv[0], r[1]), "logneg changed under local unitaries", desc)
                expect(ctx, "logneg:relabelling", close(inv[1], r[1]), "logneg changed under subsystem relabelling", {**desc, "perm": perm})
        # pure states: ||P^T_A||_1 = (tr sqrt rho_A)^2, ket vs projector, sparse ket
        P = dop(psi)
        pn_ref = ref_trnorm(ref_pt(P, dims, A))
        ok, r = call(ctx, "logneg:ket", lambda: (qu.calc.partial_transpose_norm(psi, dims, A), qu.logneg(psi, dims, A), qu.negativity(psi, dims, A),
                                                  qu.logneg(P, dims, A), qu.negativity(P, dims, A)), desc)
        if ok:
            # sparse kets; the trivial bipartition (sysa = every subsystem) has its own key
            oks, rs = call(ctx, "logneg:sparse_ket" + ("" if Bc else ":sysa_is_everything"),
                           lambda: (qu.logneg(sp.csr_matrix(psi), dims, A), qu.negativity(sp.csr_matrix(psi), dims, A)), desc)
            r = r + (rs if oks else (r[1], r[2]))
            expect(ctx, "partial_transpose_norm:ket:value", close(r[0], pn_ref, 1e-7), f"(tr sqrt rho_A)^2 {r[0]} != ||P^T_A||_1 {pn_ref}", desc)
            expect(ctx, "logneg:ket:value", close(r[1], max(0.0, math.log2(pn_ref)), 1e-7), "logneg(ket) != log2 ||P^T_A||_1", desc)
            expect(ctx, "negativity:ket:value", close(r[2], max(0.0, (pn_ref - 1) / 2), 1e-7), "negativity(ket) != (||P^T_A||_1 - 1)/2", desc)
            expect(ctx, "logneg:ket_vs_projector", close(r[3], r[1], 1e-7) and close(r[4], r[2], 1e-7), "logneg / negativity differ between ket and projector", desc)
            expect(ctx, "logneg:sparse", close(r[5], r[1]) and close(r[6], r[2]), "sparse ket gives a different logneg / negativity", desc)
        # logneg_subsys: exact vs shortcut vs reference
        k = rng.randint(1, n - 1) if n > 2 else 1
        SA = rng.sample(range(n), k)
        rest = [i for i in range(n) if i not in SA]
        SB = rng.sample(rest, rng.randint(1, len(rest)))
        d3 = {**desc, "sysa": SA, "sysb": SB}
        keep = sorted(SA + SB)
        red = ref_ptr(P, dims, keep)
        kd = [dims[i] for i in keep]
        ls_ref = max(0.0, math.log2(ref_trnorm(ref_pt(red, kd, [keep.index(i) for i in SA]))))
        ok, ls = call(ctx, "logneg_subsys", lambda: (qu.logneg_subsys(psi, dims, SA, SB), qu.logneg_subsys(psi, dims, SB, SA),
                                                      qu.logneg_subsys(sp.csr_matrix(psi), dims, SA, SB), qu.logneg_subsys(psi, dims, SA, SB, approx_thresh=None)), d3)
        if ok:
            expect(ctx, "logneg_subsys:value", close(ls[0], ls_ref, 1e-7), f"logneg_subsys {ls[0]} != logneg of the reduced state {ls_ref}", d3)
            expect(ctx, "logneg_subsys:symmetry", close(ls[1], ls[0], 1e-7), "logneg_subsys(A,B) != logneg_subsys(B,A)", d3)
            expect(ctx, "logneg_subsys:sparse", close(ls[2], ls[0]), "logneg_subsys(sparse ket) differs", d3)
            expect(ctx, "logneg_subsys:no_thresh", close(ls[3], ls[0]), "approx_thresh=None changes the exact value", d3)
            if len(keep) < n:
                ok2, ll = call(ctx, "logneg:operator", lambda: qu.logneg(np.asarray(qu.ptr(psi, dims, keep)), kd, [keep.index(i) for i in SA]), d3)
                if ok2:
                    expect(ctx, "logneg_subsys:vs_exact_path", close(ll, ls[0], 1e-7), f"logneg_subsys {ls[0]} != logneg(ptr(psi)) {ll}", d3)


_Y = np.array([[0, -1j], [1j, 0]])
_YY = np.kron(_Y, _Y)
_PAULI = {"I": np.eye(2, dtype=complex), "X": np.array([[0, 1], [1, 0]], dtype=complex), "Y": _Y, "Z": np.diag([1.0 + 0j, -1.0])}


def ref_concurrence(rho):
    R = rho @ _YY @ rho.conj() @ _YY
    lam = np.sqrt(np.clip(np.sort(np.linalg.eigvals(R).real)[::-1], 0, None))
    return max(0.0, float(lam[0] - lam[1] - lam[2] - lam[3]))


def ref_discord(rho, meas, starts=10):
    """two-qubit discord with projective measurement on subsystem `meas`:
    I(A:B) - max_proj [S(other) - sum_j p_j S(rho_other|j)], multi-start Nelder-Mead"""
    from scipy.optimize import minimize

    other = 1 - meas
    I = ref_entropy(ref_ptr(rho, [2, 2], [0])) + ref_entropy(ref_ptr(rho, [2, 2], [1])) - ref_entropy(rho)
    s_other = ref_entropy(ref_ptr(rho, [2, 2], [other]))

    def cond(a):
        nx, ny, nz = math.sin(a[0]) * math.cos(a[1]), math.sin(a[0]) * math.sin(a[1]), math.cos(a[0])
        tot = 0.0
        for sg in (1, -1):
            Pm = (_PAULI["I"] + sg * (nx * _PAULI["X"] + ny * _PAULI["Y"] + nz * _PAULI["Z"])) / 2
            Pf = np.kron(np.eye(2), Pm) if meas == 1 else np.kron(Pm, np.eye(2))
            M = Pf @ rho @ Pf
            pr = np.trace(M).real
            if pr > 1e-13:
                tot += pr * ref_entropy(ref_ptr(M / pr, [2, 2], [other]))
        return tot

    best = min(minimize(cond, (t0, p0), method="Nelder-Mead", options=dict(xatol=1e-10, fatol=1e-13)).fun
               for t0, p0 in [(0.3, 0.4), (1.2, 2.0), (2.2, 4.0), (0.9, 5.5), (1.6, 1.0), (2.8, 3.0), (0.1, 0.1), (1.57, 3.14), (2.0, 0.5), (0.6, 3.5)][:starts])
    return I - (s_other - best)


def discord_expect(ctx, key, got, want, what, desc):
    """an OVER-estimate means the optimiser over measurement directions stopped at a
    non-global stationary point: its own input class"""
    if close(got, want, 1e-6):
        return True
    if got > want:
        return expect(ctx, "quantum_discord:local_minimum", False,
                      f"quantum_discord = {got} but a better measurement direction gives {want} ({what})", desc)
    return expect(ctx, key, False, f"{what}: quantum_discord = {got}, reference = {want}", desc)


def two_qubit_stream(ctx):
    import quimb as qu

    rng = ctx.rng
    g = np.random.default_rng(ctx.seed + 2006)
    for it in range(ctx.n(80, 800)):
        # the two qubits sit at positions (a, b) of a longer dimension list half of the time
        if rng.random() < 0.5:
            dims, a, b = [2, 2], 0, 1
        else:
            n = rng.randint(3, 4)
            a, b = rng.sample(range(n), 2)
            dims = [2 if i in (a, b) else rng.choice([2, 3]) for i in range(n)]
        D = int(np.prod(dims))
        rank = rng.choice([1, D, D, rng.randint(2, D)])
        rho = rand_rho(g, D, rank)
        psi = rand_ket(g, D)
        desc = {"dims": dims, "sysa": a, "sysb": b, "rank": rank, "case_seed": [ctx.seed, it]}
        ctx.count(("concurrence", tuple(dims), a, b, rank), True)
        ctx.bump("concurrence")
        lo, hi = min(a, b), max(a, b)
        red = ref_ptr(rho, dims, [lo, hi])
        redk = ref_ptr(dop(psi), dims, [lo, hi])
        tol = 1e-8 if np.linalg.eigvalsh(red).min() > 1e-3 else 1e-6
        ok, r = call(ctx, "concurrence", lambda: (qu.concurrence(rho, dims, a, b), qu.concurrence(rho, dims, b, a),
                                                  qu.concurrence(psi, dims, a, b), qu.concurrence(dop(psi), dims, a, b)), desc)
        if ok:
            expect(ctx, "concurrence:operator:value", close(r[0], ref_concurrence(red), tol), f"concurrence {r[0]} != Wootters {ref_concurrence(red)}", desc)
            expect(ctx, "concurrence:symmetry", close(r[1], r[0], tol), "concurrence(a,b) != concurrence(b,a)", desc)
            if len(dims) == 2:
                ck = abs((psi.conj().T @ _YY @ psi.conj()).item())
                expect(ctx, "concurrence:ket:value", close(r[2], ck), f"concurrence(ket) {r[2]} != |<psi|YY|psi*>| {ck}", desc)
                ngt = (ref_trnorm(ref_pt(dop(psi), [2, 2], [0])) - 1) / 2
                expect(ctx, "concurrence:pure_is_twice_negativity", close(r[2], 2 * ngt, 1e-7), "pure two-qubit concurrence != 2 negativity", desc)
            else:
                expect(ctx, "concurrence:ket:value", close(r[2], ref_concurrence(redk), 1e-6), f"concurrence(ket, traced) {r[2]} != Wootters {ref_concurrence(redk)}", desc)
            expect(ctx, "concurrence:ket_vs_projector", close(r[3], r[2], 1e-6), f"concurrence(ket) {r[2]} != concurrence(projector) {r[3]}", desc)
            expect(ctx, "concurrence:bounds", all(-TOL <= x <= 1 + 1e-7 for x in r), "concurrence outside [0, 1]", desc)
            U = local_unitary(g, dims)
            ok2, cu = call(ctx, "concurrence", lambda: qu.concurrence(U @ rho @ U.conj().T, dims, a, b), desc)
            if ok2:
                expect(ctx, "concurrence:local_unitary", close(cu, r[0], tol), "concurrence changed under local unitaries", desc)

    # quantum discord (two qubits): D(A|B) with the measurement on sysb
    for it in range(ctx.n(12, 120)):
        rho = rand_rho(g, 4)
        desc = {"dims": [2, 2], "rho": tolist(np.round(rho, 12)), "case_seed": [ctx.seed, it]}
        ctx.count(("discord", it), True)
        ctx.bump("discord")
        d_b = ref_discord(rho, 1)
        d_a = ref_discord(rho, 0)
        ok, d = call(ctx, "quantum_discord", lambda: qu.quantum_discord(rho), desc)
        if ok:
            discord_expect(ctx, "quantum_discord:value", d, d_b, "I(A:B) - max_B J(A|B)", desc)
            expect(ctx, "quantum_discord:bounds", -1e-9 <= d <= ref_entropy(ref_ptr(rho, [2, 2], [1])) + 1e-6, "discord outside [0, S(B)]", desc)
        if abs(d_a - d_b) > 1e-4:
            # relabelling: swapping the roles of the subsystems must give the other discord
            ok, d2 = call(ctx, "quantum_discord", lambda: qu.quantum_discord(rho, (2, 2), 1, 0), {**desc, "sysa": 1, "sysb": 0})
            if ok and close(d2, d_b, 1e-6):
                expect(ctx, "quantum_discord:sysa_gt_sysb", False,
                       f"quantum_discord(sysa=1, sysb=0) = {d2}, but the discord with A=1 measured on B=0 is {d_a} ({d_b} is the (0,1) value)",
                       {**desc, "sysa": 1, "sysb": 0})
            elif ok:
                discord_expect(ctx, "quantum_discord:sysa_gt_sysb:value", d2, d_a, "discord with A=1 measured on B=0", {**desc, "sysa": 1, "sysb": 0})
            sw = ref_permute(rho, [2, 2], [1, 0])
            ok, d3 = call(ctx, "quantum_discord", lambda: qu.quantum_discord(sw), desc)
            if ok:
                discord_expect(ctx, "quantum_discord:relabelling", d3, d_a, "discord of the swapped state vs discord measured on the other side", desc)
        if it % 3 == 0:
            # three qubits: trace the third out first; pure two-qubit state: D = S(A)
            r3 = rand_rho(g, 8)
            a, b = rng.choice([(0, 1), (0, 2), (1, 2)])
            red = ref_ptr(r3, [2, 2, 2], [a, b])
            d3d = {"dims": [2, 2, 2], "sysa": a, "sysb": b, "rho": tolist(np.round(r3, 12))}
            ok, dd = call(ctx, "quantum_discord", lambda: qu.quantum_discord(r3, (2, 2, 2), a, b), d3d)
            if ok:
                discord_expect(ctx, "quantum_discord:traced:value", dd, ref_discord(red, 1), "discord of a traced-out three-qubit state", d3d)
            psi = rand_ket(g, 4)
            ok, dp = call(ctx, "quantum_discord", lambda: qu.quantum_discord(psi), {"dims": [2, 2], "psi": tolist(psi)})
            if ok:
                expect(ctx, "quantum_discord:pure_state", close(dp, ref_entropy(ref_ptr(dop(psi), [2, 2], [0])), 1e-6),
                       "discord of a pure state != entanglement entropy", {"dims": [2, 2], "psi": tolist(psi)})
            # Bell-diagonal states: closed form (Luo 2008)
            c = g.uniform(-1, 1, 3)
            c = c / max(1.0, np.abs(c).sum() * 1.05)
            bd = (np.eye(4) + sum(ci * np.kron(_PAULI[s], _PAULI[s]) for ci, s in zip(c, "XYZ"))).real / 4
            lam = np.linalg.eigvalsh(bd)
            cm = np.abs(c).max()
            cf = 2 + float((lam[lam > 1e-15] * np.log2(lam[lam > 1e-15])).sum()) - ((1 - cm) / 2 * math.log2(1 - cm) + (1 + cm) / 2 * math.log2(1 + cm))
            ok, db = call(ctx, "quantum_discord", lambda: qu.quantum_discord(bd), {"bell_diagonal_c": c.tolist()})
            if ok:
                discord_expect(ctx, "quantum_discord:bell_diagonal", db, cf, "Bell-diagonal closed form", {"bell_diagonal_c": c.tolist()})


def ref_fidelity(r1, r2):
    ev = np.linalg.eigvals(r1 @ r2).real
    return float(np.sqrt(np.clip(ev, 0, None)).sum())


def distance_stream(ctx):
    import quimb as qu
    import scipy.sparse as sp

    rng = ctx.rng
    g = np.random.default_rng(ctx.seed + 2007)
    for it in range(ctx.n(150, 1500)):
        D = rng.choice([2, 3, 4, 6, 8, 9, 12, 16])
        a, b = rand_ket(g, D), rand_ket(g, D)
        rank2 = rng.choice([D, D, rng.randint(1, D)])
        r1, r2 = rand_rho(g, D), rand_rho(g, D, rank2)
        desc = {"D": D, "rank2": rank2, "case_seed": [ctx.seed, it]}
        ctx.count(("distance", D, it), True)
        ctx.bump("fidelity_trace_distance")
        ov = abs((a.conj().T @ b).item())
        ok, f = call(ctx, "fidelity", lambda: (qu.fidelity(a, b), qu.fidelity(a, b, squared=True), qu.fidelity(a, r1), qu.fidelity(r1, a),
                                               qu.fidelity(r1, r2), qu.fidelity(r2, r1), qu.fidelity(r1, r2, squared=True), qu.fidelity(r1, r1),
                                               qu.fidelity(dop(a), r1), qu.fidelity(sp.csr_matrix(a), b), qu.fidelity(sp.csr_matrix(a), r1),
                                               qu.fidelity(r1, dop(a))), desc)
        F = None
        if ok:
            F = ref_fidelity(r1, r2)
            fa = math.sqrt(max(0.0, (a.conj().T @ r1 @ a).item().real))
            expect(ctx, "fidelity:ket_ket:value", close(f[0], ov) and close(f[1], ov**2), f"fidelity(kets) {f[0]} != |<a|b>| {ov}", desc)
            expect(ctx, "fidelity:ket_operator:value", close(f[2], fa) and close(f[3], fa), f"fidelity(ket, rho) {f[2]}, {f[3]} != sqrt<a|rho|a> {fa}", desc)
            expect(ctx, "fidelity:operator:value", close(f[4], F, 1e-7), f"fidelity {f[4]} != tr sqrt(sqrt(r1) r2 sqrt(r1)) = {F}", desc)
            # a singular FIRST argument goes through sqrtm of a singular matrix: separate input class
            expect(ctx, "fidelity:symmetry" if rank2 == D else "fidelity:operator:singular_first_argument", close(f[5], F, 1e-7),
                   f"fidelity(r2, r1) = {f[5]} but fidelity(r1, r2) = {f[4]} and the textbook value is {F} (rank of r2 = {rank2})",
                   {**desc, "r1": tolist(r1), "r2": tolist(r2)})
            expect(ctx, "fidelity:squared", close(f[6], F**2, 1e-7), "squared fidelity is not the square", desc)
            expect(ctx, "fidelity:self", close(f[7], 1.0, 1e-7), f"fidelity(rho, rho) = {f[7]}", desc)
            expect(ctx, "fidelity:ket_vs_projector", close(f[11], f[2], 1e-7), f"fidelity(rho, |a><a|) {f[11]} != fidelity(a, rho) {f[2]}", desc)
            expect(ctx, "fidelity:operator:singular_first_argument", close(f[8], f[2], 1e-7),
                   f"fidelity(|a><a|, rho) = {f[8]} but fidelity(a, rho) = fidelity(rho, |a><a|) = {f[2]}", {**desc, "r1": tolist(dop(a)), "r2": tolist(r1)})
            expect(ctx, "fidelity:sparse", close(f[9], f[0]) and close(f[10], f[2]), "fidelity with a sparse ket differs", desc)
            expect(ctx, "fidelity:bounds", all(-TOL <= x <= 1 + 1e-7 for x in f), "fidelity outside [0, 1]", desc)
            U = rand_unitary(g, D)
            ok2, fu = call(ctx, "fidelity", lambda: qu.fidelity(U @ r1 @ U.conj().T, U @ r2 @ U.conj().T), desc)
            if ok2:
                expect(ctx, "fidelity:unitary_invariance", close(fu, f[4], 1e-7), "fidelity not unitarily invariant", desc)
        td_ref = 0.5 * ref_trnorm(r1 - r2)
        ok, t = call(ctx, "trace_distance", lambda: (qu.trace_distance(a, b), qu.trace_distance(r1, r2), qu.trace_distance(r2, r1),
                                                     qu.trace_distance(a, r1), qu.trace_distance(r1, a), qu.trace_distance(dop(a), dop(b)),
                                                     qu.trace_distance(r1, r2, isherm=False), qu.trace_distance(sp.csr_matrix(a), sp.csr_matrix(b)),
                                                     qu.trace_distance(sp.csr_matrix(r1), r2), qu.trace_distance(r1, r1)), desc)
        if ok:
            tk = math.sqrt(max(0.0, 1 - ov**2))
            tm = 0.5 * ref_trnorm(dop(a) - r1)
            expect(ctx, "trace_distance:ket_ket:value", close(t[0], tk), f"trace_distance(kets) {t[0]} != sqrt(1-|<a|b>|^2) {tk}", desc)
            expect(ctx, "trace_distance:operator:value", close(t[1], td_ref), f"trace_distance {t[1]} != 1/2 ||r1 - r2||_1 {td_ref}", desc)
            expect(ctx, "trace_distance:symmetry", close(t[2], t[1]), "trace distance not symmetric", desc)
            expect(ctx, "trace_distance:ket_operator:value", close(t[3], tm) and close(t[4], tm), f"trace_distance(ket, rho) {t[3]}, {t[4]} != {tm}", desc)
            expect(ctx, "trace_distance:ket_vs_projector", close(t[5], t[0], 1e-7), f"trace_distance(kets) {t[0]} != trace_distance(projectors) {t[5]}", desc)
            expect(ctx, "trace_distance:isherm_false", close(t[6], t[1]), "isherm=False changes the trace distance", desc)
            expect(ctx, "trace_distance:sparse", close(t[7], t[0]) and close(t[8], t[1]), "sparse inputs give a different trace distance", desc)
            expect(ctx, "trace_distance:self", abs(t[9]) <= 1e-9, "trace_distance(rho, rho) != 0", desc)
            expect(ctx, "trace_distance:bounds", all(-TOL <= x <= 1 + 1e-7 for x in t), "trace distance outside [0, 1]", desc)
            if F is not None:
                expect(ctx, "trace_distance:fuchs_van_de_graaf", 1 - F - 1e-7 <= t[1] <= math.sqrt(max(0.0, 1 - F**2)) + 1e-7,
                       f"1 - F <= T <= sqrt(1 - F^2) violated (F={F}, T={t[1]})", desc)
        # identical pure states (also up to a global phase): distance 0, fidelity 1
        ph = np.exp(1j * g.uniform(0, 2 * np.pi))
        dk = {**desc, "psi": tolist(a)}
        try:
            t0 = (qu.trace_distance(a, a), qu.trace_distance(a, ph * a))
            expect(ctx, "trace_distance:ket_ket:identical_states", max(abs(x) for x in t0) <= 1e-7, f"trace_distance(psi, psi) = {t0}", dk)
        except Exception as e:
            ctx.violation("trace_distance:ket_ket:identical_states", f"trace_distance(psi, psi) raised {type(e).__name__}: {e}", {**dk, "error": str(e)})
        ok, f1 = call(ctx, "fidelity", lambda: qu.fidelity(a, ph * a), dk)
        if ok:
            expect(ctx, "fidelity:ket_ket:identical_states", close(f1, 1.0), f"fidelity(psi, e^(i phi) psi) = {f1}", dk)


def rand_channel(g, d, K):
    """K Kraus operators on dimension d from a random isometry (sum E^dag E = 1)"""
    V, _ = np.linalg.qr(g.normal(size=(K * d, d)) + 1j * g.normal(size=(K * d, d)))
    return [V[k * d:(k + 1) * d, :] for k in range(K)]


def digits(i, base, n):
    out = []
    for _ in range(n):
        out.append(i % base)
        i //= base
    return "".join(str(x) for x in reversed(out))


def maps_stream(ctx):
    import quimb as qu

    rng = ctx.rng
    g = np.random.default_rng(ctx.seed + 2008)
    for it in range(ctx.n(90, 900)):
        dims = gen_dims(rng, 36, 1, 4)
        n = len(dims)
        D = int(np.prod(dims))
        rank = rng.choice([1, D, rng.randint(1, D)])
        rho = rand_rho(g, D, rank)
        psi = rand_ket(g, D)
        desc = {"dims": dims, "rank": rank, "case_seed": [ctx.seed, it]}
        ctx.count(("maps", tuple(dims), rank, it), True)
        ctx.bump("maps")
        # --- purify
        if D <= 16:
            ok, pz = call(ctx, "purify", lambda: np.asarray(qu.purify(rho)), desc)
            if ok:
                expect(ctx, "purify:shape_norm", pz.shape == (D * D, 1) and close(np.linalg.norm(pz), 1.0), "purification is not a normalised ket of squared dimension", desc)
                if pz.shape == (D * D, 1):
                    expect(ctx, "purify:reduces_to_state", mclose(ref_ptr(dop(pz), [D, D], [0]), rho), "tracing the ancilla out of purify(rho) does not give rho", desc)
                    expect(ctx, "purify:quimb_ptr", mclose(np.asarray(qu.ptr(pz, [D, D], 0)), rho), "ptr(purify(rho)) != rho", desc)
        # --- kraus_op on the whole space and on a reordered subset of subsystems
        K = rng.randint(1, 3)
        Ek = rand_channel(g, D, K) if D <= 12 else [rand_unitary(g, D)]
        ok, sg = call(ctx, "kraus_op", lambda: (np.asarray(qu.kraus_op(rho, Ek, check=True)), np.asarray(qu.kraus_op(rho, np.stack(Ek)))), desc)
        if ok:
            want = sum(E @ rho @ E.conj().T for E in Ek)
            expect(ctx, "kraus_op:value", mclose(sg[0], want) and mclose(sg[1], want), "kraus_op != sum_k E_k rho E_k^dag", desc)
            expect(ctx, "kraus_op:trace_preserving", close(np.trace(sg[0]), 1.0), "valid Kraus map changed the trace", desc)
        where = gen_subset(rng, n)
        kd = int(np.prod([dims[i] for i in where]))
        if kd <= 12:
            Kw = rng.randint(1, 3)
            Ew = rand_channel(g, kd, Kw)
            dw = {**desc, "where": where, "num_kraus": Kw}
            warg = where[0] if (len(where) == 1 and rng.random() < 0.5) else where
            ok, sw = call(ctx, "kraus_op:where", lambda: np.asarray(qu.kraus_op(rho, Ew, dims=dims, where=warg, check=True)), dw)
            if ok:
                full = [ref_embed(E, dims, where) for E in Ew]
                want = sum(F @ rho @ F.conj().T for F in full)
                expect(ctx, "kraus_op:where:value", mclose(sw, want), "kraus_op(dims, where) != the Kraus operators embedded on dims[where] in the given order", dw)
                expect(ctx, "kraus_op:where:trace_preserving", close(np.trace(sw), 1.0), "valid local Kraus map changed the trace", dw)
                # the untouched subsystems keep their reduced state
                rest = [i for i in range(n) if i not in where]
                if rest:
                    expect(ctx, "kraus_op:where:rest_untouched", mclose(ref_ptr(sw, dims, rest), ref_ptr(rho, dims, rest)), "local channel changed the other subsystems", dw)
            bad = [1.1 * E for E in Ew]
            try:
                qu.kraus_op(rho, bad, dims=dims, where=where, check=True)
                ctx.violation("kraus_op:check_accepts_invalid", "check=True accepted operators with sum E^dag E != 1", dw)
            except ValueError:
                pass
            except Exception as e:
                ctx.violation("kraus_op:check:raised", f"check=True raised {type(e).__name__} instead of ValueError", {**dw, "error": str(e)[:200]})
        # --- projector and measure with a degenerate observable
        U = rand_unitary(g, D)
        lam = np.array([float(rng.choice([-1, 0, 1, 2])) for _ in range(D)])
        lam[0] = 1.0
        Aobs = (U * lam) @ U.conj().T
        Aobs = (Aobs + Aobs.conj().T) / 2
        target = float(rng.choice(sorted(set(lam))))
        Pref = (U[:, lam == target]) @ U[:, lam == target].conj().T
        dm = {**desc, "spectrum": lam.tolist(), "eigenvalue": target}
        ok, P = call(ctx, "projector", lambda: (np.asarray(qu.projector(Aobs, eigenvalue=target)), np.asarray(qu.projector(Aobs))), dm)
        if ok:
            P1 = (U[:, lam == 1.0]) @ U[:, lam == 1.0].conj().T
            expect(ctx, "projector:value", mclose(P[0], Pref) and mclose(P[1], P1), "projector != sum of |v><v| over the eigenspace", dm)
        pr = float(np.trace(Pref @ rho).real)
        pk = float((psi.conj().T @ Pref @ psi).item().real)
        if pr > 1e-3 and pk > 1e-3:
            ok, ms = call(ctx, "measure", lambda: (qu.measure(rho, Aobs, eigenvalue=target), qu.measure(psi, Aobs, eigenvalue=target),
                                                   qu.measure(dop(psi), Aobs, eigenvalue=target)), dm)
            if ok:
                (e1, s1), (e2, s2), (e3, s3) = ms
                s1, s2, s3 = np.asarray(s1), np.asarray(s2), np.asarray(s3)
                expect(ctx, "measure:operator:value", close(e1, target) and mclose(s1, Pref @ rho @ Pref / pr), "measure(rho) != P rho P / tr(P rho)", dm)
                expect(ctx, "measure:ket:value", close(e2, target) and mclose(s2, Pref @ psi / math.sqrt(pk)), "measure(ket) != P psi / sqrt<psi|P|psi>", dm)
                expect(ctx, "measure:ket_vs_projector", mclose(dop(s2), s3), "measure(ket) and measure(projector) collapse differently", dm)
                expect(ctx, "measure:normalised", close(np.trace(s1), 1.0) and close(np.linalg.norm(s2), 1.0), "post-measurement state not normalised", dm)
            # random outcome: an eigenstate of the observable is left alone and returns its eigenvalue
            vec = U[:, [int(np.argmax(lam == target))]]
            np.random.seed((ctx.seed + it) % (2**31))
            ok, mr = call(ctx, "measure:random", lambda: (qu.measure(vec, Aobs), qu.measure(rho, Aobs)), dm)
            if ok:
                (er, sr), (eo, so) = mr
                expect(ctx, "measure:random:eigenstate", close(er, target) and mclose(dop(np.asarray(sr)), dop(vec)), "measuring an eigenstate changed it or returned another eigenvalue", dm)
                expect(ctx, "measure:random:outcome", min(abs(lam - float(eo))) < 1e-9 and close(np.trace(np.asarray(so)), 1.0), "random measurement returned a non-eigenvalue or an unnormalised state", dm)
        # --- dephase
        pp = rng.random()
        ok, dp = call(ctx, "dephase", lambda: (np.asarray(qu.dephase(rho, pp)), np.asarray(qu.dephase(rho, pp, rand_rank=D))), {**desc, "p": pp})
        if ok:
            want = (1 - pp) * rho + pp * np.eye(D) / D
            expect(ctx, "dephase:value", mclose(dp[0], want) and mclose(dp[1], want), "dephase != (1-p) rho + p I/d", {**desc, "p": pp})
        kk = rng.randint(1, D)
        ok, dr = call(ctx, "dephase:rand_rank", lambda: np.asarray(qu.dephase(rho, pp, rand_rank=kk)), {**desc, "p": pp, "rand_rank": kk})
        if ok and pp > 1e-3:
            X = (dr - (1 - pp) * rho) / pp
            dg = np.diag(X).real
            okd = mclose(X, np.diag(dg), 1e-7) and int((np.abs(dg) > 1e-7).sum()) == kk and np.allclose(dg[np.abs(dg) > 1e-7], 1.0 / kk, atol=1e-7)
            expect(ctx, "dephase:rand_rank:int_1" if (kk == 1 and D > 1) else "dephase:rand_rank:value", okd and close(np.trace(dr), 1.0), "dephase(rand_rank=k) is not a mixture with a rank-k diagonal state of trace 1", {**desc, "p": pp, "rand_rank": kk})

    # --- simulate_counts
    for it in range(ctx.n(30, 300)):
        base = rng.choice([2, 2, 2, 3, 4])
        n = rng.randint(1, 4 if base == 2 else 2)
        D = base**n
        desc = {"phys_dim": base, "n": n, "case_seed": [ctx.seed, it]}
        cls = "" if base == 2 else ":phys_dim_gt_2"
        ctx.count(("counts", base, n, it), True)
        ctx.bump("simulate_counts")
        i0 = rng.randrange(D)
        e0 = np.zeros((D, 1), dtype=complex)
        e0[i0] = 1.0
        psi = rand_ket(g, D)
        psi[rng.randrange(D)] = 0.0
        psi /= np.linalg.norm(psi)
        probs = (np.abs(psi.reshape(-1)) ** 2)
        C = 4000
        sd = rng.randrange(10**6)
        ok, r = call(ctx, "simulate_counts" + cls, lambda: (qu.simulate_counts(e0, 7, phys_dim=base, seed=sd), qu.simulate_counts(psi, C, phys_dim=base, seed=sd),
                                                            qu.simulate_counts(dop(psi), C, phys_dim=base, seed=sd)), desc)
        if not ok:
            continue
        expect(ctx, "simulate_counts" + cls + ":keys", r[0] == {digits(i0, base, n): 7},
               f"basis state {digits(i0, base, n)} (phys_dim={base}) measured as {r[0]}", {**desc, "basis_index": i0})
        expect(ctx, "simulate_counts:ket_vs_projector", r[1] == r[2], "ket and density operator give different counts for the same seed", desc)
        expect(ctx, "simulate_counts:total", sum(r[1].values()) == C, "counts do not add up to C", desc)
        if base == 2:
            okf = True
            for i in range(D):
                c = r[1].get(digits(i, base, n), 0)
                sig = math.sqrt(max(0.0, C * probs[i] * (1 - probs[i]))) + 1.0
                okf = okf and abs(c - C * probs[i]) <= 6 * sig and (probs[i] > 0 or c == 0)
            expect(ctx, "simulate_counts:frequencies", okf and all(len(k) == n for k in r[1]), "frequencies are not the Born probabilities (6 sigma)", desc)


def decomp_stream(ctx):
    import inspect

    import quimb as qu

    rng = ctx.rng
    g = np.random.default_rng(ctx.seed + 2009)
    for it in range(ctx.n(40, 400)):
        n = rng.randint(1, 3)
        D = 2**n
        rho = rand_rho(g, D, rng.choice([1, D]))
        psi = rand_ket(g, D)
        desc = {"n_qubits": n, "case_seed": [ctx.seed, it]}
        ctx.count(("pauli_decomp", n, it), True)
        ctx.bump("pauli_decomp")
        ok, dc = call(ctx, "pauli_decomp", lambda: (qu.pauli_decomp(rho, mode="c"), qu.pauli_decomp(psi, mode="c"), qu.pauli_decomp(dop(psi), mode="c")), desc)
        if ok:
            def rebuild(d):
                tot = np.zeros((D, D), dtype=complex)
                for name, c in d.items():
                    op = np.eye(1)
                    for ch in name:
                        op = np.kron(op, _PAULI[ch])
                    tot = tot + c * op
                return tot

            expect(ctx, "pauli_decomp:reconstructs", len(dc[0]) == 4**n and mclose(rebuild(dc[0]), rho), "sum_P c_P P != the operator", desc)
            cz = float(np.real(np.trace(rho @ np.kron(_PAULI["Z"], np.eye(D // 2))) / D))
            expect(ctx, "pauli_decomp:coefficient", close(dc[0]["Z" + "I" * (n - 1)], cz), "coefficient != tr(a P) / 2^n", desc)
            expect(ctx, "pauli_decomp:ket_vs_projector", mclose(rebuild(dc[1]), dop(psi)) and all(close(dc[1][k], dc[2][k]) for k in dc[1]), "pauli_decomp(ket) differs from pauli_decomp(projector)", desc)
        if n == 2:
            ok, bd = call(ctx, "bell_decomp", lambda: qu.bell_decomp(rho, mode="c"), desc)
            if ok:
                okb = all(close(c, (np.asarray(qu.bell_state(int(k))).conj().T @ rho @ np.asarray(qu.bell_state(int(k)))).item()) for k, c in bd.items())
                expect(ctx, "bell_decomp:value", okb and close(sum(bd.values()), 1.0), "bell_decomp coefficients are not <bell_i|rho|bell_i>", desc)

    import scipy.sparse as sp

    for it in range(ctx.n(80, 800)):
        dims = gen_dims(rng, 48, 2, 4)
        n = len(dims)
        D = int(np.prod(dims))
        a, b = rng.sample(range(n), 2)
        A = g.normal(size=(dims[a], dims[a])) + 1j * g.normal(size=(dims[a], dims[a]))
        B = g.normal(size=(dims[b], dims[b])) + 1j * g.normal(size=(dims[b], dims[b]))
        A, B = A + A.conj().T, B + B.conj().T
        rho = rand_rho(g, D, rng.choice([1, D, rng.randint(1, D)]))
        psi = rand_ket(g, D)
        desc = {"dims": dims, "sysa": a, "sysb": b, "case_seed": [ctx.seed, it]}
        ctx.count(("correlation", tuple(dims), a, b), True)
        ctx.bump("correlation")
        FA, FB = ref_embed(A, dims, [a]), ref_embed(B, dims, [b])

        def cref(r):
            return (np.trace(FA @ FB @ r) - np.trace(FA @ r) * np.trace(FB @ r)).real

        ok, c = call(ctx, "correlation", lambda: (qu.correlation(rho, A, B, a, b, dims=dims), qu.correlation(psi, A, B, a, b, dims=dims),
                                                  qu.correlation(dop(psi), A, B, a, b, dims=dims),
                                                  qu.correlation(rho, sp.csr_matrix(A), sp.csr_matrix(B), a, b, dims=dims),
                                                  qu.correlation(None, A, B, a, b, dims=dims, precomp_func=True)(rho),
                                                  qu.correlation(rho, B, A, b, a, dims=dims)), desc)
        if ok:
            expect(ctx, "correlation:value", close(c[0], cref(rho)), f"correlation {c[0]} != <AB> - <A><B> = {cref(rho)}", desc)
            expect(ctx, "correlation:ket_vs_projector", close(c[1], cref(dop(psi))) and close(c[2], c[1]), "correlation(ket) != correlation(projector)", desc)
            expect(ctx, "correlation:sparse", close(c[3], c[0]), "sparse operators give a different correlation", desc)
            expect(ctx, "correlation:precomp_func", close(c[4], c[0]), "precomputed correlation function differs", desc)
            expect(ctx, "correlation:relabelling", close(c[5], c[0]), "correlation(A,B,a,b) != correlation(B,A,b,a)", desc)

    ntype = inspect.signature(qu.norm).parameters["ntype"].default
    for it in range(ctx.n(12, 120)):
        n = rng.randint(3, 4)
        D = 2**n
        dims = [2] * n
        pure = rng.random() < 0.5
        p = rand_ket(g, D) if pure else rand_rho(g, D)
        P = dop(p) if pure else p
        desc = {"n_qubits": n, "pure": pure, "case_seed": [ctx.seed, it]}
        ctx.count(("ent_cross_matrix", n, pure, it), True)
        ctx.bump("ent_cross_matrix")
        ok, M = call(ctx, "ent_cross_matrix", lambda: (np.asarray(qu.ent_cross_matrix(p)), np.asarray(qu.ent_cross_matrix(p, calc_self_ent=False))), desc)
        if ok:
            okm = M[0].shape == (n, n)
            for i in range(n):
                for j in range(n):
                    if not okm:
                        break
                    if i == j:
                        lam = np.clip(np.linalg.eigvalsh(ref_ptr(P, dims, [i])), 0, None)
                        want = max(0.0, math.log2(np.sqrt(lam).sum() ** 2))
                        okm = okm and close(M[0][i, i], want, 1e-6) and np.isnan(M[1][i, i])
                    else:
                        red = ref_ptr(P, dims, [i, j])
                        want = max(0.0, math.log2(ref_trnorm(ref_pt(red, [2, 2], [0]))))
                        okm = okm and close(M[0][i, j], want, 1e-7) and close(M[1][i, j], want, 1e-7)
            expect(ctx, "ent_cross_matrix:value", okm, "ent_cross_matrix entries are not the pairwise log-negativities", desc)
        a, b = rng.sample(range(n), 2)
        ok, pc = call(ctx, "pauli_correlations", lambda: (qu.pauli_correlations(p, sysa=a, sysb=b), qu.pauli_correlations(p, sysa=a, sysb=b, sum_abs=True)), {**desc, "sysa": a, "sysb": b})
        if ok:
            want = []
            for ch in "XYZ":
                FA, FB = ref_embed(_PAULI[ch], dims, [a]), ref_embed(_PAULI[ch], dims, [b])
                want.append((np.trace(FA @ FB @ P) - np.trace(FA @ P) * np.trace(FB @ P)).real)
            expect(ctx, "pauli_correlations:value", all(close(x, w) for x, w in zip(pc[0], want)) and close(pc[1], sum(abs(w) for w in want)),
                   "pauli_correlations != <ss> - <s><s>", {**desc, "sysa": a, "sysb": b})
        if ntype in (2, "2"):
            ok, qd = call(ctx, "qid", lambda: (qu.qid(p, dims, [a, b]), qu.qid(P, dims, [a, b], sparse_comp=False)), {**desc, "inds": [a, b]})
            if ok:
                want = []
                for i in (a, b):
                    tot = 0.0
                    for ch in "XYZ":
                        F = ref_embed(_PAULI[ch], dims, [i])
                        tot += np.linalg.norm(P @ F - F @ P, 2) ** 2
                    want.append(tot)
                expect(ctx, "qid:value", all(close(x, w, 1e-6) for x, w in zip(qd[0], want)) and all(close(x, w, 1e-6) for x, w in zip(qd[1], want)),
                       "qid != sum_s ||[rho, s_i]||^2", {**desc, "inds": [a, b]})


def lazy_stream(ctx):
    import quimb as qu
    import quimb.linalg.approx_spectral as qa

    rng = ctx.rng
    g = np.random.default_rng(ctx.seed + 2010)
    for it in range(ctx.n(40, 400)):
        dims = gen_dims(rng, 64, 2, 4)
        n = len(dims)
        D = int(np.prod(dims))
        psi = rand_ket(g, D)
        P = dop(psi)
        A = gen_subset(rng, n, 1, n - 1)
        desc = {"dims": dims, "sysa": A, "case_seed": [ctx.seed, it]}
        ctx.count(("lazy", tuple(dims), tuple(A)), True)
        ctx.bump("lazy_operators")
        ok, r = call(ctx, "lazy_ptr_linop", lambda: qa.lazy_ptr_linop(psi, dims, A), desc)
        if ok:
            da = [dims[i] for i in A]
            sA = sorted(A)
            want = ref_ptr(P, dims, sA)  # ascending order -> reorder to the order given in sysa
            k = len(A)
            pm = [sA.index(i) for i in A]
            want = want.reshape([dims[i] for i in sA] * 2).transpose(pm + [q + k for q in pm]).reshape(int(np.prod(da)), -1)
            v = g.normal(size=(want.shape[0],)) + 1j * g.normal(size=(want.shape[0],))
            ok2, out = call(ctx, "lazy_ptr_linop", lambda: (np.asarray(r.to_dense()), np.asarray(r @ v)), desc)
            if ok2:
                expect(ctx, "lazy_ptr_linop:dense", mclose(out[0], want, 1e-10), "lazy_ptr_linop is not the reduced density operator", desc)
                expect(ctx, "lazy_ptr_linop:matvec", mclose(out[1].reshape(-1), want @ v, 1e-10), "lazy_ptr_linop @ v != rho_A v", desc)
        rest = [i for i in range(n) if i not in A]
        B = rng.sample(rest, rng.randint(1, len(rest)))
        d3 = {**desc, "sysb": B}
        keep = sorted(A + B)
        kd = [dims[i] for i in keep]
        want = ref_pt(ref_ptr(P, dims, keep), kd, [keep.index(i) for i in A])
        ok, out = call(ctx, "lazy_ptr_ppt_linop", lambda: np.asarray(qa.lazy_ptr_ppt_linop(psi, dims, A, B).to_dense()), d3)
        if ok:
            expect(ctx, "lazy_ptr_ppt_linop:dense", mclose(out, want, 1e-10), "lazy_ptr_ppt_linop is not the partially transposed reduced operator", d3)
    if ctx.quick:
        return
    # approximate (stochastic Lanczos) paths: loose tolerance, thorough tier only
    for it in range(10):
        dims = [rng.choice([2, 3, 4]) for _ in range(rng.randint(3, 4))]
        n = len(dims)
        D = int(np.prod(dims))
        psi = rand_ket(g, D)
        P = dop(psi)
        A = gen_subset(rng, n, 1, n - 2)
        rest = [i for i in range(n) if i not in A]
        B = rng.sample(rest, rng.randint(1, len(rest) - 1)) if len(rest) > 1 else rest
        desc = {"dims": dims, "sysa": A, "sysb": B, "case_seed": [ctx.seed, it]}
        ctx.bump("approx_paths")
        ctx.count(("approx", tuple(dims), tuple(A), tuple(B)), True)
        keep = sorted(A + B)
        kd = [dims[i] for i in keep]
        nrm = ref_trnorm(ref_pt(ref_ptr(P, dims, keep), kd, [keep.index(i) for i in A]))
        s_ref = ref_entropy(ref_ptr(P, dims, A))
        lam = np.clip(np.linalg.eigvalsh(ref_ptr(P, dims, A)), 0, None)
        qu.seed_rand(ctx.seed + 77 + it)
        ok, r = call(ctx, "approx", lambda: (qu.entropy_subsys_approx(psi, dims, A), qa.tr_sqrt_subsys_approx(psi, dims, A),
                                             qu.logneg_subsys_approx(psi, dims, A, B), qu.negativity_subsys_approx(psi, dims, A, B),
                                             qu.entropy_subsys(psi, dims, A, approx_thresh=2)), desc)
        if ok:
            loose = lambda x, w: abs(x - w) <= 0.25 * (1 + abs(w))  # noqa
            expect(ctx, "approx:entropy_subsys", loose(r[0], s_ref) and loose(r[4], s_ref), f"entropy_subsys_approx {r[0]}, {r[4]} far from {s_ref}", desc)
            expect(ctx, "approx:tr_sqrt_subsys", loose(r[1], np.sqrt(lam).sum()), f"tr_sqrt_subsys_approx {r[1]} far from {np.sqrt(lam).sum()}", desc)
            expect(ctx, "approx:logneg_subsys", loose(r[2], max(0.0, math.log2(nrm))) and loose(r[3], max(0.0, (nrm - 1) / 2)),
                   f"logneg / negativity_subsys_approx {r[2]}, {r[3]} far from {math.log2(nrm)}, {(nrm - 1) / 2}", desc)


def corpus_stage(ctx):
    """minimised past failures (corpus/C20/*.json), run first"""
    import glob
    import json
    import os

    import quimb as qu
    import scipy.sparse as sp

    here = os.path.join(os.path.dirname(os.path.dirname(os.path.abspath(__file__))), "corpus", "C20")
    for path in sorted(glob.glob(os.path.join(here, "*.json"))):
        with open(path) as f:
            c = json.load(f)
        g = np.random.default_rng(c.get("rng", 0))
        kind = c["kind"]
        desc = {"corpus": os.path.basename(path), **c}
        ctx.count(("corpus", os.path.basename(path)), True)
        ctx.bump("corpus")
        if kind == "trace_distance_self":
            for _ in range(c["n"]):
                psi = rand_ket(g, c["D"])
                try:
                    t = qu.trace_distance(psi, psi)
                    expect(ctx, "trace_distance:ket_ket:identical_states", abs(t) <= 1e-7, f"trace_distance(psi, psi) = {t}", {**desc, "psi": tolist(psi)})
                except Exception as e:
                    ctx.violation("trace_distance:ket_ket:identical_states", f"trace_distance(psi, psi) raised {type(e).__name__}: {e}", {**desc, "psi": tolist(psi)})
        elif kind == "counts_basis":
            b, n, i0 = c["phys_dim"], c["n"], c["index"]
            e0 = np.zeros((b**n, 1), dtype=complex)
            e0[i0] = 1.0
            ok, r = call(ctx, "simulate_counts:phys_dim_gt_2", lambda: qu.simulate_counts(e0, 5, phys_dim=b, seed=1), desc)
            if ok:
                expect(ctx, "simulate_counts:phys_dim_gt_2:keys", r == {digits(i0, b, n): 5}, f"basis state {digits(i0, b, n)} (phys_dim={b}) measured as {r}", desc)
        elif kind == "discord_order":
            rho = rand_rho(g, 4)
            d_a = ref_discord(rho, 0)
            ok, d2 = call(ctx, "quantum_discord", lambda: qu.quantum_discord(rho, (2, 2), 1, 0), desc)
            d_b = ref_discord(rho, 1)
            if ok and abs(d_a - d_b) > 1e-4 and close(d2, d_b, 1e-6):
                expect(ctx, "quantum_discord:sysa_gt_sysb", False, f"quantum_discord(sysa=1, sysb=0) = {d2}, discord with A=1 measured on B=0 is {d_a}", {**desc, "rho": tolist(rho)})
            elif ok:
                discord_expect(ctx, "quantum_discord:sysa_gt_sysb:value", d2, d_a, "discord with A=1 measured on B=0", {**desc, "rho": tolist(rho)})
        elif kind == "discord_value":
            rho = fromlist(c["rho"])
            rho = (rho + rho.conj().T) / 2
            rho = rho / np.trace(rho).real
            ok, d = call(ctx, "quantum_discord", lambda: qu.quantum_discord(rho), {"corpus": os.path.basename(path)})
            if ok:
                discord_expect(ctx, "quantum_discord:value", d, ref_discord(rho, 1), "I(A:B) - max_B J(A|B)", desc)
        elif kind == "fidelity_singular":
            D = c["D"]
            a, r1 = rand_ket(g, D), rand_rho(g, D)
            ok, f = call(ctx, "fidelity", lambda: (qu.fidelity(dop(a), r1), qu.fidelity(a, r1)), desc)
            if ok:
                expect(ctx, "fidelity:operator:singular_first_argument", close(f[0], f[1], 1e-7), f"fidelity(|a><a|, rho) = {f[0]} but fidelity(a, rho) = {f[1]}", desc)
        elif kind == "dephase_rank1":
            D = c["D"]
            rho = rand_rho(g, D)
            ok, out = call(ctx, "dephase:rand_rank", lambda: np.asarray(qu.dephase(rho, 0.5, rand_rank=1)), desc)
            if ok:
                dg = np.diag((out - 0.5 * rho) / 0.5).real
                expect(ctx, "dephase:rand_rank:int_1", int((np.abs(dg) > 1e-7).sum()) == 1, f"dephase(rand_rank=1) mixes with diag {np.round(dg, 4).tolist()}", desc)
        elif kind == "logneg_sparse_all":
            dims = c["dims"]
            psi = rand_ket(g, int(np.prod(dims)))
            ok, r = call(ctx, "logneg:sparse_ket:sysa_is_everything", lambda: qu.logneg(sp.csr_matrix(psi), dims, list(range(len(dims)))), desc)
            if ok:
                expect(ctx, "logneg:sparse", close(r, 0.0), "logneg of the trivial bipartition != 0", desc)


def rand_isometry(g, d, k):
    q, _ = np.linalg.qr(g.normal(size=(d, k)) + 1j * g.normal(size=(d, k)))
    return q[:, :k]


def schmidt_state(g, dims, A, coeffs):
    """sum_k c_k |a_k>|b_k> across the cut A | complement with random orthonormal
    local bases: the spectrum of either reduced state is exactly c_k^2 (no
    eigensolver needed).  coeffs = [1] is a product state across the cut,
    [s, s] with s = 1/sqrt 2 a 'Bell pair' across the cut."""
    n = len(dims)
    sA = sorted(set(A))
    Bc = [i for i in range(n) if i not in sA]
    da = int(np.prod([dims[i] for i in sA]))
    db = int(np.prod([dims[i] for i in Bc])) if Bc else 1
    k = len(coeffs)
    UA, UB = rand_isometry(g, da, k), rand_isometry(g, db, k)
    M = (UA * np.asarray(coeffs, dtype=float)) @ UB.T
    T = M.reshape([dims[i] for i in sA] + [dims[i] for i in Bc])
    order = sA + Bc
    T = T.transpose([order.index(i) for i in range(n)])
    return T.reshape(-1, 1)


def _side_sizes(dims, S):
    a = int(np.prod([dims[i] for i in set(S)]))
    return a, int(np.prod(dims)) // a


def _known_states(g, dims, A):
    """(name, ket, spectrum of the reduced state) with the spectrum known exactly or from an SVD"""
    sa, sb = _side_sizes(dims, A)
    out = [("product", schmidt_state(g, dims, A, [1.0]), np.array([1.0]))]
    if min(sa, sb) >= 2:
        out.append(("bell_pair", schmidt_state(g, dims, A, [2**-0.5, 2**-0.5]), np.array([0.5, 0.5])))
        out.append(("schmidt_3_1", schmidt_state(g, dims, A, [0.75**0.5, 0.25**0.5]), np.array([0.75, 0.25])))
    psi = rand_ket(g, int(np.prod(dims)))
    n = len(dims)
    sA = sorted(set(A))
    Bc = [i for i in range(n) if i not in sA]
    Mx = psi.reshape(dims).transpose(sA + Bc).reshape(sa, sb)
    out.append(("random", psi, np.linalg.svd(Mx, compute_uv=False) ** 2))
    return out


def _spec_entropy(lam):
    lam = lam[lam > 1e-300]
    return float(-(lam * np.log2(lam)).sum())


def threshold_oracle(ctx, dims, A, thresh, extra, fns=("entropy_subsys", "tr_sqrt_subsys", "logneg_subsys", "mutinf_subsys", "mutinf")):
    """a pure state across A | complement: whenever the SMALLER side is below approx_thresh the
    exact value is required, however large the requested side is"""
    import quimb as qu

    g = np.random.default_rng(ctx.seed + 2011 + int(np.prod(dims)) + len(A))
    n = len(dims)
    Bc = [i for i in range(n) if i not in A]
    sa, sb = _side_sizes(dims, A)
    tval = 2**13 if thresh == "default" else thresh
    if tval is not None and min(sa, sb) >= tval:
        return
    cls = "requested_side_large" if (tval is not None and sa >= tval) else "both_sides_small"
    kw = {} if thresh == "default" else {"approx_thresh": thresh}
    for name, psi, lam in _known_states(g, dims, A):
        desc = {"dims": dims, "sysa": A, "approx_thresh": thresh, "state": name, "size_a": sa, "size_b": sb, **extra}
        if psi.shape[0] <= 64:
            desc["psi"] = tolist(psi)
        s_ref = _spec_entropy(lam) if Bc else 0.0
        t_ref = float(np.sqrt(lam).sum()) if Bc else 1.0
        if "entropy_subsys" in fns:
            ok, v = call(ctx, "entropy_subsys:threshold", lambda: qu.entropy_subsys(psi, dims, A, **kw), desc)
            if ok:
                expect(ctx, f"entropy_subsys:{cls}:smaller_side_below_threshold", close(v, s_ref),
                       f"entropy_subsys = {v} but the exact entropy is {s_ref} ({name} state, sides {sa} x {sb}, approx_thresh={thresh})", desc)
        if "tr_sqrt_subsys" in fns:
            ok, v = call(ctx, "tr_sqrt_subsys:threshold", lambda: qu.calc.tr_sqrt_subsys(psi, dims, A, **kw), desc)
            if ok:
                expect(ctx, f"tr_sqrt_subsys:{cls}:smaller_side_below_threshold", close(v, t_ref, 1e-7),
                       f"tr_sqrt_subsys = {v} but the exact value is {t_ref} ({name} state, sides {sa} x {sb}, approx_thresh={thresh})", desc)
        if Bc and "logneg_subsys" in fns:
            ok, v = call(ctx, "logneg_subsys:threshold", lambda: qu.logneg_subsys(psi, dims, A, Bc, **kw), desc)
            if ok:
                expect(ctx, f"logneg_subsys:{cls}:smaller_side_below_threshold", close(v, max(0.0, 2 * math.log2(t_ref)), 1e-7),
                       f"logneg_subsys (pure bipartition) = {v} but the exact value is {2 * math.log2(t_ref)} ({name} state, approx_thresh={thresh})", desc)
        if Bc and "mutinf_subsys" in fns:
            ok, v = call(ctx, "mutinf_subsys:threshold", lambda: qu.mutinf_subsys(psi, dims, A, Bc, **kw), desc)
            if ok:
                expect(ctx, f"mutinf_subsys:{cls}:smaller_side_below_threshold", close(v, 2 * s_ref),
                       f"mutinf_subsys (pure bipartition) = {v} but the exact value is {2 * s_ref} ({name} state, approx_thresh={thresh})", desc)
        if thresh == "default" and "mutinf" in fns:
            ok, v = call(ctx, "mutinf:ket:threshold", lambda: qu.mutinf(psi, dims, A), desc)
            if ok:
                expect(ctx, f"mutinf:ket:{cls}:smaller_side_below_threshold", close(v, 2 * s_ref),
                       f"mutinf(ket) = {v} but the exact value is {2 * s_ref} ({name} state)", desc)


def threshold_stream(ctx):
    """'requested side large, complement tiny, threshold small' (and neighbours)"""
    rng = ctx.rng
    fixed = [([16, 2], [0], 8), ([2, 16], [1], 8), ([4, 4, 2], [0, 1], 8), ([2, 8, 3], [1, 2], 16), ([4, 2, 4], [2, 0], 5),
             ([3, 4, 2, 4], [3, 1, 0], 6), ([2, 16], [0], 8), ([4, 4], [0], 4), ([3, 3, 4], [0, 1], 9)]
    for dims, A, t in fixed:
        ctx.count(("threshold", tuple(dims), tuple(A), t), True)
        ctx.bump("threshold_small")
        threshold_oracle(ctx, dims, A, t, {})
    for it in range(ctx.n(25, 300)):
        dims = gen_dims(rng, 96, 2, 4)
        n = len(dims)
        A = gen_subset(rng, n, 1, n - 1)
        sa, sb = _side_sizes(dims, A)
        lo, hi = min(sa, sb), max(sa, sb)
        t = rng.choice([lo + 1, hi, rng.randint(lo + 1, max(lo + 1, hi)), hi + 1])
        ctx.count(("threshold", tuple(dims), tuple(A), t), sa > sb)
        ctx.bump("threshold_random")
        threshold_oracle(ctx, dims, A, t, {"case_seed": [ctx.seed, it]})
    # the default threshold 2**13: a big requested side with a qubit / qutrit complement
    for dims, A in ctx.n([([2**13, 2], [0])], [([2**13, 2], [0]), ([3, 2**13], [1]), ([2**7, 2, 2**6], [0, 2])]):
        ctx.count(("threshold_default", tuple(dims), tuple(A)), True)
        ctx.bump("threshold_default")
        threshold_oracle(ctx, dims, A, "default", {})


def _dense(x):
    return x.toarray() if hasattr(x, "toarray") else np.asarray(x)


def _non_involutive_perm(rng, n):
    while True:
        perm = list(range(n))
        rng.shuffle(perm)
        if [perm[perm[i]] for i in range(n)] != list(range(n)):
            return perm


def relabel_sparse_stream(ctx):
    """subsystem relabelling of SPARSE states with unequal dimensions and permutations that are
    not their own inverse (3-cycles, 4-cycles), through quimb's own permute, and every measure
    that accepts a sparse ket / operator"""
    import quimb as qu
    import scipy.sparse as sp

    rng = ctx.rng
    g = np.random.default_rng(ctx.seed + 2012)
    for it in range(ctx.n(45, 500)):
        while True:
            dims = gen_dims(rng, 96, 3, 4)
            if len(set(dims)) >= 2:
                break
        n = len(dims)
        D = int(np.prod(dims))
        perm = _non_involutive_perm(rng, n) if rng.random() < 0.85 else rng.sample(range(n), n)
        nd = [dims[p] for p in perm]
        fmt = rng.choice(["csr", "csr", "csc", "coo"])
        psi = rand_ket(g, D)
        # a genuinely sparse ket as well: half of the amplitudes removed
        if rng.random() < 0.5:
            psi[g.random(D) < 0.5] = 0.0
            if np.linalg.norm(psi) < 1e-6:
                psi[0] = 1.0
            psi = psi / np.linalg.norm(psi)
        rho = rand_rho(g, D, rng.choice([1, 2, D]))
        r2 = rand_rho(g, D)
        A = gen_subset(rng, n, 1, n - 1)
        nA = [perm.index(i) for i in A]
        desc = {"dims": dims, "perm": perm, "sysa": A, "format": fmt, "case_seed": [ctx.seed, it]}
        if D <= 36:
            desc["psi"] = tolist(psi)
        ctx.count(("relabel_sparse", tuple(dims), tuple(perm), tuple(A)), [perm[perm[i]] for i in range(n)] != list(range(n)))
        ctx.bump("relabel_sparse")
        if it < 1:
            ctx.sample({"stream": "relabel_sparse", **{k: v for k, v in desc.items() if k != "psi"}})
        ok, pk = call(ctx, "permute:sparse_ket", lambda: qu.permute(sp.csr_matrix(psi).asformat(fmt), dims, perm), desc)
        ok2, po = call(ctx, "permute:sparse_operator", lambda: qu.permute(sp.csr_matrix(rho).asformat(fmt), dims, perm), desc)
        okd, pd = call(ctx, "permute:dense", lambda: (np.asarray(qu.permute(psi, dims, perm)), np.asarray(qu.permute(rho, dims, perm))), desc)
        wk, wo = ref_permute(psi, dims, perm), ref_permute(rho, dims, perm)
        if okd:
            expect(ctx, "permute:dense:value", mclose(pd[0], wk, 1e-12) and mclose(pd[1], wo, 1e-12), "permute(dense) != reshape-transpose", desc)
        if ok:
            pkd = pk.toarray() if sp.issparse(pk) else np.asarray(pk)
            expect(ctx, "permute:sparse_ket:value", mclose(pkd, wk, 1e-12),
                   f"permute(sparse ket) != permute(dense ket) = reshape-transpose (shape {pkd.shape} vs {wk.shape})", desc)
        if ok2:
            pod = po.toarray() if sp.issparse(po) else np.asarray(po)
            expect(ctx, "permute:sparse_operator:value", mclose(pod, wo, 1e-12),
                   f"permute(sparse operator) != permute(dense operator) (shape {pod.shape} vs {wo.shape})", desc)
        if not ok:
            continue
        pk = sp.csr_matrix(pk)
        # measures on the relabelled sparse ket = measures on the original ket
        P = dop(psi)
        Bc = [i for i in range(n) if i not in A]
        lam = np.clip(np.linalg.eigvalsh(ref_ptr(P, dims, A)), 0, None)
        s_ref = _spec_entropy(lam)
        ev = np.concatenate([np.sort(lam)[::-1], [0.0]])
        ln_ref = max(0.0, math.log2(ref_trnorm(ref_pt(P, dims, A))))
        okm, r = call(ctx, "relabelling:sparse_ket", lambda: (qu.entropy_subsys(pk, nd, nA), qu.mutinf(pk, nd, nA), qu.schmidt_gap(pk, nd, nA),
                                                              qu.logneg(pk, nd, nA), qu.negativity(pk, nd, nA)), desc)
        if okm:
            expect(ctx, "entropy_subsys:relabelling:sparse_ket", close(r[0], s_ref, 1e-7), f"entropy_subsys of the relabelled sparse ket {r[0]} != {s_ref}", desc)
            expect(ctx, "mutinf:relabelling:sparse_ket", close(r[1], 2 * s_ref, 1e-7), f"mutinf of the relabelled sparse ket {r[1]} != {2 * s_ref}", desc)
            expect(ctx, "schmidt_gap:relabelling:sparse_ket", close(r[2], float(ev[0] - ev[1]), 1e-7), "schmidt_gap of the relabelled sparse ket differs", desc)
            expect(ctx, "logneg:relabelling:sparse_ket", close(r[3], ln_ref, 1e-6) and close(r[4], max(0.0, (2**ln_ref - 1) / 2), 1e-6),
                   f"logneg / negativity of the relabelled sparse ket {r[3]}, {r[4]} != {ln_ref}", desc)
        k = rng.randint(1, n - 1) if n > 2 else 1
        SA = rng.sample(range(n), k)
        rest = [i for i in range(n) if i not in SA]
        SB = rng.sample(rest, rng.randint(1, len(rest)))
        nSA, nSB = [perm.index(i) for i in SA], [perm.index(i) for i in SB]
        d3 = {**desc, "sysa": SA, "sysb": SB}
        keep = sorted(SA + SB)
        red = ref_ptr(P, dims, keep)
        kd = [dims[i] for i in keep]
        ls_ref = max(0.0, math.log2(ref_trnorm(ref_pt(red, kd, [keep.index(i) for i in SA]))))
        ms_ref = ref_entropy(ref_ptr(P, dims, SA)) + ref_entropy(ref_ptr(P, dims, SB)) - ref_entropy(red)
        okm, r = call(ctx, "relabelling:sparse_ket", lambda: (qu.mutinf_subsys(pk, nd, nSA, nSB), qu.logneg_subsys(pk, nd, nSA, nSB)), d3)
        if okm:
            expect(ctx, "mutinf_subsys:relabelling:sparse_ket", close(r[0], ms_ref, 1e-6), f"mutinf_subsys of the relabelled sparse ket {r[0]} != {ms_ref}", d3)
            expect(ctx, "logneg_subsys:relabelling:sparse_ket", close(r[1], ls_ref, 1e-6), f"logneg_subsys of the relabelled sparse ket {r[1]} != {ls_ref}", d3)
        # sparse operators: distances are invariant under a common relabelling; ptr-based entropies
        if ok2:
            okm, r = call(ctx, "relabelling:sparse_operator", lambda: (qu.trace_distance(po, ref_permute(r2, dims, perm)), qu.fidelity(pk, ref_permute(r2, dims, perm)),
                                                                   qu.entropy(_dense(qu.ptr(sp.csr_matrix(po), nd, nA)))), desc)
            if okm:
                expect(ctx, "trace_distance:relabelling:sparse_operator", close(r[0], 0.5 * ref_trnorm(rho - r2)), "trace distance changed under a common sparse relabelling", desc)
                expect(ctx, "fidelity:relabelling:sparse_ket", close(r[1], math.sqrt(max(0.0, (psi.conj().T @ r2 @ psi).item().real))), "fidelity changed under a common sparse relabelling", desc)
                expect(ctx, "entropy:relabelling:sparse_operator", close(r[2], ref_entropy(ref_ptr(rho, dims, A)), 1e-7),
                       "entropy of the reduced relabelled sparse operator differs", desc)


# ----------------------------------------------------------------------------
# projector / measure with a caller-supplied tolerance and near-degenerate levels
#
# correspondence 4 (exact): eigenvalues on the grid k / 2**24, a tolerance on or off
# the grid, eigenvectors with entries in {0, +-1, +-i} or {+-1/2, +-i/2}, states with
# dyadic Gaussian-rational entries and norm / trace exactly 1: every float operation
# of measure() up to the final division is exact, so (outcome, group of eigenvectors
# projected on, normaliser) is READ OFF the returned state and compared inside Coq
# with measure_model / measure_sampled / group.  The same cases go through a direct
# oracle whose selection is recomputed here in integer arithmetic.

GRID = 24        # eigenvalues are k / 2**GRID
PSC = 128        # probabilities are multiples of 1 / PSC
DEFAULT_TOL = 1e-12
PHASES = [1, -1, 1j, -1j]
H4 = np.array([[1, 1, 1, 1], [1, -1, 1, -1], [1, 1, -1, -1], [1, -1, -1, 1]], dtype=complex) / 2
KET_AMPS = {2: [[2 + 2j, 2 + 2j]], 3: [[2 + 2j, 2, 2]], 4: [[2, 2, 2, 2], [3, 2, 1 + 1j, 1]], 5: [[3, 2, 1, 1, 1]],
            6: [[2, 2, 2, 1, 1 + 1j, 1]]}


def _tol_z(tol):
    """the integer t with (x < t) == (x / 2**GRID < tol) for every integer x"""
    from fractions import Fraction

    f = Fraction(tol) * 2**GRID
    return int(-((-f.numerator) // f.denominator))


def _signed_perm(rng, d, phases=PHASES):
    perm = list(range(d))
    rng.shuffle(perm)
    M = np.zeros((d, d), dtype=complex)
    for j in range(d):
        M[perm[j], j] = rng.choice(phases)
    return M


def _exact_eigvecs(rng, d):
    if d == 4 and rng.random() < 0.5:
        return _signed_perm(rng, 4) @ H4 @ _signed_perm(rng, 4, [1, -1]), "hadamard"
    return _signed_perm(rng, d), "signed_permutation"


def _exact_levels(rng, d):
    """grid positions of d levels in 1..3 clusters of near-degenerate (or degenerate) levels"""
    one = 2**GRID
    ncl = rng.randint(1, min(3, d))
    centres = rng.sample([-2 * one, -one, 0, one // 4, one, 2 * one, 3 * one], ncl)
    u = rng.choice([1, 3, 16, 2**10, 2**14])  # spacing inside a cluster: 6e-8 .. 1e-3
    ks = []
    for i in range(d):
        c = centres[i] if i < ncl else rng.choice(centres)
        ks.append(c + u * rng.choice([0, 0, 1, 2, 3, -1, -2]))
    if rng.random() < 0.6:
        ks.sort()  # what eigh returns; an arbitrary order is allowed for a supplied decomposition
    else:
        rng.shuffle(ks)
    return ks, u


def _exact_tol(rng, u):
    """None = the argument is omitted; else (float tolerance, description)"""
    g = float(2**GRID)
    c = rng.choice(["omitted", "grid", "grid", "grid", "float", "float", "wide"])
    if c == "omitted":
        return None
    if c == "grid":
        m = rng.choice([u, u + 1, 2 * u, 2 * u + 1, 3 * u, 3 * u + 1, 4 * u + 1])
        return m / g
    if c == "float":
        return rng.choice([2.0**-44, 1e-12, 1e-9, 1e-7, 1e-5, 1e-3, 0.3])
    return rng.choice([1.0, 100.0])


def _exact_state(rng, d, V, kind):
    """normalised exact state with a non-zero probability on every eigenvector, or None"""
    for _ in range(20):
        if kind in ("ket", "projector"):
            amps = list(rng.choice(KET_AMPS[d]))
            rng.shuffle(amps)
            psi = np.array([a * rng.choice(PHASES) for a in amps], dtype=complex).reshape(d, 1) / 4
            pj = np.abs(V.conj().T @ psi).reshape(-1) ** 2
            p = psi if kind == "ket" else psi @ psi.conj().T
        else:
            b = np.array([rng.choice([0, 1, -1, 1j, -1j, 1 + 1j]) for _ in range(d)], dtype=complex).reshape(d, 1)
            Dg = np.array([float(rng.choice([1, 2, 3])) for _ in range(d)])
            M = b @ b.conj().T + np.diag(Dg)
            M[0, 0] += 32 - np.trace(M).real
            p = M / 32
            pj = np.einsum("kj,kl,lj->j", V.conj(), p, V).real
        pz = np.round(pj * PSC)
        if np.all(pz > 0) and np.all(np.abs(pz - pj * PSC) < 1e-9) and int(pz.sum()) == PSC:
            return p, [int(x) for x in pz]
    return None


def _tol_class(ks, klam, tol):
    """input class of a (levels, outcome, tol) triple"""
    tz = _tol_z(DEFAULT_TOL if tol is None else tol)
    dz = _tol_z(DEFAULT_TOL)
    sel = [abs(k - klam) < tz for k in ks]
    seld = [abs(k - klam) < dz for k in ks]
    if tol is None:
        cls = "default_tol"
    elif any(abs(k - klam) == tz and tz * 2.0**-GRID == tol for k in ks):
        cls = "level_exactly_tol_away"
    elif sel != seld:
        cls = "near_degenerate_levels_grouped_by_tol"
    else:
        cls = "tol_selects_the_default_group"
    return cls, sel, tz


def _read_collapse(V, after, pz):
    """(group of eigenvectors the returned state is supported on, normaliser * PSC) read off the result"""
    after = np.asarray(after)
    if after.shape[1] == 1:
        w = np.abs(V.conj().T @ after).reshape(-1) ** 2
    else:
        w = np.einsum("kj,kl,lj->j", V.conj(), after, V).real
    if not np.all(np.isfinite(w)) or w.sum() <= 0:
        return None
    grp = [j for j in range(len(pz)) if w[j] > 1e-9]
    tot = sum(pz[j] for j in grp) / float(w.sum())
    return grp, tot


def measure_tol_stream(ctx):
    import quimb as qu

    rng = ctx.rng
    cases, info = [], {}
    cid = 0
    g = float(2**GRID)
    for it in range(ctx.n(150, 2500)):
        d = rng.randint(2, 6)
        ks, u = _exact_levels(rng, d)
        V, vkind = _exact_eigvecs(rng, d)
        el = np.array(ks, dtype=float) / g
        tol = _exact_tol(rng, u)
        kw = {} if tol is None else {"tol": tol}
        kind = rng.choice(["ket", "operator", "projector"])
        st = _exact_state(rng, d, V, kind)
        if st is None:
            continue
        p, pz = st
        sampled = rng.random() < 0.3
        if sampled:
            klam = None
        elif rng.random() < 0.75:
            klam = rng.choice(ks)
        else:  # an outcome that is not itself a level (only if its group is not empty)
            klam = rng.choice(ks) + rng.choice([1, -1, u, -u, 2 * u + 1])
            if not any(abs(k - klam) < _tol_z(DEFAULT_TOL if tol is None else tol) for k in ks):
                klam = rng.choice(ks)
        A = (el, qu.qu(V)) if rng.random() < 0.7 else [el, qu.qu(V)]
        pin = qu.qu(p) if rng.random() < 0.5 else p
        desc = {"levels_times_2^24": ks, "eigenvectors": vkind, "V": tolist(V), "state_kind": kind, "state": tolist(p), "tol": tol,
                "eigenvalue": None if sampled else klam / g, "sampled": sampled, "case_seed": [ctx.seed, it]}
        if sampled:
            sd = (ctx.seed * 7919 + it) % (2**31)
            np.random.seed(sd)
            desc["np_random_seed"] = sd
            ok, res = call(ctx, "measure:prediagonalised:sampled", lambda: qu.measure(pin, A, **kw), desc)
        else:
            lam_arg = rng.choice([float(klam / g), np.float64(klam / g)])
            ok, res = call(ctx, "measure:prediagonalised", lambda: qu.measure(pin, A, eigenvalue=lam_arg, **kw), desc)
        if not ok:
            continue
        r, after = res
        after = np.asarray(after)
        kr = float(r) * g
        if sampled:
            # the sampled outcome must be one of the levels (all have non-zero probability)
            if not expect(ctx, "measure:prediagonalised:sampled:outcome", kr in [float(k) for k in ks], f"sampled outcome {r} is not an eigenvalue", desc):
                continue
            klam = int(kr)
            jlam = ks.index(klam)
        else:
            expect(ctx, "measure:prediagonalised:outcome", kr == float(klam), f"measure returned {r} for the requested eigenvalue {klam / g}", desc)
        cls, sel, tz = _tol_class(ks, klam, tol)
        desc["input_class"] = cls
        ctx.count(("measure_tol", d, tuple(k - min(ks) for k in ks), klam - min(ks), tol, kind, sampled), cls != "default_tol" and sel.count(True) < d)
        ctx.bump("measure_tol_" + cls)
        # --- direct oracle (exact data: only the final division / square root rounds)
        tot = sum(pz[j] for j in range(d) if sel[j]) / PSC
        Pref = V[:, sel] @ V[:, sel].conj().T
        want = Pref @ p / math.sqrt(tot) if kind == "ket" else Pref @ p @ Pref / tot
        key = f"measure:prediagonalised:{cls}" + (":sampled" if sampled else "")
        nrm = float(np.linalg.norm(after) ** 2) if kind == "ket" else float(np.trace(after).real)
        expect(ctx, key + ":normalised", abs(nrm - 1.0) <= 1e-12, f"post-measurement state has norm^2 / trace {nrm!r}", desc)
        expect(ctx, key + ":value", after.shape == want.shape and mclose(after, want, 1e-12),
               "measure != P p / sqrt<p|P|p> resp. P rho P / tr(P rho) with P the projector on ALL levels within tol of the outcome", desc)
        ok2, P = call(ctx, "projector:prediagonalised", lambda: np.asarray(qu.projector(A, klam / g, **kw)), desc)
        if ok2:
            expect(ctx, f"projector:prediagonalised:{cls}:value", P.shape == Pref.shape and np.array_equal(P, Pref),
                   "projector != sum of |v><v| over the levels within tol of the eigenvalue", desc)
        # --- correspondence with the Coq model
        obs = _read_collapse(V, after, pz)
        if obs is None or abs(obs[1] - round(obs[1])) > 1e-6:
            continue  # not a state / normaliser off the probability grid: the oracle above has reported it
        model = f"measure_sampled {zlist(ks)} {zlist(pz)} {natlit(jlam)} {zlit(tz)}" if sampled else f"measure_model {zlist(ks)} {zlist(pz)} {zlit(klam)} {zlit(tz)}"
        cid += 1
        info[cid] = {**desc, "observed": {"outcome_times_2^24": int(kr), "group": obs[0], "normaliser_times_128": int(round(obs[1]))}}
        cases.append((cid, f"collapse_eqb ({model}) ({zlit(int(kr))}, {natlist(obs[0])}, {zlit(int(round(obs[1])))})"))
        if ok2 and P.shape == (d, d):
            dg = np.einsum("kj,kl,lj->j", V.conj(), P, V).real
            cid += 1
            info[cid] = {**desc, "observed": {"projector_group": [j for j in range(d) if dg[j] > 0.5]}}
            cases.append((cid, f"nl_eqb (group {zlist(ks)} {zlit(klam)} {zlit(tz)}) {natlist([j for j in range(d) if dg[j] > 0.5])}"))
        if cid <= 2:
            ctx.sample({"stream": "measure_tol", **{k: v for k, v in desc.items() if k not in ("V", "state")}})
    _queue("measure_tol", cases, info)


def measure_numeric_stream(ctx):
    """TEST, not a theorem: random unitary eigenvectors, near-degenerate float spectra, every tolerance;
    reference = projector on the constructed levels within tol of the outcome, tolerance 1e-8."""
    import quimb as qu

    rng = ctx.rng
    g = np.random.default_rng(ctx.seed + 2011)
    for it in range(ctx.n(80, 1200)):
        D = rng.randint(2, 9)
        src = rng.choice(["prediagonalised", "dense_observable"])
        ncl = rng.randint(1, min(3, D))
        centres = rng.sample([-2.0, -1.0, -0.5, 0.0, 0.5, 1.0, 2.0, 3.0], ncl)
        gap = rng.choice([0.0, 1e-10, 1e-8, 3e-7, 1e-5, 1e-4])
        lam = np.array([(centres[i] if i < ncl else rng.choice(centres)) + gap * rng.choice([0, 0, 1, 2, -1]) for i in range(D)])
        spread = 3 * gap
        if src == "dense_observable":
            # the observable is diagonalised inside quimb: only ask for groupings that are well conditioned,
            # i.e. whole clusters (tol >= 8 * spread, clusters are >= 0.5 apart), or exactly degenerate levels
            tol = rng.choice([None, 1e-9, 1e-6, 1e-4, 1e-2, 100.0])
            if tol is None and gap > 0:
                gap, spread = 0.0, 0.0
                lam = np.array([centres[i] if i < ncl else rng.choice(centres) for i in range(D)])
            elif tol is not None and tol < max(8 * spread, 1e-9):
                tol = max(8 * spread, 1e-9)
            lam = np.sort(lam)
        else:
            tol = rng.choice([None, 1e-13, 1e-12, 1e-11, 1e-9, 2e-7, 1e-6, 1e-4, 1e-2, 0.6, 100.0])
            if rng.random() < 0.5:
                lam = np.sort(lam)
        kw = {} if tol is None else {"tol": tol}
        teff = DEFAULT_TOL if tol is None else tol
        U = rand_unitary(g, D)
        blocks = src == "dense_observable" and D >= 3 and rng.random() < 0.4
        if blocks:  # a block-diagonal observable in a permuted basis, for projector(autoblock=True)
            k = rng.randint(1, D - 1)
            U = np.zeros((D, D), dtype=complex)
            U[:k, :k], U[k:, k:] = rand_unitary(g, k), rand_unitary(g, D - k)
            U = U[g.permutation(D)][:, g.permutation(D)]
        if src == "dense_observable":
            Aobs = (U * lam) @ U.conj().T
            A = qu.qu((Aobs + Aobs.conj().T) / 2)
        else:
            A = (lam.copy(), qu.qu(U))
        psi = rand_ket(g, D)
        rho = rand_rho(g, D, rng.choice([1, 2, D, rng.randint(1, D)]))
        sampled = rng.random() < 0.3
        target = float(rng.choice(list(lam)))
        desc = {"source": src, "levels": lam.tolist(), "tol": tol, "eigenvalue": None if sampled else target, "sampled": sampled, "block_diagonal": bool(blocks), "case_seed": [ctx.seed, it]}

        def sel_of(out):
            d = np.abs(lam - out)
            if src == "dense_observable":
                d = np.where(d < 2 * spread + 1e-12, 0.0, d)  # a computed level of the outcome's cluster
            return d < teff

        def cls_of(out):
            if tol is None:
                return "default_tol"
            return "near_degenerate_levels_grouped_by_tol" if not np.array_equal(sel_of(out), np.abs(lam - out) < DEFAULT_TOL) else "tol_selects_the_default_group"

        cls = cls_of(target)
        desc["input_class"] = "by sampled outcome" if sampled else cls
        ctx.count(("measure_numeric", src, D, tuple(np.round(lam - lam.min(), 12)), tol, sampled), cls != "default_tol")
        ctx.bump("measure_numeric_" + src)
        if it < 1:
            ctx.sample({"stream": "measure_numeric", **desc})
        key = f"measure:{src}:{cls}"
        if sampled:
            sd = (ctx.seed * 104729 + it) % (2**31)
            desc["np_random_seed"] = sd

            def run_sampled():
                out = []
                for s in (psi, rho):
                    np.random.seed(sd)
                    out.append(qu.measure(s, A, **kw))
                return out

            ok, ms = call(ctx, f"measure:{src}:sampled", run_sampled, desc)
            if not ok:
                continue
            for (r, after), s in zip(ms, (psi, rho)):
                after = np.asarray(after)
                r = float(np.real(r))
                if not expect(ctx, f"measure:{src}:sampled:outcome", float(np.abs(lam - r).min()) < 1e-9, f"sampled outcome {r} is not an eigenvalue", desc):
                    continue
                out = r if src == "prediagonalised" else float(lam[np.argmin(np.abs(lam - r))])
                sel = sel_of(out)
                key = f"measure:{src}:{cls_of(out)}"
                Pref = U[:, sel] @ U[:, sel].conj().T
                if s is psi:
                    pk = float((psi.conj().T @ Pref @ psi).item().real)
                    expect(ctx, key + ":sampled:value", pk > 1e-12 and mclose(dop(after), dop(Pref @ psi) / pk, 1e-7), "sampled measure(ket) != P psi / sqrt<psi|P|psi> for the group of the outcome", {**desc, "outcome": r})
                    expect(ctx, key + ":sampled:normalised", close(np.linalg.norm(after), 1.0), f"sampled post-measurement ket has norm {np.linalg.norm(after)}", {**desc, "outcome": r})
                else:
                    pr = float(np.trace(Pref @ rho).real)
                    expect(ctx, key + ":sampled:value", pr > 1e-12 and mclose(after, Pref @ rho @ Pref / pr, 1e-7), "sampled measure(rho) != P rho P / tr(P rho) for the group of the outcome", {**desc, "outcome": r})
                    expect(ctx, key + ":sampled:normalised", close(np.trace(after), 1.0), f"sampled post-measurement state has trace {np.trace(after)}", {**desc, "outcome": r})
            continue
        sel = sel_of(target)
        Pref = U[:, sel] @ U[:, sel].conj().T
        ok, P = call(ctx, f"projector:{src}", lambda: np.asarray(qu.projector(A, target, **kw)), desc)
        if ok:
            expect(ctx, f"projector:{src}:{cls}:value", mclose(P, Pref), "projector != sum of |v><v| over the levels within tol of the eigenvalue", desc)
        if blocks:
            ok, P = call(ctx, f"projector:{src}:autoblock", lambda: np.asarray(qu.projector(A, target, autoblock=True, **kw)), desc)
            if ok:
                expect(ctx, f"projector:{src}:{cls}:autoblock:value", mclose(P, Pref), "projector(autoblock=True) != sum of |v><v| over the levels within tol of the eigenvalue", desc)
        pr = float(np.trace(Pref @ rho).real)
        pk = float((psi.conj().T @ Pref @ psi).item().real)
        if pr < 1e-3 or pk < 1e-3:
            continue
        ok, ms = call(ctx, key, lambda: (qu.measure(rho, A, eigenvalue=target, **kw), qu.measure(psi, A, eigenvalue=target, **kw),
                                         qu.measure(dop(psi), A, eigenvalue=target, **kw)), desc)
        if not ok:
            continue
        (e1, s1), (e2, s2), (e3, s3) = ms
        s1, s2, s3 = np.asarray(s1), np.asarray(s2), np.asarray(s3)
        expect(ctx, key + ":outcome", close(e1, target) and close(e2, target) and close(e3, target), "measure did not return the requested eigenvalue", desc)
        expect(ctx, key + ":operator:value", mclose(s1, Pref @ rho @ Pref / pr), "measure(rho) != P rho P / tr(P rho) with P the projector on all levels within tol", desc)
        expect(ctx, key + ":ket:value", mclose(dop(s2), dop(Pref @ psi) / pk), "measure(ket) != P psi / sqrt<psi|P|psi> with P the projector on all levels within tol", desc)
        expect(ctx, key + ":ket_vs_projector", mclose(dop(s2), s3), "measure(ket) and measure(projector) collapse differently", desc)
        expect(ctx, key + ":normalised", close(np.trace(s1), 1.0) and close(np.linalg.norm(s2), 1.0) and close(np.trace(s3), 1.0),
               f"post-measurement state not normalised: tr = {np.trace(s1).real}, |psi|^2 = {np.linalg.norm(s2) ** 2}", desc)


def route_searcher(ctx, inf):
    """direct oracle on a route case whose correspondence failed: the same call, with the same
    approx_thresh whenever the smaller side is below it (exactness is then required), on states
    whose exact values are known (product, Bell pair, fixed Schmidt spectrum, random + SVD)"""
    import quimb as qu

    g = np.random.default_rng(ctx.seed + 2099)
    dims, A, fn = inf["dims"], inf["sysa"], inf["fn"]
    n = len(dims)
    thresh = inf.get("approx_thresh")
    Bc = [i for i in range(n) if i not in A]
    desc = {k: v for k, v in inf.items() if k != "observed"}
    if fn in ("entropy_subsys", "tr_sqrt_subsys") and Bc:
        sa, sb = _side_sizes(dims, A)
        t = thresh if (thresh is None or min(sa, sb) < thresh) else None
        threshold_oracle(ctx, dims, A, t, {"searcher_for": desc}, fns=(fn,))
        return
    if fn in ("mutinf_subsys", "logneg_subsys"):
        B = inf.get("sysb", [])
        if any(not (0 <= i < n) for i in A + B) or set(A) & set(B):
            return
        if sorted(A + B) == list(range(n)):
            sa, sb = _side_sizes(dims, A)
            for t in sorted({thresh, sb + 1, sa, 2**13} - {None}):
                if min(sa, sb) < t:
                    threshold_oracle(ctx, dims, A, t, {"searcher_for": desc}, fns=(fn,))
            return
    psi = rand_ket(g, int(np.prod(dims)))
    P = dop(psi)
    try:
        if fn == "schmidt_gap":
            ev = np.concatenate([np.sort(np.linalg.eigvalsh(ref_ptr(P, dims, A)))[::-1], [0.0]])
            got, want = qu.schmidt_gap(psi, dims, A), (float(ev[0] - ev[1]) if Bc else 1.0)
        elif fn == "ptnorm":
            got, want = qu.calc.partial_transpose_norm(psi, dims, A), ref_trnorm(ref_pt(P, dims, A))
        elif fn == "entropy_subsys":
            got, want = qu.entropy_subsys(psi, dims, A), 0.0
        elif fn == "tr_sqrt_subsys":
            got, want = qu.calc.tr_sqrt_subsys(psi, dims, A), 1.0
        elif fn == "mutinf_subsys":
            got = qu.mutinf_subsys(psi, dims, A, B, approx_thresh=None)
            want = ref_entropy(ref_ptr(P, dims, A)) + ref_entropy(ref_ptr(P, dims, B)) - ref_entropy(ref_ptr(P, dims, A + B))
        elif fn == "logneg_subsys":
            keep = sorted(A + B)
            got = qu.logneg_subsys(psi, dims, A, B, approx_thresh=None)
            want = max(0.0, math.log2(ref_trnorm(ref_pt(ref_ptr(P, dims, keep), [dims[i] for i in keep], [keep.index(i) for i in A]))))
        else:
            return
    except Exception as e:
        ctx.violation(fn + ":raised", f"{fn} raised {type(e).__name__}: {str(e)[:100]}", {**desc, "psi": tolist(psi)})
        return
    expect(ctx, fn + ":value", close(got, want, 1e-6), f"{fn} = {got}, plain-numpy value = {want}", {**desc, "psi": tolist(psi)})


def timed(ctx, fn):
    import time

    t = time.time()
    ctx.stage(fn)
    ctx.extra.setdefault("stage_wall_s", {})[fn.__name__] = round(time.time() - t, 1)


STAGES = [corpus_stage, pt_stream, route_stream, dispatch_stream, measure_tol_stream, correspondence_stage, entropy_stream, negativity_stream, two_qubit_stream, distance_stream, maps_stream,
          measure_numeric_stream, decomp_stream, lazy_stream, threshold_stream, relabel_sparse_stream]


def run(ctx):
    del QUEUE[:]
    ctx.extra["rule"] = RULE
    ctx.check_props(["Base/Sums.vo", "C20/Model.vo", "C20/Proofs.vo", "C20/Channel.vo", "C20/Props.v"])
    for st in STAGES:
        timed(ctx, st)


def replay(ctx, path):
    run(ctx)

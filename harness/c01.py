"""C01 - a tensor network denotes one value; every contraction route returns it.

Proof part (coq/Base/TN.v, coq/C01/Props.v): over any commutative ring, for
arbitrary hyper-networks: a pairwise contraction over labels that occur nowhere
else preserves the network value (contract_step_sound), hence every contraction
path / tree / order gives the same value (path_sound), tensor order and
summation order are irrelevant.
Tie (H): random hyper-networks with exact (Gaussian-)integer data and a stored
exponent go through every public evaluation route of the implementation; the
result (scalar, Tensor or remaining network) is compared, inside Coq
(vm_compute), with the value of the ORIGINAL network computed by the model's
`dense` (the very function the theorems are about).
"""

import itertools

import numpy as np

from harness import tnmodel as tm

RULE = (
    "random hyper-networks: 1-5 tensors, rank 0-3, dims 1-3, labels from a pool of 6 (3-fold sharing and "
    "dangling labels frequent), integer or Gaussian-integer data, stored exponent in {0,1,2,3,-1,-2}, random "
    "output-label subsets in random order; each network goes through every route x flag. Non-trivial: >= 2 "
    "tensors and >= 1 summed label; distinct = distinct (network, route)."
)


def rand_array(rng, shape, cplx):
    n = int(np.prod(shape)) if shape else 1
    if cplx:
        v = np.array([complex(rng.randint(-2, 2), rng.randint(-2, 2)) for _ in range(n)])
    else:
        v = np.array([float(rng.randint(-2, 2)) for _ in range(n)])
    return v.reshape(shape)


def rand_network(rng, cplx):
    import quimb.tensor as qtn

    pool = list("abcdef")
    dims = {i: rng.choice([1, 2, 2, 3]) for i in pool}
    nt = rng.randint(1, 5)
    ts = []
    for k in range(nt):
        r = rng.choice([0, 1, 2, 2, 3, 3])
        inds = tuple(rng.sample(pool, r))
        arr = rand_array(rng, [dims[i] for i in inds], cplx)
        ts.append(qtn.Tensor(arr, inds, tags=[f"T{k}", rng.choice(["X", "Y"])]))
    tn = qtn.TensorNetwork(ts)
    return tn


def counts(tn):
    c = {}
    for t in tn.tensors:
        for i in t.inds:
            c[i] = c.get(i, 0) + 1
    return c


def rand_path(rng, n):
    path, cur = [], n
    while cur > 1:
        i, j = sorted(rng.sample(range(cur), 2))
        path.append((i, j))
        cur -= 1
    return tuple(path)


def flat_of(res, outs):
    """implementation result (scalar or Tensor) -> flat array in `outs` order."""
    import quimb.tensor as qtn

    if isinstance(res, qtn.Tensor):
        if set(res.inds) != set(outs) or len(res.inds) != len(outs):
            raise ValueError(f"result labels {res.inds} != requested {outs}")
        return np.asarray(res.transpose(*outs).data).reshape(-1), tuple(res.inds)
    if len(outs) != 0:
        raise ValueError("scalar returned although output labels were requested")
    return np.asarray(res).reshape(-1), ()


class Collector:
    def __init__(self, ctx):
        self.ctx = ctx
        self.cases = []
        self.info = {}

    def add(self, desc, expr):
        cid = len(self.cases) + 1
        self.cases.append((cid, expr))
        self.info[cid] = desc


def network_routes(ctx, col, rng, tn0, netdesc):
    """run every route on copies of tn0 and register a Coq check for each"""
    import quimb.tensor as qtn

    base = tm.qtn_tensors(tn0)
    e0 = int(tn0.exponent)
    cnt = counts(tn0)
    labels = sorted(cnt)
    hyper = any(v > 2 for v in cnt.values())
    k = rng.randint(0, min(3, len(labels)))
    outs = tuple(rng.sample(labels, k))
    natural = tuple(i for i in tm_concat(tn0) if cnt[i] == 1)

    def expect(route, res, outs_, strip=False):
        """res must denote dense(tn0 over outs_)*10^e0"""
        desc = {**netdesc, "route": route, "outs": list(outs_)}
        ctx.count((netdesc["id"], route, outs_), tn0.num_tensors >= 2 and len(labels) > len(outs_))
        ctx.bump("route:" + route.split("[")[0])
        try:
            if strip:
                t, ex = res
                flat, got = flat_of(t, outs_)
                if not np.any(tm.np_dense(base, outs_, 0)):
                    # an exactly zero value has no log10: mantissa/exponent are undefined (documented edge E3)
                    ctx.bump("strip_of_exact_zero_skipped")
                    return
                flat = flat * 10.0 ** float(ex)
            else:
                flat, got = flat_of(res, outs_)
            # recombine with a non-negative exponent for the integer model
            shift = -e0 if e0 < 0 else 0
            expr = tm.dense_check_expr(base, outs_, e0 + shift, flat * 10.0 ** shift)
        except (tm.NotExact, ValueError) as e:
            oracle(ctx, route, desc, base, outs_, e0, res, strip, why=str(e))
            return
        col.add(desc, expr)

    def expect_network(route, tn_after, outs_):
        desc = {**netdesc, "route": route, "outs": list(outs_)}
        ctx.count((netdesc["id"], route, outs_), tn0.num_tensors >= 2)
        ctx.bump("route:" + route.split("[")[0])
        try:
            ea = float(tn_after.exponent)
            if abs(ea - round(ea)) > 1e-9:
                raise tm.NotExact("non-integer exponent")
            expr = tm.same_value_expr(base, e0, tm.qtn_tensors(tn_after), int(round(ea)), outs_)
        except (tm.NotExact, ValueError) as e:
            oracle_net(ctx, route, desc, base, outs_, e0, tn_after, why=str(e))
            return
        col.add(desc, expr)

    def guarded(route, fn):
        try:
            fn()
        except Exception as e:  # the route raised on a valid input
            ctx.violation(f"route:{route.split('[')[0]}:raised",
                          f"{route} raised {type(e).__name__}: {str(e)[:150]}", {**netdesc, "route": route, "outs": list(outs)})

    # 1. full contraction, explicit outputs, several optimizers / explicit random path
    for opt in ["auto", "greedy", rand_path(rng, tn0.num_tensors)]:
        name = opt if isinstance(opt, str) else "path"
        guarded(f"contract_all[{name}]",
                lambda opt=opt, name=name: expect(f"contract_all[{name}]", tn0.copy().contract(all, output_inds=outs, optimize=opt), outs))
    # 2. inferred outputs (documented only without hyper labels)
    if not hyper:
        guarded("xor_all", lambda: expect("xor_all", tn0.copy() ^ all, natural))
        guarded("contract_ellipsis", lambda: expect("contract_ellipsis", tn0.copy().contract(...), natural))
    # 3. exponent stripped
    guarded("contract_all[strip]", lambda: expect("contract_all[strip]", tn0.copy().contract(all, output_inds=outs, strip_exponent=True), outs, strip=True))
    # 4. in-place full contraction keeps a network
    def r4():
        t = tn0.copy()
        t.contract_(all, output_inds=outs)
        expect_network("contract_all_inplace", t, outs)
    guarded("contract_all_inplace", r4)
    # 5. tag-by-tag partial contraction (outputs of the remainder: labels that must stay open)
    tags = [f"T{i}" for i in range(tn0.num_tensors)]
    sub = rng.sample(tags, rng.randint(1, len(tags)))
    keep_open = tuple(sorted(i for i, c in cnt.items() if c == 1))
    if not hyper:
        for inplace in (False, True):
            def r5(inplace=inplace):
                t = tn0.copy()
                r = t.contract_tags(sub, inplace=inplace)
                if inplace:
                    r = t
                if isinstance(r, qtn.TensorNetwork):
                    expect_network(f"contract_tags[inplace={inplace}]", r, keep_open)
                else:
                    expect(f"contract_tags[inplace={inplace},all]", r, natural)
            guarded("contract_tags", r5)
        # tags covering every tensor, with strip_exponent
        guarded("contract_tags[all,strip]",
                lambda: expect("contract_tags[all,strip]", tn0.copy().contract(tags, strip_exponent=True), natural, strip=True))
        guarded("contract_tags[all]", lambda: expect("contract_tags[all]", tn0.copy().contract(tags), natural))
        # which='all'
        def r5b():
            t = tn0.copy()
            r = t.contract_tags(["X"], which="all") if "X" in t.tag_map else None
            if r is None:
                return
            if isinstance(r, qtn.TensorNetwork):
                expect_network("contract_tags[X]", r, keep_open)
            else:
                expect("contract_tags[X,all]", r, natural)
        guarded("contract_tags[X]", r5b)
        # cumulative
        def r6():
            seq = tags[:]
            rng.shuffle(seq)
            r = tn0.copy().contract_cumulative(seq)
            if isinstance(r, qtn.TensorNetwork):
                expect_network("contract_cumulative", r, keep_open)
            else:
                expect("contract_cumulative", r, natural)
        guarded("contract_cumulative", r6)
    # 6. densification (fused groups, order given)
    if outs:
        cut = rng.randint(0, len(outs))
        groups = [g for g in (outs[:cut], outs[cut:]) if g]
        def r7():
            d = np.asarray(tn0.copy().to_dense(*groups))
            expect("to_dense", qtn.Tensor(d.reshape([tn0.ind_size(i) for i in outs]), outs), outs)
        if not hyper or True:
            guarded("to_dense", r7)
    # 7. tensor_contract function and expression replay
    guarded("tensor_contract", lambda: expect("tensor_contract", qtn.tensor_contract(*tn0.copy().tensors, output_inds=outs) * 10.0 ** e0, outs))
    def r8():
        expr = tn0.contract(all, output_inds=outs, get="expression")
        arr = expr(*[t.data for t in tn0.tensors])
        expect("expression", qtn.Tensor(np.asarray(arr), outs) * 10.0 ** e0 if outs else np.asarray(arr) * 10.0 ** e0, outs)
    guarded("expression", r8)
    # 8. norm / overlap : <tn|tn> over all open labels (no hyper labels among the open ones)
    if not hyper:
        def r9():
            n2 = tn0.copy().norm(squared=True) if hasattr(tn0, "norm") else None
            ref = conj_pair(base, natural)
            desc = {**netdesc, "route": "norm", "outs": []}
            ctx.count((netdesc["id"], "norm"), True)
            ctx.bump("route:norm")
            try:
                shift = -2 * e0 if e0 < 0 else 0
                col.add(desc, tm.dense_check_expr(ref, (), 2 * e0 + shift, np.asarray([n2]) * 10.0 ** shift))
            except tm.NotExact as e:
                oracle(ctx, "norm", desc, ref, (), 2 * e0, n2, False, why=str(e))
        guarded("norm", r9)
    # 8b. norm / overlap with explicit output labels: every label NOT requested is summed separately in ket and bra -
    #     including labels that occur once (dangling) but are not requested - and requested ones are shared
    def r9b():
        cplx = np.iscomplexobj(base[0][1])
        n2 = tn0.copy().norm(squared=True, output_inds=outs)
        ref = conj_pair(base, outs)
        desc = {**netdesc, "route": "norm[output_inds]", "outs": list(outs)}
        ctx.count((netdesc["id"], "norm[output_inds]", outs), any(c == 1 and i not in outs for i, c in cnt.items()))
        ctx.bump("route:norm[output_inds]")
        shift = -2 * e0 if e0 < 0 else 0
        try:
            col.add(desc, tm.dense_check_expr(ref, (), 2 * e0 + shift, np.asarray([n2]) * 10.0 ** shift))
        except tm.NotExact as e:
            oracle(ctx, "norm[output_inds]", desc, ref, (), 2 * e0, n2, False, why=str(e))
        # overlap with a twin (same structure, other data): <twin|tn> over the requested labels
        twin = tn0.copy()
        for t in twin.tensors:
            t.modify(data=rand_array(rng, t.shape, cplx))
        base2 = tm.qtn_tensors(twin)
        ov = tn0.copy().overlap(twin, output_inds=outs)
        bra = [(tuple(i if i in outs else i + "*" for i in inds), np.conj(arr)) for inds, arr in base2]
        ref2 = bra + list(base)
        desc2 = {**netdesc, "route": "overlap[output_inds]", "outs": list(outs)}
        ctx.count((netdesc["id"], "overlap[output_inds]", outs), True)
        ctx.bump("route:overlap[output_inds]")
        try:
            col.add(desc2, tm.dense_check_expr(ref2, (), 2 * e0 + shift, np.asarray([ov]) * 10.0 ** shift))
        except tm.NotExact as e:
            oracle(ctx, "overlap[output_inds]", desc2, ref2, (), 2 * e0, ov, False, why=str(e))
    guarded("norm[output_inds]", r9b)

    # 8b'. overlap with a partner of DIFFERENT structure and no explicit output labels: the outputs default to the labels
    #      that occur once in self; every other label of the partner - one that sits on several of its tensors, a dangling
    #      one, one named like a summed label of self - is private to the bra (coq/C01/Norm.v: sum_O A[O] conj(B[O]))
    def r9c():
        cplx = np.iscomplexobj(base[0][1])
        O = tuple(tn0.outer_inds())
        sizes = {ix: tn0.ind_size(ix) for ix in tn0.ind_map}
        pool = list("abcdef")
        nt = rng.randint(1, 3)
        lab = [[] for _ in range(nt)]
        for ix in O:
            for k in rng.sample(range(nt), min(nt, rng.choice([1, 1, 2]))):
                lab[k].append(ix)
        extras = [ix for ix in pool if ix not in O]
        for ix in rng.sample(extras, min(len(extras), rng.choice([0, 1, 2]))):
            for k in rng.sample(range(nt), min(nt, rng.choice([1, 2]))):
                lab[k].append(ix)
        ots = []
        for k in range(nt):
            inds = tuple(lab[k])
            if len(inds) > 3:
                inds = inds[:3] if all(ix not in O for ix in inds[3:]) else inds
            ots.append(qtn.Tensor(rand_array(rng, [sizes.get(ix, 2) for ix in inds], cplx), inds, tags=[f"O{k}"]))
        other = qtn.TensorNetwork(ots)
        if set(O) - set(other.ind_map):
            return  # a truncated tensor lost an output label: not a valid partner
        e1 = rng.choice([0, 0, 1])
        other.exponent = float(e1)
        base2 = tm.qtn_tensors(other)
        ov = tn0.copy().overlap(other)
        bra = [(tuple(i if i in O else i + "*" for i in inds), np.conj(arr)) for inds, arr in base2]
        ref2 = bra + list(base)
        desc2 = {**netdesc, "route": "overlap[default_outputs]", "outs": list(O),
                 "partner": [list(t.inds) for t in other.tensors], "partner_exponent": e1}
        ocnt = {}
        for t in other.tensors:
            for ix in t.inds:
                ocnt[ix] = ocnt.get(ix, 0) + 1
        ctx.count((netdesc["id"], "overlap[default_outputs]"), any(ocnt.get(ix, 0) > 1 for ix in O) or
                  any(c == 1 and ix not in O for ix, c in ocnt.items()))
        ctx.bump("route:overlap[default_outputs]")
        etot = e0 + e1
        shift = -etot if etot < 0 else 0
        try:
            col.add(desc2, tm.dense_check_expr(ref2, (), etot + shift, np.asarray([ov]) * 10.0 ** shift))
        except tm.NotExact as e:
            oracle(ctx, "overlap[default_outputs]", desc2, ref2, (), etot, ov, False, why=str(e))
    guarded("overlap[default_outputs]", r9c)
    # 8c. a non-in-place PARTIAL contraction with norm equalisation / exponent stripping returns a network with the same
    #     value AND leaves the queried network denoting the same value (later routes on it must still agree)
    if not hyper and tn0.num_tensors >= 3:
        for opt_name, opts in (("equalize_norms", {"equalize_norms": True}), ("strip_exponent", {"strip_exponent": True}),
                               ("equalize_norms=1.0", {"equalize_norms": 1.0})):
            def r9c(opt_name=opt_name, opts=opts):
                t = tn0.copy()
                part = rng.sample(tags, rng.randint(2, tn0.num_tensors - 1))
                seq = [[g] for g in part[:2]]
                # documented edge (E3): an exactly zero tensor / intermediate has no log10, its norm cannot be equalised
                subts = [tt for tt in tn0.tensors if set(part[:2]) & set(tt.tags)]
                rest_labels = {i for tt in tn0.tensors if not (set(part[:2]) & set(tt.tags)) for i in tt.inds}
                sub_cnt = {}
                for tt in subts:
                    for i in tt.inds:
                        sub_cnt[i] = sub_cnt.get(i, 0) + 1
                sub_out = tuple(sorted(i for i, c in sub_cnt.items() if c == 1 or i in rest_labels))
                sub_val = tm.np_dense([(tt.inds, np.asarray(tt.data)) for tt in subts], sub_out, 0)
                if any(not np.any(np.asarray(tt.data)) for tt in tn0.tensors) or not np.any(sub_val):
                    ctx.bump("equalize_of_exact_zero_skipped")
                    return
                r = t.contract_cumulative(seq, **opts)
                if isinstance(r, tuple):
                    r = r[0]
                if isinstance(r, qtn.TensorNetwork):
                    expect_network(f"contract_cumulative[partial,{opt_name}]", r, keep_open)
                expect_network(f"contract_cumulative[partial,{opt_name}]:receiver_after", t, keep_open)
                t2 = tn0.copy()
                r2 = t2.contract_tags(part[:2], **opts)
                if isinstance(r2, tuple):
                    r2 = r2[0]
                if isinstance(r2, qtn.TensorNetwork):
                    expect_network(f"contract_tags[partial,{opt_name}]", r2, keep_open)
                expect_network(f"contract_tags[partial,{opt_name}]:receiver_after", t2, keep_open)
            guarded(f"contract_partial[{opt_name}]", r9c)
    # 9. trace and linear operator over a bipartition of the open labels
    opens = [i for i in natural]
    if len(opens) >= 2 and not hyper:
        h = len(opens) // 2
        left, right = tuple(opens[:h]), tuple(opens[h:2 * h])
        rest = tuple(opens[2 * h:])
        if all(tn0.ind_size(a) == tn0.ind_size(b) for a, b in zip(left, right)) and not rest:
            def r10():
                tr = tn0.copy().trace(left, right)
                ren = dict(zip(right, left))
                ref = [(tuple(ren.get(i, i) for i in inds), arr) for inds, arr in base]
                desc = {**netdesc, "route": "trace", "outs": []}
                ctx.count((netdesc["id"], "trace"), True)
                ctx.bump("route:trace")
                shift = -e0 if e0 < 0 else 0
                try:
                    col.add(desc, tm.dense_check_expr(ref, (), e0 + shift, np.asarray([tr]) * 10.0 ** shift))
                except tm.NotExact as e:
                    oracle(ctx, "trace", desc, ref, (), e0, tr, False, why=str(e))
            guarded("trace", r10)
        if not rest:
            def r11():
                A = tn0.copy().aslinearoperator(left, right)
                dr = int(np.prod([tn0.ind_size(i) for i in right]))
                dl = int(np.prod([tn0.ind_size(i) for i in left]))
                x = rand_array(rng, (dr,), np.iscomplexobj(base[0][1]))
                xt = (right, x.reshape([tn0.ind_size(i) for i in right]))
                y = A @ x
                expect_vec("linop_matvec", base + [xt], left, y)
                D = np.asarray(A.to_dense())
                expect("linop_to_dense", qtn.Tensor(D.reshape([tn0.ind_size(i) for i in left + right]), left + right), left + right)
                z = rand_array(rng, (dl,), np.iscomplexobj(base[0][1]))
                w = A.rmatvec(z)  # A^H z
                zt = (left, z.reshape([tn0.ind_size(i) for i in left]))
                conj_base = [(inds, np.conj(arr)) for inds, arr in base]
                expect_vec("linop_rmatvec", conj_base + [zt], right, w)
            def expect_vec(route, tensors, outs_, y):
                desc = {**netdesc, "route": route, "outs": list(outs_)}
                ctx.count((netdesc["id"], route), True)
                ctx.bump("route:" + route)
                shift = -e0 if e0 < 0 else 0
                try:
                    col.add(desc, tm.dense_check_expr(tensors, outs_, e0 + shift, np.asarray(y).reshape(-1) * 10.0 ** shift))
                except tm.NotExact as e:
                    oracle(ctx, route, desc, tensors, outs_, e0, qtn.Tensor(np.asarray(y).reshape([tn0.ind_size(i) for i in outs_]), outs_), False, why=str(e))
            guarded("aslinearoperator", r11)


def tm_concat(tn):
    seen = []
    for t in tn.tensors:
        for i in t.inds:
            seen.append(i)
    # first-occurrence order without duplicates
    out = []
    for i in seen:
        if i not in out:
            out.append(i)
    return out


def conj_pair(base, open_labels):
    """<tn|tn>: conjugate copy with every non-open label renamed."""
    bra = [(tuple(i if i in open_labels else i + "*" for i in inds), np.conj(arr)) for inds, arr in base]
    return bra + list(base)


def oracle(ctx, route, desc, tensors, outs, e0, res, strip, why=""):
    """direct numpy oracle when the result is not exactly representable: decide
    whether it is a genuine mismatch (violation with concrete input) or round-off."""
    try:
        ref = tm.np_dense(tensors, outs, e0).reshape(-1)
        if strip:
            t, ex = res
            flat, _ = flat_of(t, outs)
            flat = flat * 10.0 ** float(ex)
        else:
            flat, _ = flat_of(res, outs)
        ok = flat.shape == ref.shape and np.allclose(flat, ref, rtol=1e-9, atol=1e-9)
    except Exception as e:
        ok = False
        why += f" / {type(e).__name__}: {e}"
    if not ok:
        ctx.violation(f"route:{route.split('[')[0]}", f"{route} does not return the network value ({why[:120]})",
                      {**desc, "tensors": [(list(i), np.asarray(a).tolist()) for i, a in tensors], "exponent": e0})
    else:
        ctx.bump("inexact_but_close")


def oracle_net(ctx, route, desc, tensors, outs, e0, tn_after, why=""):
    try:
        ref = tm.np_dense(tensors, outs, e0).reshape(-1)
        got = tm.np_dense(tm.qtn_tensors(tn_after), outs, float(tn_after.exponent)).reshape(-1)
        ok = got.shape == ref.shape and np.allclose(got, ref, rtol=1e-9, atol=1e-9)
    except Exception as e:
        ok = False
        why += f" / {type(e).__name__}: {e}"
    if not ok:
        ctx.violation(f"route:{route.split('[')[0]}", f"network left by {route} no longer denotes the same value ({why[:120]})",
                      {**desc, "tensors": [(list(i), np.asarray(a).tolist()) for i, a in tensors], "exponent": e0})
    else:
        ctx.bump("inexact_but_close")


def structured_1d(ctx, col, rng):
    """1D structured contraction (`^ ...`, slices) of <psi|psi>-like networks."""
    import quimb.tensor as qtn

    for _ in range(ctx.n(12, 120)):
        L = rng.randint(2, 5)
        cplx = rng.random() < 0.5
        arrays = []
        bonds = [1] + [rng.randint(1, 2) for _ in range(L - 1)] + [1]
        for i in range(L):
            shp = (bonds[i], bonds[i + 1], 2)
            a = rand_array(rng, shp, cplx)
            if i == 0:
                a = a[0]
            if i == L - 1:
                a = a[..., 0, :] if i > 0 else a[0]
            arrays.append(a)
        try:
            p = qtn.MatrixProductState(arrays, shape="lrp")
        except Exception:
            continue
        tn = p.H & p
        e0 = rng.choice([0, 1, 2])
        tn.exponent = e0
        base = tm.qtn_tensors(tn)
        netdesc = {"id": f"mps{_}", "L": L, "complex": cplx, "exponent": e0}
        for route, fn in [("structured[...]", lambda t: t ^ ...),
                          ("structured[all]", lambda t: t ^ all),
                          ("structured[slice]", lambda t: t ^ slice(0, max(1, L - 1)))]:
            ctx.count((netdesc["id"], route), True)
            ctx.bump("route:" + route)
            try:
                r = fn(tn.copy())
            except Exception as e:
                ctx.violation(f"route:{route}:raised", f"{route} raised {type(e).__name__}: {str(e)[:120]}", {**netdesc, "route": route})
                continue
            desc = {**netdesc, "route": route, "outs": []}
            try:
                if isinstance(r, qtn.TensorNetwork):
                    ea = float(r.exponent)
                    col.add(desc, tm.same_value_expr(base, e0, tm.qtn_tensors(r), int(round(ea)), ()))
                else:
                    col.add(desc, tm.dense_check_expr(base, (), e0, np.asarray([r]) if not isinstance(r, qtn.Tensor) else np.asarray(r.data).reshape(-1)))
            except tm.NotExact as e:
                if isinstance(r, qtn.TensorNetwork):
                    oracle_net(ctx, route, desc, base, (), e0, r, why=str(e))
                else:
                    oracle(ctx, route, desc, base, (), e0, r, False, why=str(e))


def linop_views(ctx):
    """every (iterated) view of a tensor-network linear operator acts as the corresponding matrix:
    A, A.T, A.conj(), A.H and their compositions (A.H.H, A.conj().conj(), A.H.conj(), A.T.H ...),
    through matvec / rmatvec / matmat / to_dense, for TNLinearOperator and TNLinearOperator1D."""
    import quimb.tensor as qtn
    from quimb.tensor.tensor_core import bonds

    rng = np.random.default_rng(ctx.seed + 101)
    views = {"id": lambda A: A, "T": lambda A: A.T, "C": lambda A: A.conj(), "H": lambda A: A.H}
    mats = {"id": lambda M: M, "T": lambda M: M.T, "C": lambda M: M.conj(), "H": lambda M: M.conj().T}

    def operators():
        # generic operator from a small complex network
        for _ in range(ctx.n(6, 40)):
            a = qtn.Tensor(rand_cplx(rng, (2, 3, 2)), ("l0", "b", "l1"))
            b = qtn.Tensor(rand_cplx(rng, (3, 2, 2)), ("b", "r0", "c"))
            c = qtn.Tensor(rand_cplx(rng, (2, 3)), ("c", "r1"))
            tn = qtn.TensorNetwork([a, b, c])
            left, right = ("l0", "l1"), ("r0", "r1")
            M = tm.np_dense(tm.qtn_tensors(tn), left + right).reshape(4, 6)
            yield "TNLinearOperator", tn.aslinearoperator(left, right), M
        # 1D structured operator: a section of <p|p>
        for _ in range(ctx.n(4, 30)):
            L = int(rng.integers(5, 8))
            p = qtn.MPS_rand_state(L, 3, dtype=complex, seed=int(rng.integers(1 << 30)))
            pp = p.H & p
            start, stop = 1, L - 1
            lix = tuple(bonds(pp[start - 1], pp[start]))
            rix = tuple(bonds(pp[stop - 1], pp[stop]))
            sec = pp[start:stop]
            dl = int(np.prod([sec.ind_size(i) for i in lix]))
            dr = int(np.prod([sec.ind_size(i) for i in rix]))
            M = tm.np_dense(tm.qtn_tensors(sec), lix + rix).reshape(dl, dr)
            yield "TNLinearOperator1D", qtn.TNLinearOperator1D(sec, lix, rix, start, stop), M

    for kind, A0, M0 in operators():
        for depth in (1, 2, 3):
            for combo in itertools.product(list(views), repeat=depth):
                if depth == 3 and rng.random() < 0.7:
                    continue
                A, M = A0, M0
                for v in combo:
                    A, M = views[v](A), mats[v](M)
                name = ".".join(combo)
                ctx.count((kind, name), depth > 1 and any(v in ("C", "H") for v in combo))
                ctx.bump("linop_view_depth%d" % depth)
                x = rand_cplx(rng, (M.shape[1],))
                z = rand_cplx(rng, (M.shape[0],))
                X = rand_cplx(rng, (M.shape[1], 2))
                checks = [("matvec", lambda: A @ x, M @ x), ("rmatvec", lambda: A.rmatvec(z), M.conj().T @ z),
                          ("matmat", lambda: A @ X, M @ X), ("shape", lambda: np.zeros(A.shape), np.zeros(M.shape))]
                if hasattr(A, "to_dense") and kind == "TNLinearOperator":
                    checks.append(("to_dense", lambda: np.asarray(A.to_dense()), M))
                for what, fn, want in checks:
                    try:
                        got = np.asarray(fn())
                    except Exception as e:
                        ctx.violation(f"linop_view:{kind}:raised", f"{kind} view {name}: {what} raised {type(e).__name__}: {str(e)[:100]}",
                                      {"kind": kind, "view": name, "op": what})
                        continue
                    scale = max(1.0, float(np.max(np.abs(want))) if want.size else 1.0)
                    if got.shape != want.shape or not np.allclose(got, want, atol=1e-9 * scale, rtol=1e-9):
                        ctx.violation(f"linop_view:{kind}:{what}", f"{kind} view {name}: {what} is not the action of the corresponding matrix",
                                      {"kind": kind, "view": name, "op": what})


def rand_cplx(rng, shape):
    return rng.integers(-3, 4, size=shape) + 1j * rng.integers(-3, 4, size=shape)


def tiny_values(ctx):
    """networks whose complex value is tiny in absolute terms: every route must agree with the
    reference in BOTH real and imaginary part, relative to the value's own size."""
    import quimb.tensor as qtn

    rng = ctx.rng
    for n in range(ctx.n(40, 400)):
        if n % 2 == 0:
            # closed ring / chain: the value is a complex SCALAR
            k = rng.randint(2, 4)
            labs = [f"x{i}" for i in range(k)]
            ts = []
            for i in range(k):
                a, b = labs[i], labs[(i + 1) % k]
                inds = (a, b) if k > 2 or i == 0 else (b, a)
                ts.append(qtn.Tensor(rand_array(rng, (2, 2), True), inds, tags=[f"T{i}", "X"]))
            tn = qtn.TensorNetwork(ts)
        else:
            tn = rand_network(rng, True)
        cnt = counts(tn)
        if any(v > 2 for v in cnt.values()):
            continue
        scale = 10.0 ** (-rng.randint(6, 20))
        t0 = tn.tensors[0]
        t0.modify(data=t0.data * scale)
        base = tm.qtn_tensors(tn)
        natural = tuple(i for i in tm_concat(tn) if cnt[i] == 1)
        ref = tm.np_dense(base, natural).reshape(-1)
        if not np.any(ref):
            continue
        mag = float(np.max(np.abs(ref)))
        tags = [f"T{i}" for i in range(tn.num_tensors)]
        routes = {
            "contract_all": lambda: tn.copy().contract(all, output_inds=natural),
            "xor_all": lambda: tn.copy() ^ all,
            "contract_tags": lambda: tn.copy().contract(tags),
            "contract_cumulative": lambda: tn.copy().contract_cumulative(tags),
            "tensor_contract": lambda: qtn.tensor_contract(*tn.copy().tensors, output_inds=natural),
            "strip": lambda: (lambda r: r[0] * 10.0 ** r[1])(tn.copy().contract(all, output_inds=natural, strip_exponent=True)),
        }
        for route, fn in routes.items():
            ctx.count(("tiny", n, route), True)
            ctx.bump("route:tiny:" + route)
            try:
                got, _ = flat_of(fn(), natural)
            except Exception as e:
                ctx.violation(f"route:{route}:tiny:raised", f"{route} raised {type(e).__name__} on a tiny-valued network", {"scale": scale, "route": route})
                continue
            if got.shape != ref.shape or not np.allclose(got, ref, atol=1e-9 * mag, rtol=1e-9):
                ctx.violation(f"route:{route}:tiny_complex_value", f"{route} loses part of a tiny complex value (|value| ~ {mag:.1e})",
                              {"scale": scale, "route": route, "got": [str(x) for x in got[:4]], "want": [str(x) for x in ref[:4]],
                               "tensors": [(list(i), np.asarray(a).tolist()) for i, a in base]})


def correspondence(ctx):
    rng = ctx.rng
    col = Collector(ctx)
    N = ctx.n(90, 1200)
    for n in range(N):
        cplx = rng.random() < 0.4
        tn = rand_network(rng, cplx)
        e0 = rng.choice([0, 0, 1, 2, 3, -1, -2])
        tn.exponent = e0
        cnt = counts(tn)
        netdesc = {"id": n, "tensors": [list(t.inds) for t in tn.tensors], "exponent": e0, "complex": cplx,
                   "hyper": any(v > 2 for v in cnt.values())}
        ctx.bump("hyper" if netdesc["hyper"] else "simple")
        ctx.bump(f"exponent={e0}")
        if n < 3:
            ctx.sample(netdesc)
        network_routes(ctx, col, rng, tn, netdesc)
    structured_1d(ctx, col, rng)
    failed, errors = ctx.coq_cases("routes", tm.HEADER, col.cases, shard=120)
    for path, err in errors:
        ctx.broken_obligation("correspondence:" + path.split("/")[-1], err)
    seen = set()
    for c in failed:
        d = col.info[c]
        key = "route:" + d["route"].split("[")[0]
        if key in seen:
            continue
        seen.add(key)
        # the model's value and the implementation disagree on an exactly representable case:
        # that IS a concrete failing input (the model value is the einsum of the dumped arrays)
        ctx.violation(key, f"{d['route']} does not return the network value (exact mismatch against the Coq model)", d)
    ctx.extra["coq_cases"] = len(col.cases)


# ---------------------------------------------------------------------------------------------------------------
# exponent / return-shape bookkeeping (coq/C01/Exponent.v, coq/C01/PropsExp.v)
# ---------------------------------------------------------------------------------------------------------------
EXP_HEADER = (
    "From Coq Require Import ZArith Arith List Bool.\n"
    "From QV Require Import C01.Exponent.\n"
    "Import ListNotations.\n"
    "Definition kind_eqb (a b : kind) : bool := match a, b with KScalar, KScalar | KTensor, KTensor | KPairScalar, "
    "KPairScalar | KPairTensor, KPairTensor | KNet, KNet => true | _, _ => false end.\n"
    "Definition shape_eqb (a b : bool * bool * kind * bool) : bool := "
    "let '(a1, a2, a3, a4) := a in let '(b1, b2, b3, b4) := b in "
    "Bool.eqb a1 b1 && Bool.eqb a2 b2 && kind_eqb a3 b3 && Bool.eqb a4 b4.\n"
)


def _b(x):
    return "true" if x else "false"


def _kind_of(res):
    import quimb.tensor as qtn

    if isinstance(res, tuple):
        return "KPairTensor" if isinstance(res[0], qtn.Tensor) else "KPairScalar"
    if isinstance(res, qtn.TensorNetwork):
        return "KNet"
    if isinstance(res, qtn.Tensor):
        return "KTensor"
    return "KScalar"


def _dense_of(res, outs):
    """float value (flat, over `outs`) denoted by a returned scalar / Tensor / pair / network"""
    import quimb.tensor as qtn

    ex = 0.0
    if isinstance(res, tuple):
        res, ex = res
    if isinstance(res, qtn.TensorNetwork):
        ex = ex + float(res.exponent)
        res = res.contract(all, output_inds=outs, optimize="greedy") / 10.0 ** float(res.exponent)
    if isinstance(res, qtn.Tensor):
        arr = np.asarray(res.transpose(*outs).data) if outs else np.asarray(res.data)
    else:
        arr = np.asarray(res)
    return arr.reshape(-1) * 10.0 ** float(ex)


def exponent_shapes(ctx):
    """The model's shape tables (tensor_contract_shape, contract_tags_shape, contract_dispatch,
    maybe_unwrap_shape: proved in PropsExp.v to be the shapes of flows that denote den(network)) against the
    implementation over the WHOLE option cube: which strip_exponent / preserve_tensor the entry point hands to
    tensor_contract (observed by rebinding the module global), what kind of object comes back, whether the
    network's stored exponent moved.  Exact comparison inside Coq.  In the same pass the returned object is
    compared numerically (rtol 1e-9: stripped mantissas are not exact) with 10**exponent * einsum - a test."""
    import quimb.tensor as qtn
    import quimb.tensor.tensor_core as tc

    rng = np.random.default_rng(ctx.seed + 101)
    cases, info = [], {}

    def add(expr, d):
        cid = len(cases)
        cases.append((cid, expr))
        info[cid] = d

    def mk(outs_empty, rest_empty, e0):
        """tagged part 'A' (two tensors sharing a bond; open leg 'x' unless outs_empty), rest 'B'"""
        a1 = qtn.Tensor(rng.integers(2, 5, size=(2, 3)).astype(float), ("k", "m"), tags=["A", "A1"])
        if outs_empty:
            a2 = qtn.Tensor(rng.integers(2, 5, size=(2, 3)).astype(float), ("k", "m"), tags=["A", "A2"])
        else:
            a2 = qtn.Tensor(rng.integers(2, 5, size=(2, 3, 2)).astype(float), ("k", "m", "x"), tags=["A", "A2"])
        ts = [a1, a2]
        if not rest_empty:
            if outs_empty:
                ts.append(qtn.Tensor(rng.integers(2, 5, size=(2,)).astype(float), ("y",), tags=["B"]))
            else:
                ts.append(qtn.Tensor(rng.integers(2, 5, size=(2, 2)).astype(float), ("x", "y"), tags=["B"]))
        tn = qtn.TensorNetwork(ts)
        tn.exponent = e0
        return tn

    def reference(tn, outs):
        return _dense_of(tn.copy(), outs)

    # ---- contract_tags over the full cube -------------------------------------------------------------------
    real_tc = tc.tensor_contract
    for strip, eq, inplace, preserve, oe, rest_empty, exp_zero in itertools.product(
            (False, True), ("auto", True, False), (False, True), (False, True), (False, True), (False, True), (False, True)):
        e0 = 0.0 if exp_zero else float(rng.choice([-2.0, -1.0, 1.0, 2.0, 3.0]))
        tn = mk(oe, rest_empty, e0)
        outs = tuple(ix for ix in ("x", "y") if ix in tn.ind_map and len(tn.ind_map[ix]) == 1)
        ref = reference(tn, outs)
        seen = {}

        def traced(*a, **kw):
            seen["strip"] = bool(kw.get("strip_exponent", False))
            seen["preserve"] = bool(kw.get("preserve_tensor", False))
            return real_tc(*a, **kw)

        desc = {"fn": "contract_tags", "strip_exponent": strip, "equalize_norms": eq, "inplace": inplace,
                "preserve_tensor": preserve, "scalar_output": oe, "tags_cover_all": rest_empty, "exponent": e0}
        tc.tensor_contract = traced
        try:
            res = tn.contract_tags("A", strip_exponent=strip, equalize_norms=eq, inplace=inplace,
                                   preserve_tensor=preserve, optimize="greedy")
        except Exception as e:
            ctx.violation("exponent_flow:contract_tags:raised", f"contract_tags({desc}) raised {type(e).__name__}: {e}", desc)
            continue
        finally:
            tc.tensor_contract = real_tc
        kind = _kind_of(res)
        changed = kind == "KNet" and float(res.exponent) != e0
        eqc = {"auto": "EqAuto", True: "EqTrue", False: "EqFalse"}[eq]
        add(f"shape_eqb (contract_tags_shape {_b(strip)} {eqc} {_b(inplace)} {_b(preserve)} {_b(oe)} {_b(rest_empty)} "
            f"{_b(exp_zero)}) ({_b(seen.get('strip'))}, {_b(seen.get('preserve'))}, {kind}, {_b(changed)})",
            {**desc, "observed": [seen.get("strip"), seen.get("preserve"), kind, changed]})
        ctx.count(("ct", strip, eq, inplace, preserve, oe, rest_empty, exp_zero), True)
        ctx.bump("exponent_flow:contract_tags")
        got = _dense_of(res, outs)
        if got.shape != ref.shape or not np.allclose(got, ref, rtol=1e-9, atol=1e-9):
            ctx.violation("exponent_flow:contract_tags:value",
                          f"contract_tags({desc}) returns an object denoting {got[:4]} instead of {ref[:4]}", desc)

    # ---- tensor_contract --------------------------------------------------------------------------------------
    for strip, has_exp, oe, preserve in itertools.product((False, True), repeat=4):
        tn = mk(oe, True, 0.0)
        outs = () if oe else ("x",)
        bex = float(rng.choice([-2.0, -1.0, 1.0, 2.0]))
        ref = reference(tn, outs) * (10.0 ** bex if has_exp else 1.0)
        desc = {"fn": "tensor_contract", "strip_exponent": strip, "exponent": bex if has_exp else None,
                "scalar_output": oe, "preserve_tensor": preserve}
        try:
            res = qtn.tensor_contract(*tn.tensors, strip_exponent=strip, exponent=bex if has_exp else None,
                                      preserve_tensor=preserve, optimize="greedy")
        except Exception as e:
            ctx.violation("exponent_flow:tensor_contract:raised", f"tensor_contract({desc}) raised {type(e).__name__}: {e}", desc)
            continue
        add(f"kind_eqb (tensor_contract_shape {_b(strip)} {_b(oe)} {_b(preserve)}) {_kind_of(res)}", desc)
        ctx.count(("tc", strip, has_exp, oe, preserve), True)
        ctx.bump("exponent_flow:tensor_contract")
        got = _dense_of(res, outs)
        if got.shape != ref.shape or not np.allclose(got, ref, rtol=1e-9, atol=1e-9):
            ctx.violation("exponent_flow:tensor_contract:value",
                          f"tensor_contract({desc}) returns an object denoting {got[:4]} instead of {ref[:4]}", desc)

    # ---- TensorNetwork.contract dispatch ----------------------------------------------------------------------
    for all_tags, inplace, strip, exp_zero in itertools.product((False, True), repeat=4):
        e0 = 0.0 if exp_zero else float(rng.choice([-2.0, -1.0, 1.0, 2.0]))
        tn = mk(False, False, e0)
        outs = ("y",) if all_tags else ("y",)
        ref = reference(tn, outs)
        called = {"ct": False}
        real_ct = qtn.TensorNetwork.contract_tags

        def traced_ct(self, *a, **kw):
            called["ct"] = True
            return real_ct(self, *a, **kw)

        desc = {"fn": "contract", "tags": "all" if all_tags else "A", "inplace": inplace, "strip_exponent": strip, "exponent": e0}
        qtn.TensorNetwork.contract_tags = traced_ct
        try:
            res = tn.contract(all if all_tags else "A", inplace=inplace, strip_exponent=strip, optimize="greedy")
        except Exception as e:
            ctx.violation("exponent_flow:contract:raised", f"contract({desc}) raised {type(e).__name__}: {e}", desc)
            continue
        finally:
            qtn.TensorNetwork.contract_tags = real_ct
        add(f"Bool.eqb (contract_dispatch {_b(all_tags)} {_b(inplace)}) {_b(not called['ct'])}", desc)
        ctx.count(("dispatch", all_tags, inplace, strip, exp_zero), True)
        ctx.bump("exponent_flow:contract")
        got = _dense_of(res, outs)
        if got.shape != ref.shape or not np.allclose(got, ref, rtol=1e-9, atol=1e-9):
            ctx.violation("exponent_flow:contract:value",
                          f"contract({desc}) returns an object denoting {got[:4]} instead of {ref[:4]}", desc)

    # ---- maybe_unwrap -----------------------------------------------------------------------------------------
    for (is_net, n_one, preserve_tn, preserve, strip, oe, eqz), e0 in itertools.product(
            itertools.product((False, True), repeat=7), (-2.0, 0.0, 3.0)):
        if not is_net and (not n_one or preserve_tn or eqz or e0 != 0.0):
            continue
        if oe:
            ts = [qtn.Tensor(np.asarray(float(rng.integers(2, 6))), (), tags=["A"])]
        else:
            ts = [qtn.Tensor(rng.integers(2, 5, size=(2, 3)).astype(float), ("x", "y"), tags=["A"])]
        if not n_one:
            ts.append(qtn.Tensor(rng.integers(2, 5, size=(2,)).astype(float), ("z",), tags=["B"]))
        outs = tuple(ix for t in ts for ix in t.inds)
        if is_net:
            obj = qtn.TensorNetwork(ts)
            obj.exponent = e0
            ref = reference(obj, outs)
        else:
            obj = ts[0].copy()
            ref = np.asarray(obj.data, dtype=float).reshape(-1)
        desc = {"fn": "maybe_unwrap", "network": is_net, "one_tensor": n_one, "preserve_tensor_network": preserve_tn,
                "preserve_tensor": preserve, "strip_exponent": strip, "scalar": oe, "equalize_norms": eqz, "exponent": e0}
        try:
            res = tc.maybe_unwrap(obj, preserve_tensor_network=preserve_tn, preserve_tensor=preserve,
                                  strip_exponent=strip, equalize_norms=eqz, output_inds=outs[::-1] if n_one and not oe else None)
        except Exception as e:
            ctx.violation("exponent_flow:maybe_unwrap:raised", f"maybe_unwrap({desc}) raised {type(e).__name__}: {e}", desc)
            continue
        add(f"kind_eqb (maybe_unwrap_shape {_b(is_net)} {_b(n_one)} {_b(preserve_tn)} {_b(preserve)} {_b(strip)} {_b(oe)}) "
            f"{_kind_of(res)}", desc)
        ctx.count(("mu", is_net, n_one, preserve_tn, preserve, strip, oe, eqz, e0), True)
        ctx.bump("exponent_flow:maybe_unwrap")
        got = _dense_of(res, outs)
        if got.shape != ref.shape or not np.allclose(got, ref, rtol=1e-9, atol=1e-9):
            ctx.violation("exponent_flow:maybe_unwrap:value",
                          f"maybe_unwrap({desc}) returns an object denoting {got[:4]} instead of {ref[:4]}", desc)

    # ---- contract_cumulative over its option cube (numerical: rounds x maybe_unwrap) ---------------------------
    for strip, eq, inplace, preserve, e0, closed in itertools.product(
            (False, True), ("auto", True, False), (False, True), (False, True), (0.0, -2.0, 1.0), (False, True)):
        exp_zero = e0 == 0.0
        L = int(rng.integers(3, 6))
        ts = []
        for k in range(L):
            inds = tuple(ix for ix in (f"b{k - 1}" if k > 0 else None, f"b{k}" if k < L - 1 else None,
                                       None if closed else (f"p{k}" if k % 2 == 0 else None)) if ix)
            ts.append(qtn.Tensor(rng.integers(1, 4, size=(2,) * len(inds)).astype(float), inds, tags=[f"S{k}"]))
        tn = qtn.TensorNetwork(ts)
        tn.exponent = e0
        outs = tuple(ix for ix in tn.outer_inds())
        ref = reference(tn, outs)
        order = list(rng.permutation(L))
        groups, i = [], 0
        while i < L:
            g = int(rng.integers(1, 3))
            groups.append([f"S{k}" for k in order[i:i + g]])
            i += g
        desc = {"fn": "contract_cumulative", "groups": groups, "strip_exponent": strip, "equalize_norms": eq,
                "inplace": inplace, "preserve_tensor": preserve, "exponent": e0, "closed": closed}
        try:
            res = tn.contract_cumulative(groups, strip_exponent=strip, equalize_norms=eq, inplace=inplace,
                                         preserve_tensor=preserve, optimize="greedy")
        except Exception as e:
            ctx.violation("exponent_flow:contract_cumulative:raised",
                          f"contract_cumulative({desc}) raised {type(e).__name__}: {e}", desc)
            continue
        ctx.count(("cum", strip, eq, inplace, preserve, exp_zero, closed), True)
        ctx.bump("exponent_flow:contract_cumulative")
        got = _dense_of(res, outs)
        if got.shape != ref.shape or not np.allclose(got, ref, rtol=1e-9, atol=1e-9):
            ctx.violation("exponent_flow:contract_cumulative:value",
                          f"contract_cumulative({desc}) returns an object denoting {got[:4]} instead of {ref[:4]}", desc)

    failed, errors = ctx.coq_cases("expshape", EXP_HEADER, cases, shard=200)
    for path, err in errors:
        ctx.broken_obligation("correspondence:" + path.split("/")[-1], err)
    seenk = set()
    for c in failed:
        d = info[c]
        key = f"exponent_flow:{d['fn']}:shape"
        if key in seenk:
            continue
        seenk.add(key)
        # the implementation's observable decisions differ from the model whose flow is proved sound: report with the
        # concrete option combination (the value comparison above tells whether the denoted value is wrong as well)
        ctx.violation(key, f"{d['fn']} with {d} does not have the return shape / exponent routing of the proved model "
                           "(coq/C01/Exponent.v)", d)
    ctx.extra["coq_cases_exponent_flow"] = len(cases)


def run(ctx):
    ctx.extra["rule"] = RULE
    ctx.trusted_base += [
        "network semantics coq/Base/TN.v (value = sum over summed labels of the product of tensor entries) instantiated "
        "for Z[i] in coq/Base/TNExec.v; `dense` is executed by vm_compute on the dumped arrays of the implementation's "
        "input network and compared with the implementation's result",
        "modelled, not verified: cotengra's execution of a path (array_contract), float round-off, non-numpy backends; "
        "the route programs themselves are covered by correspondence (every route x flag on every generated network), "
        "not by a theorem about their Python control flow",
    ]
    ctx.assumptions += ["hyper labels crossing a partial-contraction cut must be given as output_inds (documented); "
                        "tag-by-tag / cumulative / inferred-output routes are exercised on networks without hyper labels"]
    ctx.check_props(["Base/Sums.vo", "Base/TN.vo", "Base/TNExec.vo", "C04/Rules.vo", "C04/Proofs.vo", "C01/Exponent.vo",
                     "C13/Network.vo", "C01/Norm.vo", "C01/Props.v", "C01/PropsExp.v", "C01/PropsNorm.v"])
    ctx.stage(exponent_shapes)
    ctx.stage(correspondence)
    ctx.stage(linop_views)
    ctx.stage(tiny_values)


def replay(ctx, path):
    run(ctx)

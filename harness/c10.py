"""C10 - DMRG is variational and reports the energy of the state it returns.

Proof part (coq/C10): over any commutative ring with involution - the value of
a stacked ket/operator/bra network as a sum over the shared physical labels
(layered_value); the labels `tensor_network_align` assigns and hence which
label of H meets the ket: the stack (bra, ham, ket) denotes <psi|H|psi> in the
library's operator-on-state convention, the stack (ket, ham, bra) - the one
DMRG.__init__ builds - denotes <psi|H^T|psi> = the energy of the conjugate
state (positive theorem for symmetric H / real states, `_refuted` witness
sigma_y, psi=(1,i)); effective Hamiltonian = restriction, isometric
environments preserve norms, local update monotone; variational bound from a
sum-of-squares certificate; bond caps of 1-/2-site sweeps and of solve();
schedule iterator; which number `energy` exposes; the schedule machine over the whole
life of a DMRG object (coq/C10/Schedule.v: iterator machine = documented closed form
for every history of solve() calls, exhausted schedules hold their FINAL entry,
bonds after any history of 2-site sweeps obey the cap of the last sweep).

Tie (H, exact, evaluated in Coq with vm_compute): tensor_network_align on every
stack of <= 4 layers; DMRG's energy network and effective Hamiltonians on
Gaussian-integer MPOs / integer kets vs the network semantics and vs the
library's own psi.H @ H.apply(psi) and dense algebra; schedule / canonize /
bond-dimension / energies bookkeeping of real runs vs the sweep machine; the
max_bond / cutoff / direction / canonize arguments every sweep receives over
histories of solve() calls (scripted and real) vs Model.dmrg_history.

Oracle (tolerance, a test): real DMRG1 / DMRG2 runs.
"""

import itertools
import json
import re

import numpy as np

from harness import tnmodel as tm
from harness.common import natlist, natlit

RULE = (
    "align: every stack of 1-4 layers over {vector, operator} (+trace on operator stacks). exact: Gaussian-integer "
    "nearest-neighbour MPOs (XXZ / DM / Y-field / random Hermitian integer terms, site dependent fields, d=2,3, L=2,3) x "
    "integer or Gaussian-integer kets (bond 1-2) through DMRG / DMRG1 / DMRG2 / DMRGX construction: energy network, "
    "library convention, dense algebra, effective Hamiltonian at every site (1- and 2-site). oracle: DMRG1/DMRG2 runs, "
    "L 3-7, d 2-3, real-symmetric and complex-Hermitian MPOs (own builder and SpinHam1D), bond/cutoff schedules, sweep "
    "sequences, random / product / complex initial states. Non-trivial: complex H with complex state, >= 2 sweeps, "
    "truncating schedule, or effective Hamiltonian with both environments present. histories: bond_dims / cutoffs as scalar, "
    "list, tuple, range (both step signs), generator, ndarray, class default; sequences single / constant / increasing / "
    "decreasing / peak / valley / plateau-then-drop / random of length 1-4; 1-3 solve() calls with / without bond_dims= and "
    "cutoffs= arguments, fewer / as many / more sweeps than entries, with / without early convergence; DMRG (bsz 1, 2), DMRG1, "
    "DMRG2, DMRGX; scripted (sweep replaced by a recorder returning integer energies) and real runs on L=6-8 chains whose "
    "ground state needs more than the final cap. Non-trivial there: a sweep beyond the end of its schedule or >= 2 calls."
)

HEADER = tm.HEADER + (
    "From QV Require Import C10.Model C10.Energy C10.Network C10.Proofs.\n"
    "Fixpoint nl_eqb (a b : list nat) : bool := match a, b with [] , [] => true "
    "| x :: a', y :: b' => Nat.eqb x y && nl_eqb a' b' | _, _ => false end.\n"
    "Definition pr_eqb (a b : nat * nat) : bool := Nat.eqb (fst a) (fst b) && Nat.eqb (snd a) (snd b).\n"
    "Fixpoint pl_eqb (a b : list (nat * nat)) : bool := match a, b with [], [] => true "
    "| x :: a', y :: b' => pr_eqb x y && pl_eqb a' b' | _, _ => false end.\n"
    "Fixpoint pll_eqb (a b : list (list (nat * nat))) : bool := match a, b with [], [] => true "
    "| x :: a', y :: b' => pl_eqb x y && pll_eqb a' b' | _, _ => false end.\n"
    "Definition opll_eqb (a b : option (list (list (nat * nat)))) : bool := match a, b with Some x, Some y => pll_eqb x y "
    "| None, None => true | _, _ => false end.\n"
    "Definition cap_of_last (o : option (list (list (nat * nat)))) : nat := match o with Some l => fst (last (last l []) (0, 0)%nat) "
    "| None => 0%nat end.\n"
)

KEY_F11_NET = "dmrg:energy_network:complex_hermitian_mpo:ket_on_upper_index"
KEY_F11_EN = "dmrg:reported_energy:complex_hermitian_mpo:conjugate_state"
KEY_F11_GS = "dmrg:ground_state:complex_hermitian_mpo:conjugate_state"
KEY_NORM = "dmrg2:normalisation:max_bond_below_phys_dim:truncating_final_update"
KEY_NORM_EN = "dmrg2:reported_energy:max_bond_below_phys_dim:truncating_final_update"
KEY_L2 = "dmrg2:raised:two_site_chain:leftward_sweep"
CUTOFF_MODES = ["sum2", "rsum2", "sum1", "rsum1", "rel", "abs"]
CMODE_COQ = {"abs": "CAbs", "rel": "CRel", "sum2": "CSum2", "rsum2": "CRsum2", "sum1": "CSum1", "rsum1": "CRsum1"}
KEY_POS = "dmrg1:total_energy:positive_ground_energy:uncanonized_sweep_after_bond_expansion"
KEY_NOISE = "dmrg1:total_energy:expansion_noise_ge_1e-5:uncanonized_sweep_after_bond_expansion"

# ----------------------------------------------------------------------------
# builders


def paulis():
    X = np.array([[0, 1], [1, 0]], complex)
    Y = np.array([[0, -1j], [1j, 0]])
    Z = np.diag([1.0, -1.0]).astype(complex)
    return X, Y, Z


def gauss_herm(rng, d, cplx, amp=2):
    """random Hermitian (Gaussian-)integer d x d matrix"""
    a = np.zeros((d, d), complex)
    for i in range(d):
        a[i, i] = rng.randint(-amp, amp)
        for j in range(i + 1, d):
            z = complex(rng.randint(-amp, amp), rng.randint(-amp, amp) if cplx else 0)
            a[i, j] = z
            a[j, i] = z.conjugate()
    return a


def int_model(rng, L, d, cplx, kmax):
    """terms [(A, B)] (A on site i, B on site i+1, all Hermitian) and per-site fields; all (Gaussian) integers"""
    terms = []
    if d == 2:
        X, Y, Z = paulis()
        pool_real = [[(X, X)], [(Z, Z)], [(Y, Y)], [(X, X), (Y, Y)], [(rng.randint(1, 2) * Z, Z), (X, X)], [(X, Z), (Z, X)]]
        pool_cplx = [[(X, Y), (-Y, X)], [(X, Y)], [(Y, Z), (Z, Z)], [(rng.randint(1, 2) * X, Y), (-Y, X)], [(Z, Y), (-Y, Z)]]
        fam = rng.choice(pool_cplx if cplx else pool_real)
        terms = [(np.array(a), np.array(b)) for a, b in fam][:kmax]
        fields = []
        for _ in range(L):
            f = rng.randint(-2, 2) * Z + rng.randint(-1, 1) * X
            if cplx:
                f = f + rng.randint(-2, 2) * Y
            fields.append(f)
        if cplx and not any(np.abs(np.imag(np.kron(a, b))).max() > 0 for a, b in terms) and not any(np.abs(f.imag).max() > 0 for f in fields):
            fields[0] = fields[0] + Y
    else:
        k = rng.randint(1, kmax)
        terms = [(gauss_herm(rng, d, cplx), gauss_herm(rng, d, cplx)) for _ in range(k)]
        fields = [gauss_herm(rng, d, cplx) for _ in range(L)]
    return terms, fields


def float_model(nrng, L, d, cplx, k=2):
    def rh():
        a = nrng.normal(size=(d, d)) + (1j * nrng.normal(size=(d, d)) if cplx else 0)
        return (a + a.conj().T) / 2

    return [(rh(), rh()) for _ in range(k)], [0.5 * rh() for _ in range(L)]


def mpo_nn(L, terms, fields, d):
    """H = sum_i sum_k A_k(i) B_k(i+1) + sum_i F_i(i) as an MPO (lower-triangular W)"""
    import quimb.tensor as qtn

    K = len(terms)
    D = K + 2
    arrays = []
    for i in range(L):
        W = np.zeros((D, D, d, d), complex)
        W[0, 0] = np.eye(d)
        W[D - 1, D - 1] = np.eye(d)
        for k, (A, B) in enumerate(terms):
            W[k + 1, 0] = B
            W[D - 1, k + 1] = A
        W[D - 1, 0] = fields[i]
        if i == 0:
            arrays.append(W[D - 1, :])
        elif i == L - 1:
            arrays.append(W[:, 0])
        else:
            arrays.append(W)
    return qtn.MatrixProductOperator(arrays, shape="lrud")


def dense_ref(L, terms, fields, d):
    """plain numpy reference: rows = kets' composite index, site 0 most significant"""

    def op(o, i):
        r = np.eye(1)
        for j in range(L):
            r = np.kron(r, o if j == i else np.eye(d))
        return r

    H = np.zeros((d**L, d**L), complex)
    for i in range(L):
        H = H + op(fields[i], i)
        if i < L - 1:
            for A, B in terms:
                H = H + op(A, i) @ op(B, i + 1)
    return H


def rand_int_mps(rng, L, d, chi, cplx):
    import quimb.tensor as qtn

    def arr(shape):
        n = int(np.prod(shape))
        v = np.array([complex(rng.randint(-2, 2), rng.randint(-2, 2) if cplx else 0) for _ in range(n)])
        if not np.any(v):
            v[0] = 1
        return v.reshape(shape)

    arrays = []
    for i in range(L):
        if i == 0:
            arrays.append(arr((chi, d)))
        elif i == L - 1:
            arrays.append(arr((chi, d)))
        else:
            arrays.append(arr((chi, chi, d)))
    return qtn.MatrixProductState(arrays, shape="lrp")


def is_complex_ham(Hd):
    """Hermitian but not symmetric: H^T != H"""
    return bool(np.abs(Hd - Hd.T).max() > 1e-12)


# ----------------------------------------------------------------------------
# stage 1: tensor_network_align vs the model


def align_stream(ctx, col):
    import quimb.tensor as qtn

    nal = 0
    L = 2
    for n in range(1, 5):
        for kinds in itertools.product("VO", repeat=n):
            for trace in (False, True):
                if trace and not (kinds[0] == "O" and kinds[-1] == "O"):
                    continue
                names = {}
                tns, lits = [], []
                for j, kd in enumerate(kinds):
                    if kd == "V":
                        sid = f"s{j}x{{}}"
                        names[sid] = len(names)
                        tns.append(qtn.MPS_computational_state("0" * L, site_ind_id=sid))
                        lits.append(f"LVec {names[sid]}")
                    else:
                        u, lo = f"u{j}x{{}}", f"l{j}x{{}}"
                        names[u] = len(names)
                        names[lo] = len(names)
                        tns.append(qtn.MPO_identity(L, upper_ind_id=u, lower_ind_id=lo))
                        lits.append(f"LOp {names[u]} {names[lo]}")

                def code(nm):
                    if nm in names:
                        return names[nm]
                    m = re.fullmatch(r"__ind_([a-z])\{\}__", nm)
                    if m:
                        return 1000 + ord(m.group(1)) - ord("a")
                    raise ValueError(f"unexpected index id {nm!r}")

                try:
                    out = qtn.tensor_network_align(*tns, trace=trace)
                    obs = []
                    for t, kd in zip(out, kinds):
                        if kd == "V":
                            obs.append(f"LVec {code(t.site_ind_id)}")
                        else:
                            obs.append(f"LOp {code(t.upper_ind_id)} {code(t.lower_ind_id)}")
                            # the attribute must describe the actual labels on the tensors
                            if not all(t.upper_ind(i) in t[i].inds and t.lower_ind(i) in t[i].inds for i in range(L)):
                                raise ValueError("operator ids do not match its tensors")
                    obs_lit = "(Some [" + "; ".join(obs) + "])"
                except ValueError as e:
                    if "unexpected index id" in str(e) or "do not match" in str(e):
                        raise
                    obs_lit = "None"
                fn = "align_trace" if trace else "align"
                col.add({"kind": "align", "check": "align", "kinds": "".join(kinds), "trace": trace, "observed": obs_lit},
                        f"olayers_eqb ({fn} [" + "; ".join(lits) + f"]) {obs_lit}", on_fail=align_fail)
                nal += 1
                ctx.count(("align", kinds, trace), n >= 2)
                ctx.bump("align")
    ctx.extra["align_cases"] = nal


def align_fail(ctx, dsc):
    ctx.violation("align:labels", "tensor_network_align assigns labels different from the model of its documented stacking "
                  "(ind_ids[i] between layer i and i+1)", dsc)


# ----------------------------------------------------------------------------
# stage 2: exact correspondence on integer data


class Collector:
    """all Coq cases of a run are collected and evaluated by ONE coq_cases call (8 files in parallel)"""

    def __init__(self):
        self.cases = []
        self.info = {}
        self.on_fail = {}

    def add(self, desc, expr, on_fail=None):
        cid = len(self.cases) + 1
        self.cases.append((cid, expr))
        self.info[cid] = desc
        self.on_fail[cid] = on_fail
        return cid


def flush(ctx, col, name="cases"):
    if not col.cases:
        return
    jobs = 3 if ctx.quick else 6
    # round-robin so that every file gets the same mix of cheap and expensive cases
    order = sorted(col.cases, key=lambda c: (c[0] % jobs, c[0]))
    shard = min(400, max(1, -(-len(order) // jobs)))
    failed, errors = ctx.coq_cases(name, HEADER, order, shard=shard, jobs=jobs)
    for path, err in errors:
        ctx.broken_obligation("correspondence:" + path.split("/")[-1], err)
    col.failed = set(failed)
    col.errors = errors
    for c in sorted(failed):
        h = col.on_fail.get(c)
        if h is not None:
            h(ctx, col.info[c])
        else:
            ctx.violation("correspondence:" + str(col.info[c].get("check", "?")), "model and implementation disagree", col.info[c])
    ctx.extra["coq_cases"] = ctx.extra.get("coq_cases", 0) + len(col.cases)


def observe_order(dm):
    """True when the ket's physical labels are the UPPER labels of the Hamiltonian inside DMRG's energy network"""
    up = dm._k.site_ind_id == dm.ham.upper_ind_id and dm._b.site_ind_id == dm.ham.lower_ind_id
    lo = dm._k.site_ind_id == dm.ham.lower_ind_id and dm._b.site_ind_id == dm.ham.upper_ind_id
    if up == lo:
        raise ValueError("energy network is not a ket|ham|bra stack")
    return up


def lib_convention_tensors(dm):
    """the tensors of DMRG's own network, relabelled so that the BRA meets the UPPER label of H and the KET
    the LOWER label (the library's apply_op_vec / to_dense convention)"""
    L = dm.L
    ket = [(tuple(t.inds), np.asarray(t.data)) for t in dm._k.tensors]
    out = list(ket)
    for i in range(L):
        t = dm.ham[i]
        ren = {dm.ham.upper_ind(i): f"@B{i}", dm.ham.lower_ind(i): dm._k.site_ind(i)}
        out.append((tuple(ren.get(x, x) for x in t.inds), np.asarray(t.data)))
    for i in range(L):
        t = dm._b[i]
        ren = {dm._b.site_ind(i): f"@B{i}"}
        out.append((tuple(ren.get(x, x) for x in t.inds), np.asarray(t.data)))
    return out


def gl(x):
    return tm.glist(np.asarray(x).reshape(-1))


def exact_case(ctx, col, rng, n, spec=None):
    import quimb.tensor as qtn
    from quimb.tensor.tn1d.dmrg import MovingEnvironment

    if spec is None:
        d = 2 if rng.random() < 0.8 else 3
        L = rng.choice([2, 3, 3]) if d == 2 else 2
        hc = rng.random() < 0.6
        pc = rng.random() < 0.7
        chi = rng.choice([1, 2, 2])
        cls = rng.choice(["DMRG1", "DMRG2", "DMRG1", "DMRG2", "DMRGX"])
        sub = rng.getrandbits(30)
        spec = {"d": d, "L": L, "ham_complex": hc, "psi_complex": pc, "chi": chi, "cls": cls, "sub": sub}
    d, L, hc, pc, chi, cls = spec["d"], spec["L"], spec["ham_complex"], spec["psi_complex"], spec["chi"], spec["cls"]
    import random

    r2 = random.Random(spec["sub"])
    terms, fields = int_model(r2, L, d, hc, 2)
    H = mpo_nn(L, terms, fields, d)
    p0 = rand_int_mps(r2, L, d, chi, pc)
    desc = {"kind": "exact", "n": n, **spec,
            "terms": [[np.asarray(a).tolist(), np.asarray(b).tolist()] for a, b in terms],
            "fields": [np.asarray(f).tolist() for f in fields],
            "ket": [np.asarray(t.data).tolist() for t in p0.tensors]}
    desc = json.loads(json.dumps(desc, default=str))
    if n < 3:
        ctx.sample({k: desc[k] for k in ("d", "L", "ham_complex", "psi_complex", "chi", "cls")})
    Hd = np.asarray(H.to_dense())
    Href = dense_ref(L, terms, fields, d)
    v = np.asarray(p0.to_dense()).reshape(-1)
    nontriv = is_complex_ham(Href) and bool(np.abs(v.imag).max() > 0)
    ctx.bump(f"exact:{cls}")
    ctx.bump("exact:complexH_complexpsi" if nontriv else "exact:symmetricH_or_realpsi")

    # the MPO builder / to_dense convention against the plain Kronecker reference (rows = upper = ket index)
    ctx.count(("exact", n, "to_dense"), True)
    if not np.array_equal(Hd, Href):
        ctx.violation("convention:mpo_to_dense", "MPO.to_dense() differs from the Kronecker-product reference (rows must be the upper labels)", desc)
        return
    if cls == "DMRGX":
        dm = qtn.DMRGX(H, p0, bond_dims=[max(chi, 2)], bsz=1)
    else:
        dm = getattr(qtn, cls)(H, bond_dims=[max(chi, 2)], p0=p0)
    ket_upper = observe_order(dm)
    ctx.extra["observed_ket_on_upper_label"] = bool(ket_upper)

    # library convention, computed by the implementation
    E_lib = complex(p0.H @ H.apply(p0))
    E_dense = complex(v.conj() @ Hd @ v)
    E_T = complex(v @ Hd @ v.conj())
    net = tm.qtn_tensors(dm.TN_energy)
    E_net = complex(dm.TN_energy ^ ...)
    lib = lib_convention_tensors(dm)

    # (a) the implementation's contraction of its energy network = the network's value (model: Base/TN `dense`)
    col.add({**desc, "check": "a:TN_energy value"}, tm.dense_check_expr(net, (), 0, [E_net]), exact_fail)
    # (b) library convention network (bra on upper, ket on lower) = psi.H @ H.apply(psi)
    col.add({**desc, "check": "b:apply convention"}, tm.dense_check_expr(lib, (), 0, [E_lib]), exact_fail)
    # (c) dense algebra: herm_form of H.to_dense(), psi.to_dense() = the same number
    D = d**L
    col.add({**desc, "check": "c:dense convention"},
            f"geqb (gherm {D} (lmat {D} {gl(Hd)}) (lvec {gl(v)})) {tm.glit(E_lib)}", exact_fail)
    # (c') and the model's prediction for the stack DMRG builds
    col.add({**desc, "check": "c2:model prediction for observed stack"},
            f"geqb ({'gdmrg' if ket_upper else 'gherm'} {D} (lmat {D} {gl(Hd)}) (lvec {gl(v)})) {tm.glit(E_net)}", exact_fail)
    # (d) DMRG's network must denote the library-convention expectation  (F11)
    cid_d = col.add({**desc, "check": "d:dmrg network = <psi|H|psi>", "E_network": str(E_net), "E_lib": str(E_lib)},
                    tm.same_value_expr(net, 0, lib, 0, ()), exact_fail)
    ctx.count(("exact", n, "network"), nontriv, n=4)
    # direct oracle on the same case (integers: exact in floats)
    if E_lib != E_dense:
        ctx.violation("convention:apply_vs_dense", "psi.H @ H.apply(psi) differs from dense <psi|H|psi> on integer data",
                      {**desc, "E_lib": str(E_lib), "E_dense": str(E_dense)})
    if E_net != E_lib:
        if E_net == E_T and is_complex_ham(Hd):
            ctx.violation(KEY_F11_NET, "DMRG's energy network (ket aligned on the UPPER label of the MPO) denotes <psi|H^T|psi>, "
                          "not <psi|H|psi> = psi.H @ H.apply(psi)", {**desc, "E_network": str(E_net), "E_lib": str(E_lib)})
            col.info[cid_d]["expected_known"] = True
        else:
            ctx.violation("dmrg:energy_network", "DMRG's energy network does not denote psi.H @ H.apply(psi)",
                          {**desc, "E_network": str(E_net), "E_lib": str(E_lib)})
    # DMRGX second-moment network: <psi|H^2|psi> in the same convention as the energy network
    if cls == "DMRGX":
        E2 = complex(dm.TN_energy2 ^ ...)
        ref2 = complex(v @ Hd @ Hd @ v.conj()) if ket_upper else complex(v.conj() @ Hd @ Hd @ v)
        ctx.count(("exact", n, "dmrgx2"), True)
        if E2 != ref2:
            ctx.violation("dmrgx:energy2_network", "DMRGX's TN_energy2 is not the second moment in the convention of its TN_energy",
                          {**desc, "E2": str(E2), "ref": str(ref2)})
        if complex(dm.energies[-1]) != E_net:
            ctx.violation("dmrgx:initial_energy", "DMRGX initial energy is not the value of its energy network", desc)
        return

    # (e) effective Hamiltonians
    bsz = dm.bsz
    for begin in ("left", "right"):
        sites = list(range(0, L - bsz + 1))
        if begin == "right" and len(sites) == 1:
            # MovingEnvironment(begin='right') with a single position raises (known finding KEY_L2, exercised by the oracle stream)
            ctx.bump("heff:single_position_right_skipped")
            continue
        dm.ME_eff_ham = MovingEnvironment(dm.TN_energy, begin=begin, bsz=bsz)
        order = sites if begin == "left" else sites[::-1]
        for i in order:
            dm.ME_eff_ham.move_to(i)
            if bsz == 1:
                uix, lix = dm._k[i].inds, dm._b[i].inds
                dims = dm._k[i].shape
                x = np.asarray(dm._k[i].data).reshape(-1)
            else:
                from quimb.tensor.tn1d.dmrg import parse_2site_inds_dims

                dims, _, _, lix, _, _, uix, _, _ = parse_2site_inds_dims(dm._k, dm._b, i)
                x = np.asarray(dm._k[i].contract(dm._k[i + 1]).to_dense(uix)).reshape(-1)
            Heff, Neff = dm.form_local_ops(i, dims, lix, uix)
            Heff = np.asarray(Heff)
            m = int(np.prod(dims))
            hole = [(tuple(t.inds), np.asarray(t.data)) for t in dm.TN_energy.tensors
                    if not (("_KET" in t.tags or "_BRA" in t.tags) and any(f"I{j}" in t.tags for j in range(i, i + bsz)))]
            both_envs = 0 < i and i + bsz < L
            ctx.count(("exact", n, "heff", begin, i), both_envs, n=2)
            ctx.bump(f"heff:bsz{bsz}")
            dsc = {**desc, "site": i, "begin": begin}
            if Heff.shape != (m, m) or Neff is not None:
                ctx.violation("dmrg:heff:shape", "effective operators have the wrong shape / an effective norm for OBC", dsc)
                continue
            # e1: Heff (rows = bra labels, columns = ket labels) is the energy network with the site tensors removed
            col.add({**dsc, "check": "e1:Heff = network with hole"}, tm.dense_check_expr(hole, tuple(lix) + tuple(uix), 0, Heff), exact_fail)
            # e2: <x|Heff|x> = value of the whole network (restriction)
            col.add({**dsc, "check": "e2:<x|Heff|x> = network value"},
                    f"geqb (gherm {m} (lmat {m} {gl(Heff)}) (lvec {gl(x)})) {tm.glit(E_net)}", exact_fail)
            # numpy oracle: Heff = P^dagger M P, P the ket environment, M = H^T (ket on upper) or H
            P = env_matrix(dm, i, bsz, uix)
            M = Hd.T if ket_upper else Hd
            if not np.array_equal(P.conj().T @ M @ P, Heff):
                ctx.violation("dmrg:heff", "effective Hamiltonian is not the restriction P^dagger H P of the operator its energy network denotes", dsc)
            # the OTHER local-operator path: the lazy TNLinearOperator (taken when prod(dims) >= 800 or forced)
            linop_path(ctx, col, r2, dm, i, dims, lix, uix, hole, P.conj().T @ M @ P, Heff, m, dsc, both_envs)


def linop_path(ctx, col, r2, dm, i, dims, lix, uix, hole, Hmodel, Hdense, m, dsc, both_envs):
    """form_local_ops with opts['local_eig_ham_dense'] = False: the effective Hamiltonian as a linear operator.  It must
    act exactly as the restriction P^dagger H P: matvec on integer vectors (checked in Coq against the network with the
    site tensors removed and the vector plugged into the KET labels), to_dense, rmatvec (numpy, exact integers)."""
    import scipy.sparse.linalg as spla

    saved = dm.opts["local_eig_ham_dense"]
    dm.opts["local_eig_ham_dense"] = False
    try:
        A, Neff = dm.form_local_ops(i, dims, lix, uix)
    finally:
        dm.opts["local_eig_ham_dense"] = saved
    ctx.count(("exact", dsc["n"], "heff_linop", dsc["begin"], i), both_envs, n=4)
    ctx.bump("heff:linear_operator")
    dl = {**dsc, "path": "TNLinearOperator"}
    if not isinstance(A, spla.LinearOperator) or isinstance(A, np.ndarray):
        ctx.violation("dmrg:heff:linear_operator:type", "local_eig_ham_dense=False does not produce a linear operator", dl)
        return
    if tuple(A.shape) != (m, m) or Neff is not None:
        ctx.violation("dmrg:heff:linear_operator:shape", "lazy effective Hamiltonian has the wrong shape", dl)
        return
    cplx = bool(np.iscomplexobj(Hmodel) and np.abs(np.imag(Hmodel)).max() > 0)
    y = np.array([complex(r2.randint(-2, 2), r2.randint(-2, 2)) for _ in range(m)])
    try:
        Ay = np.asarray(A @ y).reshape(-1)
        Ad = np.asarray(A.to_dense())
        AHy = np.asarray(A.rmatvec(y)).reshape(-1)
    except Exception as e:
        ctx.violation("dmrg:heff:linear_operator:raised", f"lazy effective Hamiltonian raised {type(e).__name__}: {str(e)[:120]}", dl)
        return
    # Coq: the network with the hole, the vector on the ket labels, open bra labels
    shape = [int(d_) for d_ in dims]
    col.add({**dl, "check": "e3:linear operator matvec = network with hole applied to the vector", "y": [str(z) for z in y]},
            tm.dense_check_expr(hole + [(tuple(uix), y.reshape(shape))], tuple(lix), 0, Ay), exact_fail)
    bad = []
    if not np.array_equal(Ay, Hmodel @ y):
        bad.append("matvec != (P^dagger H P) y")
    if not np.array_equal(Ad, Hmodel):
        bad.append("to_dense != P^dagger H P")
    if not np.array_equal(AHy, Hmodel.conj().T @ y):
        bad.append("rmatvec != (P^dagger H P)^dagger y")
    if not np.array_equal(Ad, Hdense):
        bad.append("lazy and dense effective Hamiltonians differ")
    if bad:
        ctx.violation("dmrg:heff:linear_operator" + (":complex_hermitian_mpo" if cplx else ""),
                      "effective Hamiltonian wrapped as TNLinearOperator (local_eig_ham_dense=False / prod(dims) >= 800) is not the "
                      "restriction P^dagger H P: " + "; ".join(bad), dl)


def env_matrix(dm, i, bsz, uix):
    """P[(p_0..p_{L-1}), (uix)] : embedding of the local tensor into the full space (exact integers)"""
    import quimb.tensor as qtn

    L = dm.L
    k = dm._k
    ts = [k[j] for j in range(L) if not (i <= j < i + bsz)]
    extra = []
    phys_out = []
    for j in range(L):
        if i <= j < i + bsz:
            dj = k.ind_size(k.site_ind(j))
            extra.append(qtn.Tensor(np.eye(dj), inds=(f"@P{j}", k.site_ind(j))))
            phys_out.append(f"@P{j}")
        else:
            phys_out.append(k.site_ind(j))
    tn = qtn.TensorNetwork(ts + extra)
    return np.asarray(tn.to_dense(phys_out, list(uix)))


def exact_stream(ctx, col):
    rng = ctx.rng
    N = ctx.n(8, 100)
    for n in range(N):
        try:
            exact_case(ctx, col, rng, n)
        except tm.NotExact as e:
            ctx.broken_obligation("exact:not_exact", str(e))


def exact_fail(ctx, dsc):
    chk = dsc.get("check", "")
    if chk.startswith("d:"):
        if dsc.get("expected_known"):
            ctx.violation(KEY_F11_NET, "DMRG's energy network does not denote <psi|H|psi> (Coq: networks differ)", dsc)
        else:
            ctx.violation("dmrg:energy_network", "DMRG's energy network does not denote <psi|H|psi> (Coq: networks differ)", dsc)
    elif chk.startswith("e3"):
        ctx.violation("dmrg:heff:linear_operator", f"lazy effective Hamiltonian check failed against the Coq model ({chk})", dsc)
    elif chk.startswith("e"):
        ctx.violation("dmrg:heff", f"effective Hamiltonian check failed against the Coq model ({chk})", dsc)
    elif chk.startswith("a:"):
        ctx.violation("dmrg:energy_network:contraction", "TN_energy ^ ... is not the value of the network", dsc)
    elif chk.startswith("b:"):
        ctx.violation("convention:apply", "psi.H @ H.apply(psi) is not the (bra on upper, ket on lower) network value", dsc)
    else:
        ctx.violation("convention:dense", f"dense-algebra convention check failed against the Coq model ({chk})", dsc)


def exact_post(ctx, col):
    # a `d` case that passes in Coq although numpy says the networks differ: model and oracle disagree
    for cid, dsc in col.info.items():
        if dsc.get("expected_known") and cid not in getattr(col, "failed", set()) and not getattr(col, "errors", []):
            ctx.broken_obligation("exact:F11_model_mismatch", "numpy says the networks differ, Coq says they agree")
            break


# ----------------------------------------------------------------------------
# stage 3: oracle runs + bookkeeping correspondence


def spinham(L, d, cplx, nrng):
    import quimb.tensor as qtn

    S = 0.5 if d == 2 else 1
    b = qtn.SpinHam1D(S=S)
    jx, jy, jz = nrng.uniform(0.5, 1.5, 3) * nrng.choice([-1, 1], 3)
    b += jx, "X", "X"
    b += jy, "Y", "Y"
    b += jz, "Z", "Z"
    b += float(nrng.uniform(-1, 1)), "Z"
    b += float(nrng.uniform(-0.5, 0.5)), "X"
    if cplx:
        dm_ = float(nrng.uniform(0.3, 1.0))
        b += dm_, "X", "Y"
        b += -dm_, "Y", "X"
        b += float(nrng.uniform(0.3, 1.0)), "Y"
    for i in range(L):
        b[i] += float(nrng.uniform(-0.5, 0.5)), "Z"  # site-dependent field
    return b.build_mpo(L)


def oracle_spec(ctx, rng, n):
    d = 2 if rng.random() < 0.75 else 3
    if d == 2:
        L = rng.randint(3, 6 if ctx.quick else 7)
    else:
        L = rng.randint(3, 4)
    if rng.random() < 0.06:
        L = 2
    fam = rng.choice(["int", "float", "spinham"])
    cplx = rng.random() < 0.5
    bsz = rng.choice([1, 2])
    full = d ** (L // 2)
    cap_max = 8 if d == 2 else 4
    if not ctx.quick:
        cap_max = 16 if d == 2 else 9
    scheds = [[2], [3], [4], [2, 4], [2, 4, 8], [8], [4, 2], [3, 5], [16], [2, 3, 4, 6], [9]]
    scheds = [s for s in scheds if max(s) <= cap_max]
    if rng.random() < 0.4:
        scheds = [s for s in scheds if s[-1] >= full and s == sorted(s)] or [[min(full, cap_max)]]
    bds = rng.choice(scheds)
    if bsz == 1:
        bds = sorted(bds)  # 1-site: bond_dims is the dimension bonds are expanded to (non-decreasing schedule)
    cut = rng.choice([1e-10, 1e-12, [1e-6, 1e-10], [1e-8, 1e-12], 1e-14])
    seq = rng.choice(["R", "RL", "LR", "RRL", "L", "RLL"])
    p0 = rng.choice(["rand", "rand", "rand_chi1", "rand_complex", "product", "big"])
    spec = {"d": d, "L": L, "family": fam, "ham_complex": cplx, "bsz": bsz, "bond_dims": bds, "cutoffs": cut,
            "sweep_sequence": seq, "p0": p0, "max_sweeps": rng.randint(3, 7), "seed": rng.getrandbits(24)}
    spec["opts"] = rand_opts(rng, bsz) if rng.random() < 0.6 else {}
    return spec


def rand_opts(rng, bsz):
    """every switch of DMRG.opts that selects a code path for open boundaries (see get_default_opts)"""
    o = {}
    dense = rng.choice([None, True, False, False])
    if dense is not None:
        o["local_eig_ham_dense"] = dense  # False: effective Hamiltonian as a lazy TNLinearOperator
    backends = [None, "scipy", "lobpcg"] + (["numpy"] if dense is True else [])
    b = rng.choice(backends)
    if b is not None:
        o["local_eig_backend"] = b
    if rng.random() < 0.4:
        o["local_eig_tol"] = rng.choice([1e-3, 1e-6, 1e-10])
    if rng.random() < 0.3:
        o["local_eig_ncv"] = rng.choice([4, 8])
    if rng.random() < 0.2:
        o["local_eig_maxiter"] = 200
    if bsz == 2 and rng.random() < 0.4:
        o["bond_compress_method"] = rng.choice(["svd", "eig", "svds"])
    if bsz == 2 and rng.random() < 0.4:
        o["bond_compress_cutoff_mode"] = rng.choice(CUTOFF_MODES)
    if bsz == 1 and rng.random() < 0.4:
        o["bond_expand_rand_strength"] = rng.choice([1e-8, 1e-6, 1e-4])
    if rng.random() < 0.15:
        o["default_sweep_sequence"] = rng.choice(["RL", "R", "LR"])  # used when solve() gets no sweep_sequence
    return o


def build_ham(spec):
    import random

    L, d, cplx = spec["L"], spec["d"], spec["ham_complex"]
    nrng = np.random.default_rng(spec["seed"])
    if spec["family"] == "int":
        terms, fields = int_model(random.Random(spec["seed"]), L, d, cplx, 3)
        return mpo_nn(L, terms, fields, d), dense_ref(L, terms, fields, d)
    if spec["family"] == "float":
        terms, fields = float_model(nrng, L, d, cplx)
        return mpo_nn(L, terms, fields, d), dense_ref(L, terms, fields, d)
    H = spinham(L, d, cplx, nrng)
    return H, None


def build_p0(spec, H):
    import quimb.tensor as qtn

    L, d, kind = spec["L"], spec["d"], spec["p0"]
    chi0 = spec["bond_dims"][0]
    seed = spec["seed"] + 1
    if kind == "rand":
        return qtn.MPS_rand_state(L, chi0, phys_dim=d, dtype=H.dtype, seed=seed)
    if kind == "rand_chi1":
        return qtn.MPS_rand_state(L, 1, phys_dim=d, dtype=H.dtype, seed=seed)
    if kind == "rand_complex":
        return qtn.MPS_rand_state(L, chi0, phys_dim=d, dtype="complex128", seed=seed)
    if kind == "big":
        return qtn.MPS_rand_state(L, min(chi0 + 1, d ** (L // 2)), phys_dim=d, dtype=H.dtype, seed=seed)
    nrng = np.random.default_rng(seed)
    arrays = [nrng.normal(size=(1, 1, d))[(0 if i == 0 else slice(None))] for i in range(L)]
    arrays = []
    for i in range(L):
        a = nrng.normal(size=d)
        a /= np.linalg.norm(a)
        arrays.append(a.reshape((1, d) if i in (0, L - 1) else (1, 1, d)).astype(H.dtype))
    return qtn.MatrixProductState(arrays, shape="lrp")


def bonds_of(k):
    return [int(k.bond_size(i, i + 1)) for i in range(k.L - 1)]


def oracle_run(ctx, col, spec, n):
    import quimb as qu
    import quimb.tensor as qtn

    L, d, bsz = spec["L"], spec["d"], spec["bsz"]
    desc = {"kind": "oracle", **spec}
    H, Href = build_ham(spec)
    Hd = np.asarray(H.to_dense())
    if Href is not None and not np.allclose(Hd, Href, atol=1e-12):
        ctx.violation("convention:mpo_to_dense", "MPO.to_dense() differs from the Kronecker-product reference", desc)
        return
    if not np.allclose(Hd, Hd.conj().T, atol=1e-12):
        raise ValueError("generator produced a non-Hermitian Hamiltonian")
    cplxH = is_complex_ham(Hd)
    ev, U = np.linalg.eigh(Hd)
    E0 = float(ev[0])
    scale = max(1.0, float(np.abs(ev).max()))
    p0 = build_p0(spec, H)
    bonds0 = bonds_of(p0)
    qu.seed_rand(spec["seed"] + 2)
    cls = qtn.DMRG1 if bsz == 1 else qtn.DMRG2
    ctx.bump(f"oracle:DMRG{bsz}")
    ctx.bump("oracle:complex_hermitian" if cplxH else "oracle:real_symmetric")
    ctx.bump(f"oracle:d{d}:L{L}")
    trunc_sched = max(spec["bond_dims"]) < d ** (L // 2)
    ctx.count(("oracle", json.dumps(spec, sort_keys=True)), cplxH or trunc_sched or spec["max_sweeps"] >= 2)
    try:
        dm = cls(H, bond_dims=spec["bond_dims"], cutoffs=spec["cutoffs"], p0=p0)
        opts = dict(spec.get("opts") or {})
        dm.opts.update(opts)
        for k_ in opts:
            ctx.bump(f"oracle:opt:{k_}={opts[k_]}")
        # observe the sweep calls (schedule, canonize flag) and the bonds after every sweep / update
        log = []
        real_sweep = dm.sweep
        real_update = dm._update_local_state
        upd = []
        norms = []

        def sweep_spy(direction, canonize=True, **kw):
            before = bonds_of(dm._k)
            upd.clear()
            r = real_sweep(direction, canonize=canonize, **kw)
            log.append({"dir": direction, "canonize": bool(canonize), "max_bond": kw.get("max_bond"), "cutoff": kw.get("cutoff"),
                        "method": kw.get("method"), "cutoff_mode": kw.get("cutoff_mode"),
                        "before": before, "after": bonds_of(dm._k), "updates": list(upd)})
            return r

        def update_spy(i, **kw):
            b0 = bonds_of(dm._k)
            r = real_update(i, **kw)
            upd.append((i, b0, bonds_of(dm._k)))
            norms.append((len(log), i, float(abs(dm._k.H @ dm._k))))
            return r

        dm.sweep = sweep_spy
        dm._update_local_state = update_spy
        use_default_seq = "default_sweep_sequence" in opts
        conv = dm.solve(tol=1e-9, max_sweeps=spec["max_sweeps"], sweep_sequence=None if use_default_seq else spec["sweep_sequence"])
    except Exception as e:
        if bsz == 2 and L == 2 and isinstance(e, UnboundLocalError):
            ctx.violation(KEY_L2, "DMRG2 on a two-site chain raises UnboundLocalError in MovingEnvironment.init_segment(begin='right') "
                          "on the first leftward sweep", desc)
        else:
            ctx.violation(f"dmrg{bsz}:raised", f"DMRG{bsz} raised {type(e).__name__}: {str(e)[:160]} on a valid run", desc)
        return
    psi = dm.state
    E_rep = complex(dm.energy)
    nrm = complex(psi.H @ psi)
    E_lib = complex(psi.H @ H.apply(psi)) / nrm
    v = np.asarray(psi.to_dense()).reshape(-1)
    E_dense = complex(v.conj() @ Hd @ v) / complex(v.conj() @ v)
    E_conj = complex(v @ Hd @ v.conj()) / complex(v.conj() @ v)
    opts = dict(spec.get("opts") or {})
    loose = opts.get("bond_compress_method") == "eig"  # eigendecomposition of the Gram matrix: isometries to ~1e-8 only
    tol = (1e-6 if loose else 1e-8) * scale
    res = {"reported": str(E_rep), "E_lib": str(E_lib), "E_dense": str(E_dense), "E0": E0, "norm": str(nrm), "converged": bool(conv)}
    if n < 4:
        ctx.sample({**desc, **res})
    ctx.count(None, n=6)

    # 1. the two conventions (library apply vs plain dense algebra) must agree
    if abs(E_lib - E_dense) > tol:
        ctx.violation("convention:apply_vs_dense", "psi.H @ H.apply(psi) differs from dense <psi|H|psi>", {**desc, **res})
    # 2. the state is normalised - after the run and after EVERY local update (total_energies entries are energies of it)
    caps_ = [int(s_["max_bond"]) for s_ in log]
    trunc_final = bsz == 2 and caps_[-1] < d  # the last split of the sweep (chain end, full rank d) is truncated
    cmode = opts.get("bond_compress_cutoff_mode", "sum2")
    ntol = 1e-6 if loose else 1e-8
    unnorm = abs(nrm - 1) > ntol
    KEY_NORM = f"dmrg2:normalisation:cutoff_mode={cmode}:truncating_final_update"
    KEY_NORM_EN = f"dmrg2:reported_energy:cutoff_mode={cmode}:truncating_final_update"
    if unnorm:
        if trunc_final:
            ctx.violation(KEY_NORM, f"DMRG2 (cutoff_mode={cmode}) with max_bond < phys_dim: the last 2-site update of the sweep truncates "
                          "and the returned state is left unnormalised", {**desc, **res})
        else:
            ctx.violation(f"dmrg{bsz}:normalisation", "returned state is not normalised", {**desc, **res})
    for (sw_, i_, n2_) in norms:
        if abs(n2_ - 1) > ntol:
            ctx.violation(f"dmrg{bsz}:normalisation:after_local_update" + (f":cutoff_mode={cmode}" if bsz == 2 else ""),
                          "the state is not normalised after a local update (so the total energy recorded for it is not a Rayleigh quotient)",
                          {**desc, **res, "sweep": sw_, "site": i_, "norm2": n2_})
            break
    # 3. reported energy = energy of the returned state
    if abs(E_rep - E_lib) > tol:
        if unnorm and trunc_final and abs(E_rep - E_lib * nrm) <= tol:
            ctx.violation(KEY_NORM_EN, "DMRG2 with max_bond < phys_dim: the reported energy is <psi|H|psi> of the UNNORMALISED returned "
                          "state (differs from the Rayleigh quotient by the discarded weight)", {**desc, **res})
        elif cplxH and abs(E_rep - E_conj) <= tol:
            ctx.violation(KEY_F11_EN, "complex-Hermitian MPO: the reported energy is the energy of the CONJUGATE of the returned "
                          "state (<psi|H^T|psi>), not psi.H @ H.apply(psi)", {**desc, **res, "E_conj_state": str(E_conj)})
        elif cplxH and unnorm and trunc_final and abs(E_rep - E_conj * nrm) <= tol:
            ctx.violation(KEY_F11_EN, "complex-Hermitian MPO: the reported energy is the energy of the CONJUGATE of the returned "
                          "state", {**desc, **res, "E_conj_state": str(E_conj)})
            ctx.violation(KEY_NORM_EN, "DMRG2 with max_bond < phys_dim: reported energy refers to the unnormalised state", {**desc, **res})
        else:
            ctx.violation(f"dmrg{bsz}:reported_energy", "reported energy is not <psi|H|psi>/<psi|psi> of the returned state", {**desc, **res})
    if abs(E_rep.imag) > tol:
        ctx.violation("dmrg:reported_energy:imaginary", "reported energy of a Hermitian Hamiltonian has an imaginary part", {**desc, **res})
    # 4. variational bound
    if E_rep.real < E0 - tol:
        ctx.violation("dmrg:variational_bound", "reported energy is below the exact ground energy", {**desc, **res})
    # 5. bookkeeping of energies (exact float identities)
    flat = [complex(x) for sw in dm.total_energies for x in sw]
    if [complex(e) for e in dm.energies] != [complex(sw[-1]) for sw in dm.total_energies] or len(dm.energies) != len(log):
        ctx.violation("dmrg:energies_bookkeeping", "energies[k] is not the last total energy of sweep k", {**desc, **res})
    if any(len(sw) != L - bsz + 1 for sw in dm.total_energies) or any(len(sw) != L - bsz + 1 for sw in dm.local_energies):
        ctx.violation("dmrg:energies_bookkeeping:length", "a sweep did not update every site exactly once", {**desc, **res})
    # 6. monotone when nothing is truncated
    caps = [int(s["max_bond"]) for s in log]
    cuts = [float(s["cutoff"]) for s in log]
    full = d ** (L // 2)
    untrunc = bsz == 1 or (min(caps) >= full and max(cuts) <= 1e-10)
    # 1-site sweeps that skip the canonization (alternating sweep sequences) right after the bond expansion see a
    # non-isometric environment; with a positive ground energy the padding's ~0 pseudo-eigenvalues win (known finding)
    pos_class = bsz == 1 and E0 > 0 and any(not s_["canonize"] for s_ in log)
    # same cause, second input class: a large expansion noise (opts['bond_expand_rand_strength'] >= 1e-5) makes the
    # O(noise^2) non-orthonormality of the uncanonized environment visible in the total energies for any spectrum
    noise_class = (bsz == 1 and not pos_class and float(opts.get("bond_expand_rand_strength", 1e-6)) >= 1e-5
                   and any(not s_["canonize"] for s_ in log))
    tot = np.real(np.array(flat))
    if tot.min() < E0 - tol:
        if pos_class:
            ctx.violation(KEY_POS, "DMRG1, positive ground energy, sweep without canonization after the bond expansion: total energies "
                          "below the exact ground energy (not energies of a normalised state)", {**desc, **res, "min_total": float(tot.min())})
        elif noise_class and tot.min() > E0 - 1e-4 * scale:
            ctx.violation(KEY_NOISE, "DMRG1, expansion noise >= 1e-5, sweep without canonization after the bond expansion: total energies "
                          "slightly below the exact ground energy (environment not orthonormal)", {**desc, **res, "min_total": float(tot.min())})
        else:
            ctx.violation(f"dmrg{bsz}:total_energy_below_ground", "a total energy recorded during the sweeps is below the exact ground energy",
                          {**desc, **res, "min_total": float(tot.min())})
    if untrunc:
        nper = L - bsz + 1
        for j in range(1, len(tot)):
            boundary = j % nper == 0
            noise = float(opts.get("bond_expand_rand_strength", 1e-6))
            allow = (max(1e-4, 100 * noise) if (bsz == 1 and boundary) else (1e-5 if loose else 1e-7)) * scale
            if tot[j] - tot[j - 1] > allow:
                if pos_class:
                    ctx.violation(KEY_POS, "DMRG1, positive ground energy, sweep without canonization after the bond expansion: the total "
                                  "energy increases across local updates", {**desc, **res, "step": j, "before": float(tot[j - 1]), "after": float(tot[j])})
                elif noise_class and tot[j] - tot[j - 1] < 1e-4 * scale:
                    ctx.violation(KEY_NOISE, "DMRG1, expansion noise >= 1e-5, sweep without canonization after the bond expansion: the total "
                                  "energy increases across local updates", {**desc, **res, "step": j, "before": float(tot[j - 1]), "after": float(tot[j])})
                else:
                    ctx.violation(f"dmrg{bsz}:monotone", "total energy increased across an untruncated local update",
                                  {**desc, **res, "step": j, "before": float(tot[j - 1]), "after": float(tot[j])})
                break
        ctx.bump("oracle:untruncated")
    # 7. bond caps
    after = bonds_of(psi)
    if bsz == 2:
        for s in log:
            if max(s["after"]) > s["max_bond"]:
                ctx.violation("dmrg2:bond_cap", "a bond exceeds max_bond after a full 2-site sweep", {**desc, "sweep": s})
                break
    else:
        B = max([1] + bonds0 + caps)
        if max(after) > B:
            ctx.violation("dmrg1:bond_cap", "a bond exceeds max(initial bonds, requested bond dimension)", {**desc, "bonds": after})
    # 8. exact diagonalisation when the cap admits the exact state and the run converged
    gs = np.abs(ev - E0) <= 1e-9 * scale
    gap = float(ev[gs.sum()] - E0) if gs.sum() < len(ev) else np.inf
    admits = len(caps) >= 2 and min(caps[-2:]) >= full and max(cuts[-2:]) <= 1e-10
    # convergence to the GLOBAL minimum is not a theorem: compare only where local minima are not expected - generic
    # couplings without symmetry sectors (random Hermitian terms / SpinHam1D with transverse field) and an entangled
    # random initial state (a product state in a symmetry sector can trap 1-site updates)
    generic = spec["family"] in ("float", "spinham") and spec["p0"] in ("rand", "rand_complex", "big") and min(bonds0) >= 2
    generic = generic and opts.get("local_eig_backend") != "lobpcg" and not loose  # loosely converged local solves: energy only to ~1e-7
    if conv and admits and gap > 1e-3 * scale and not generic:
        ctx.bump("oracle:ed_skipped_nongeneric")
    if conv and admits and gap > 1e-3 * scale and generic:
        ctx.bump("oracle:ed_compared")
        ctx.count(None, n=2)
        G = U[:, gs]
        fid = float(np.linalg.norm(G.conj().T @ v) ** 2 / np.real(v.conj() @ v))
        fidc = float(np.linalg.norm(G.conj().T @ v.conj()) ** 2 / np.real(v.conj() @ v))
        if abs(E_rep.real - E0) > 1e-6 * scale and pos_class:
            ctx.violation(KEY_POS, "DMRG1, positive ground energy, uncanonized sweeps after bond expansion: does not reach the ground energy", {**desc, **res})
        elif abs(E_rep.real - E0) > 1e-6 * scale:
            ctx.violation(f"dmrg{bsz}:matches_ed:energy", "converged run with a sufficient bond cap does not reach the exact ground energy",
                          {**desc, **res})
        elif fid < 1 - 1e-5:
            if cplxH and fidc >= 1 - 1e-5:
                ctx.violation(KEY_F11_GS, "complex-Hermitian MPO: the returned state is the CONJUGATE of the exact ground state "
                              f"(fidelity {fid:.4f} with the ground space, {fidc:.6f} with its conjugate)", {**desc, **res, "fidelity": fid})
            else:
                ctx.violation(f"dmrg{bsz}:matches_ed:state", f"converged state has fidelity {fid:.6f} with the exact ground space",
                              {**desc, **res, "fidelity": fid})
    # 9. bookkeeping correspondence with the Coq sweep machine (exact integers)
    bds = list(spec["bond_dims"])
    seq_used = (spec.get("opts") or {}).get("default_sweep_sequence", spec["sweep_sequence"])
    seqc = [0 if c == "R" else 1 for c in seq_used]
    for k, s in enumerate(log):
        col.add({**desc, "check": "schedule", "sweep": k},
                f"Nat.eqb (sched {natlist(bds)} {k}) {int(s['max_bond'])} && Nat.eqb (dir_at {natlist(seqc)} {k}) {0 if s['dir'] == 'R' else 1}",
                sweep_fail)
        col.add({**desc, "check": "canonize", "sweep": k, "observed": bool(s["canonize"])},
                f"Bool.eqb (canonize_at {natlist(seqc)} {k}) {str(s['canonize']).lower()}", sweep_fail)
    for k, s in enumerate(log):
        if s["method"] != opts.get("bond_compress_method", "svd") or s["cutoff_mode"] != opts.get("bond_compress_cutoff_mode", "sum2"):
            ctx.violation("dmrg:sweep_opts", "sweep did not receive the compression method / cutoff mode set in opts", {**desc, "sweep": k})
            break
    cutl = spec["cutoffs"] if isinstance(spec["cutoffs"], list) else [spec["cutoffs"]]
    for k, s in enumerate(log):
        if float(s["cutoff"]) != float(cutl[min(k, len(cutl) - 1)]):
            ctx.violation("dmrg:cutoff_schedule", "sweep used a cutoff different from the schedule entry", {**desc, "sweep": k})
    if bsz == 1:
        sw = "[" + "; ".join(f"({'true' if s['dir'] == 'R' else 'false'}, {str(s['canonize']).lower()})" for s in log) + "]"
        col.add({**desc, "check": "solve1 bonds", "observed": after},
                f"nl_eqb (solve1 {d} {natlist(bds)} {sw} 0 {natlist(bonds0)}) {natlist(after)}", sweep_fail)
    else:
        for k, s in enumerate(log[:2]):
            right = s["dir"] == "R"
            b = s["before"]
            # trace refinement: every 2-site update changes exactly bond i, to a value the model's clamp admits
            first = s["updates"][0][1] if s["updates"] else b
            col.add({**desc, "check": "pre_canon bonds", "sweep": k},
                    f"nl_eqb (pre_canon {d} {str(right).lower()} {str(s['canonize']).lower()} {natlist(b)}) {natlist(first)}", sweep_fail)
            for (i, b0, b1) in s["updates"]:
                col.add({**desc, "check": "split_bond", "sweep": k, "site": i, "before": b0, "after": b1},
                        f"nl_eqb (split_bond {d} {int(s['max_bond'])} {natlist(b0)} ({i}%nat, {b1[i]}%nat)) {natlist(b1)}", sweep_fail)
    # energies bookkeeping through the model: code every distinct float by its rank
    codes = {x: j for j, x in enumerate(sorted(set(flat), key=lambda z: (z.real, z.imag)))}
    tes = "[" + "; ".join("[" + "; ".join(f"{codes[complex(x)]}%Z" for x in sw) + "]" for sw in dm.total_energies) + "]"
    col.add({**desc, "check": "reported energy"}, f"Z.eqb (reported_energy {tes}) {codes[E_rep]}%Z", sweep_fail)


def truncation_modes_stream(ctx, col):
    """every cutoff mode x the truncating-final-update family (max_bond < phys_dim: spin-1 with bond 2, spin-1/2 with bond 1;
    and a cutoff large enough to discard weight at the chain end), rightward and alternating sweeps"""
    import quimb.tensor.decomp as dec

    rng = ctx.rng
    # tie of Model.renorm_lookup: what `renorm=True` means for each mode inside the split
    for mode in CUTOFF_MODES:
        _, o = dec.parse_split_opts("svd", "right", 2, 1e-10, mode, True)
        col.add({"kind": "renorm_table", "check": "renorm table", "mode": mode, "observed": int(o["renorm"])},
                f"Nat.eqb (renorm_lookup {CMODE_COQ[mode]}) {int(o['renorm'])} && Nat.eqb (cmode_code {CMODE_COQ[mode]}) {int(o['cutoff_mode'])}",
                sweep_fail)
        ctx.count(("renorm_table", mode), True)
    fams = [(3, 3, [2], 1e-12), (2, 4, [1], 1e-12), (3, 4, [2, 2], [1e-6, 1e-12]), (2, 5, [4], 3e-2)]
    k = 0
    for mode in CUTOFF_MODES:
        picks = fams if not ctx.quick else [fams[0], fams[1 + (CUTOFF_MODES.index(mode) % 3)]]
        seen = set()
        for (d, L, bds, cut) in picks:
            seq = ["R", "RL", "L", "LR"][k % 4]
            k += 1
            if (d, L, seq) in seen:
                continue
            seen.add((d, L, seq))
            spec = {"d": d, "L": L, "family": rng.choice(["spinham", "float"]), "ham_complex": rng.random() < 0.5, "bsz": 2,
                    "bond_dims": bds, "cutoffs": cut, "sweep_sequence": seq, "p0": "rand", "max_sweeps": rng.randint(2, 4),
                    "seed": rng.getrandbits(24), "opts": {"bond_compress_cutoff_mode": mode}}
            ctx.bump(f"truncation_family:{mode}")
            oracle_run(ctx, col, spec, 10**5 + k)
            # model: the 2-site update leaves a normalised state for this mode (observed: norms checked in oracle_run)
    for mode in CUTOFF_MODES:
        col.add({"kind": "renorm_table", "check": "renorm table", "mode": mode},
                f"dmrg2_normalised_after_truncation {CMODE_COQ[mode]}", sweep_fail)


def oracle_stream(ctx, col):
    rng = ctx.rng
    N = ctx.n(26, 300)
    for n in range(N):
        spec = oracle_spec(ctx, rng, n)
        try:
            oracle_run(ctx, col, spec, n)
        except Exception:  # harness problem on this case: report, keep going
            import traceback

            ctx.broken_obligation("oracle:harness", traceback.format_exc()[-1500:])
            break


# ----------------------------------------------------------------------------
# stage 3b: the schedules over histories of solve() calls (Model section 7, coq/C10/Schedule.v)
#
# Input alphabet: bond_dims / cutoffs given as scalar, list, tuple, range (both step signs), generator, ndarray, the
# class defaults; every shape of sequence (single, constant, increasing, decreasing, peak, valley, plateau-then-drop,
# random) of length 1-4; histories of 1-3 solve() calls, each with / without a bond_dims= and a cutoffs= argument, with
# fewer / as many / more sweeps than schedule entries, with and without early convergence; DMRG (bsz 1, 2), DMRG1,
# DMRG2, DMRGX.  (a) scripted: `sweep` is replaced by a recorder that returns scripted integer energies, so what is
# exercised is exactly __init__ / _set_*_seq / solve(); exact correspondence with Model.dmrg_history / sweeps_done /
# dir_at / canonize_at.  (b) real DMRG1/DMRG2 runs on chains whose ground state needs more than the final cap: the
# arguments every sweep receives (same correspondence) and, as a TEST at tolerance (not a theorem), the bonds of the
# state after every sweep and of dmrg.state after every call against the cap REQUESTED by the documented schedule
# (reference computed here, independently of the implementation), normalisation, reported energy, variational bound.

CUT_TABLE = [0.0, 1e-14, 1e-12, 1e-10, 1e-8, 1e-6, 1e-4]
SHAPES = ["scalar", "single", "constant", "increasing", "decreasing", "peak", "valley", "plateau_drop", "random"]
SEQ_FORMS = ["list", "tuple", "generator", "ndarray"]


def draw_values(rng, pool, shape):
    """a sequence of the given shape over the sorted pool of allowed values"""
    pool = list(pool)
    if shape in ("scalar", "single") or len(pool) < 3:
        return [rng.choice(pool)]
    if shape == "constant":
        return [rng.choice(pool)] * rng.randint(2, 3)
    if shape in ("increasing", "decreasing"):
        v = sorted(rng.sample(pool, rng.randint(2, min(4, len(pool)))))
        return v if shape == "increasing" else v[::-1]
    a, b, c = sorted(rng.sample(pool, 3))
    if shape == "peak":
        return rng.choice([[a, c, b], [b, c, a], [a, b, c, a]])
    if shape == "valley":
        return rng.choice([[c, a, b], [b, a, c], [c, b, a, c]])
    if shape == "plateau_drop":
        return [c, c, rng.choice([a, b])]
    return [rng.choice(pool) for _ in range(rng.randint(2, 4))]


def draw_seq_spec(rng, pool, cut=False, allow_default=False):
    """{'form', 'vals'[, 'args']}: how the schedule is handed to the library and the entries it stands for"""
    if allow_default and rng.random() < 0.06:
        return {"form": "default", "vals": None}
    if not cut and rng.random() < 0.15:
        lo, hi = min(pool), max(pool)
        for _ in range(20):
            a, b = rng.randint(lo, hi), rng.randint(lo, hi)
            st = rng.choice([1, 2, 3]) * (1 if b > a else -1)
            if len(range(a, b, st)) in (1, 2, 3, 4):
                return {"form": "range", "args": [a, b, st], "vals": list(range(a, b, st))}
    shape = rng.choice(SHAPES)
    vals = draw_values(rng, pool, shape)
    form = "scalar" if shape == "scalar" else rng.choice(SEQ_FORMS)
    return {"form": form, "vals": vals}


def seq_arg(sp, cut=False):
    if sp is None or sp["form"] == "default":
        return None
    v = [float(x) for x in sp["vals"]] if cut else [int(x) for x in sp["vals"]]
    f = sp["form"]
    if f == "scalar":
        return v[0]
    if f == "range":
        return range(*sp["args"])
    if f == "tuple":
        return tuple(v)
    if f == "generator":
        return (x for x in v)
    if f == "ndarray":
        return np.array(v)
    return list(v)


def shape_class(vals):
    if len(vals) == 1:
        return "single_value"
    if len(set(vals)) == 1:
        return "constant"
    if all(x <= y for x, y in zip(vals, vals[1:])):
        return "nondecreasing"
    return "ends_below_max" if vals[-1] < max(vals) else "nonmonotone_ends_at_max"


def cut_code(x):
    x = float(x)
    return CUT_TABLE.index(x) + 1 if x in CUT_TABLE else None


def optnatlist(v):
    return "None" if v is None else f"(Some {natlist(v)})"


def ref_schedule(init_b, init_c, calls, nsweeps):
    """the documented schedule, computed independently of the library: per call, per sweep (requested max_bond,
    requested cutoff, where): 'successive sweeps iterate through, then repeat the final value'; an argument given to
    solve() replaces the sequence, otherwise the next call continues"""
    sb, kb, sc, kc = list(init_b), 0, list(init_c), 0
    srcb = srcc = "constructor"
    out = []
    for j, (c, n) in enumerate(zip(calls, nsweeps)):
        if c.get("bond_dims") is not None:
            sb, kb, srcb = list(c["bond_dims"]["vals"]), 0, "solve_argument"
        if c.get("cutoffs") is not None:
            sc, kc, srcc = list(c["cutoffs"]["vals"]), 0, "solve_argument"
        row = []
        for _ in range(n):
            row.append({"max_bond": sb[min(kb, len(sb) - 1)], "cutoff": sc[min(kc, len(sc) - 1)],
                        "bond_pos": ("beyond_schedule" if kb >= len(sb) else "within_schedule"),
                        "cut_pos": ("beyond_schedule" if kc >= len(sc) else "within_schedule"),
                        "bond_seq": list(sb), "cut_seq": list(sc),
                        "bond_src": srcb if (c.get("bond_dims") is not None or j == 0) else "continued_from_previous_call",
                        "cut_src": srcc if (c.get("cutoffs") is not None or j == 0) else "continued_from_previous_call"})
            kb += 1
            kc += 1
        out.append(row)
    return out


def ref_sweeps_done(max_sweeps, tol, energies_before, script):
    es = list(energies_before)
    k = 0
    for _ in range(max_sweeps):
        es.append(script[k])
        k += 1
        if len(es) >= 2 and abs(es[-2] - es[-1]) < tol:
            break
    return k


DEFAULT_BDS = {"DMRG1": list(range(10, 1001, 10)), "DMRG2": [8, 16, 32, 64, 128, 256, 512, 1024]}


def history_spec_draw(ctx, rng, real):
    """one history: class, constructor schedules, 1-3 solve() calls"""
    if real:
        L = rng.choice([6, 6, 7, 8] if ctx.quick else [6, 7, 8, 8])
        full = 2 ** (L // 2)
        pool = list(range(2, full + 1))
        cpool = [1e-14, 1e-12, 1e-10]
        cls = rng.choice(["DMRG2", "DMRG2", "DMRG2", "DMRG:bsz=2", "DMRG1", "DMRG:bsz=1"])
    else:
        L = 3
        pool = list(range(1, 13))
        cpool = CUT_TABLE
        cls = rng.choice(["DMRG2", "DMRG1", "DMRG:bsz=2", "DMRG:bsz=1", "DMRGX:bsz=1", "DMRGX:bsz=2"])
    spec = {"kind": "history_real" if real else "history_scripted", "cls": cls, "L": L, "d": 2, "seed": rng.getrandbits(24)}
    spec["bond_dims"] = draw_seq_spec(rng, pool, allow_default=(not real and cls in DEFAULT_BDS))
    spec["cutoffs"] = draw_seq_spec(rng, cpool, cut=True)
    spec["p0"] = rng.choice(["given", "given", "none"]) if not cls.startswith("DMRGX") else "given"
    if real:
        spec["family"] = rng.choice(["float", "spinham"])
        spec["ham_complex"] = rng.random() < 0.5
        spec["p0"] = rng.choice(["given", "none"])
    calls = []
    cur_len = len(spec["bond_dims"]["vals"]) if spec["bond_dims"]["vals"] else 3
    for j in range(rng.choice([1, 2, 2, 3])):
        c = {"bond_dims": None, "cutoffs": None}
        if j > 0 or rng.random() < 0.25:
            if rng.random() < (0.6 if j > 0 else 1.0):
                c["bond_dims"] = draw_seq_spec(rng, pool)
                cur_len = len(c["bond_dims"]["vals"])
            if rng.random() < 0.4:
                c["cutoffs"] = draw_seq_spec(rng, cpool, cut=True)
        # fewer / as many / more sweeps than entries of the sequence in force
        c["max_sweeps"] = max(1, cur_len + rng.choice([-1, 0, 1, 2, 3]))
        if spec["bond_dims"]["form"] == "default":
            c["max_sweeps"] = min(c["max_sweeps"], 3)
        c["sweep_sequence"] = rng.choice(["R", "RL", "LR", "RRL", "L", None])
        if cls.startswith("DMRGX"):
            c["tol"] = -1e9  # DMRGX converges on the variance: never, so that the scripted energies are all consumed
        elif real:
            c["tol"] = rng.choice([0, 0, 1e-9])
        else:
            c["tol"] = rng.choice([0, 0, 1, 3])
        c["script"] = [rng.choice([-7, -5, -5, -4, -4, -2]) for _ in range(c["max_sweeps"])]
        calls.append(c)
    spec["calls"] = calls
    return spec


def build_history_dm(spec):
    import quimb as qu
    import quimb.tensor as qtn

    L = spec["L"]
    if spec["kind"] == "history_real":
        H, _ = build_ham(spec)
    else:
        import random

        terms, fields = int_model(random.Random(spec["seed"]), L, 2, False, 2)
        H = mpo_nn(L, terms, fields, 2)
    cls = spec["cls"]
    bsz = 1 if (cls == "DMRG1" or cls.endswith("bsz=1")) else 2
    qu.seed_rand(spec["seed"] + 3)
    p0 = None
    if spec["p0"] == "given":
        p0 = qtn.MPS_rand_state(L, 2, dtype=H.dtype, seed=spec["seed"] + 1)
    kw = {"cutoffs": seq_arg(spec["cutoffs"], cut=True), "p0": p0}
    b = seq_arg(spec["bond_dims"])
    if cls in ("DMRG1", "DMRG2"):
        if b is not None:
            kw["bond_dims"] = b
        dm = getattr(qtn, cls)(H, **kw)
    elif cls.startswith("DMRGX"):
        dm = qtn.DMRGX(H, p0, b, cutoffs=kw["cutoffs"], bsz=bsz)
    else:
        dm = qtn.DMRG(H, b, bsz=bsz, **kw)
    return H, dm, bsz, p0


def history_case(ctx, col, spec, n):
    import quimb.tensor as qtn

    real = spec["kind"] == "history_real"
    desc = json.loads(json.dumps(spec))
    cls, L = spec["cls"], spec["L"]
    init_b = spec["bond_dims"]["vals"] if spec["bond_dims"]["form"] != "default" else DEFAULT_BDS[cls]
    init_c = spec["cutoffs"]["vals"]
    try:
        H, dm, bsz, p0 = build_history_dm(spec)
    except Exception as e:
        ctx.violation(f"dmrg:constructor:raised:bond_dims_form={spec['bond_dims']['form']}:cutoffs_form={spec['cutoffs']['form']}",
                      f"{cls} constructor raised {type(e).__name__}: {str(e)[:160]} on a documented schedule argument", desc)
        return
    ctx.bump(f"history:{'real' if real else 'scripted'}:{cls}")
    ctx.bump(f"history:bond_dims_form:{spec['bond_dims']['form']}")
    ctx.bump(f"history:bond_dims_shape:{shape_class(init_b)}")
    bonds0 = bonds_of(dm._k)
    # the initial random state uses the FIRST entry of bond_dims
    if p0 is None:
        ctx.count(("history", n, "bond_dim0"), True)
        col.add({**desc, "check": "bond_dim0", "observed": bonds0},
                f"match bond_dim0 {natlist(init_b[:6])} with Some x => nl_eqb (repeat x {natlit(L - 1)}) {natlist(bonds0)} | None => false end",
                history_fail)
        if set(bonds0) != {init_b[0]}:
            ctx.violation(f"dmrg:initial_state:bond_dims={shape_class(init_b)}", "without p0 the initial random state does not have the "
                          "bond dimension bond_dims[0]", {**desc, "bonds": bonds0})
    log = []
    real_sweep = dm.sweep
    scripts = [list(c["script"]) for c in spec["calls"]]
    cur = {"call": 0}

    def sweep_spy(direction, canonize=True, **kw):
        if real:
            r = real_sweep(direction, canonize=canonize, **kw)
        else:
            r = scripts[cur["call"]].pop(0)
        log.append({"call": cur["call"], "dir": direction, "canonize": bool(canonize), "max_bond": kw.get("max_bond"),
                    "cutoff": kw.get("cutoff"), "after": bonds_of(dm._k)})
        return r

    dm.sweep = sweep_spy
    if not real and cls.startswith("DMRGX"):
        dm._compute_post_sweep = lambda: None  # the variance of a state the recorder never updates: not under test
    nsweeps, ebefore, convs = [], [], []
    Hd = ev0 = None
    if real:
        Hd = np.asarray(H.to_dense())
        ev0 = float(np.linalg.eigvalsh(Hd)[0])
        scale = max(1.0, float(np.abs(np.linalg.eigvalsh(Hd)).max()))
    for j, c in enumerate(spec["calls"]):
        cur["call"] = j
        n0 = len(log)
        ebefore.append([complex(e) for e in dm.energies])
        kw = {}
        if c["bond_dims"] is not None:
            kw["bond_dims"] = seq_arg(c["bond_dims"])
        if c["cutoffs"] is not None:
            kw["cutoffs"] = seq_arg(c["cutoffs"], cut=True)
        if c["sweep_sequence"] is not None:
            kw["sweep_sequence"] = c["sweep_sequence"]
        try:
            convs.append(bool(dm.solve(tol=c["tol"], max_sweeps=c["max_sweeps"], **kw)))
        except Exception as e:
            ctx.violation(f"dmrg{bsz}:solve:raised:call{j + 1}", f"{cls}.solve raised {type(e).__name__}: {str(e)[:160]} on a valid history",
                          {**desc, "call": j})
            return
        nsweeps.append(len(log) - n0)
        if real:
            history_state_checks(ctx, dm, H, Hd, ev0, scale, bsz, desc, j)
    ref = ref_schedule(init_b, init_c, spec["calls"], nsweeps)
    ctx.count(("history", json.dumps(spec, sort_keys=True)), any(r["bond_pos"] == "beyond_schedule" for row in ref for r in row) or len(nsweeps) > 1, n=3)
    # --- direct oracle on the arguments of every sweep (exact) ---------------------------------------------------
    k = 0
    seen = set()
    caps_so_far = []
    for j, row in enumerate(ref):
        seq_used = spec["calls"][j]["sweep_sequence"] or dm.opts["default_sweep_sequence"]
        for i, r in enumerate(row):
            s = log[k]
            k += 1
            caps_so_far.append(r["max_bond"])
            where = {**desc, "call": j, "sweep_in_call": i, "requested": r, "received": {"max_bond": s["max_bond"], "cutoff": s["cutoff"]}}
            kb = f"solve:max_bond_schedule:{shape_class(r['bond_seq'])}:{r['bond_pos']}:{r['bond_src']}"
            if (s["max_bond"] is None or int(s["max_bond"]) != r["max_bond"]) and kb not in seen:
                seen.add(kb)
                ctx.violation(kb, f"sweep {i} of solve() call {j + 1} is run with max_bond={s['max_bond']}, the schedule {r['bond_seq']} "
                              f"({r['bond_src']}) requests {r['max_bond']} ('iterate through, then repeat the final value')", where)
            kc = f"solve:cutoff_schedule:{shape_class(r['cut_seq'])}:{r['cut_pos']}:{r['cut_src']}"
            if (s["cutoff"] is None or float(s["cutoff"]) != float(r["cutoff"])) and kc not in seen:
                seen.add(kc)
                ctx.violation(kc, f"sweep {i} of solve() call {j + 1} is run with cutoff={s['cutoff']}, the schedule {r['cut_seq']} "
                              f"({r['cut_src']}) requests {r['cutoff']}", where)
            want_dir = seq_used[i % len(seq_used)]
            if s["dir"] != want_dir and "dir" not in seen:
                seen.add("dir")
                ctx.violation("solve:sweep_direction", f"sweep {i} of call {j + 1} goes {s['dir']}, sweep_sequence {seq_used!r} says {want_dir}", where)
            # bonds against the REQUESTED cap (2-site: every bond after the sweep; 1-site: never above anything requested so far)
            if real and bsz == 2 and max(s["after"]) > r["max_bond"] and "cap" not in seen:
                seen.add("cap")
                ctx.violation(f"dmrg2:bond_cap:requested_schedule:{shape_class(r['bond_seq'])}:{r['bond_pos']}:{r['bond_src']}",
                              f"after sweep {i} of call {j + 1} the state has bonds {s['after']}: above the cap {r['max_bond']} the schedule "
                              f"{r['bond_seq']} requests for that sweep", where)
            if real and bsz == 1 and max(s["after"]) > max([1] + bonds0 + caps_so_far) and "cap" not in seen:
                seen.add("cap")
                ctx.violation(f"dmrg1:bond_cap:requested_schedule:{shape_class(r['bond_seq'])}:{r['bond_pos']}:{r['bond_src']}",
                              f"after sweep {i} of call {j + 1} the state has bonds {s['after']}: above every dimension requested so far "
                              f"({caps_so_far}) and the initial bonds", where)
    # --- number of sweeps (scripted integer energies: exact) ---------------------------------------------------------
    if not real and not cls.startswith("DMRGX"):
        for j, c in enumerate(spec["calls"]):
            want = ref_sweeps_done(c["max_sweeps"], c["tol"], [e.real for e in ebefore[j]], c["script"])
            if nsweeps[j] != want:
                ctx.violation("solve:sweep_count", f"call {j + 1} performed {nsweeps[j]} sweeps, the loop (max_sweeps={c['max_sweeps']}, "
                              f"tol={c['tol']}, energies {c['script']}) stops after {want}", {**desc, "call": j})
                break
            allen = [e.real for e in ebefore[j]] + c["script"][:want]
            if convs[j] != (len(allen) >= 2 and abs(allen[-2] - allen[-1]) < c["tol"]):
                ctx.violation("solve:converged_flag", f"call {j + 1} returned converged={convs[j]}", {**desc, "call": j})
                break
    # --- exact correspondence with the schedule machine ---------------------------------------------------------------
    codes = [cut_code(s["cutoff"]) if s["cutoff"] is not None else None for s in log]
    if any(cd is None for cd in codes) or any(s["max_bond"] is None or int(s["max_bond"]) != s["max_bond"] or not 0 <= int(s["max_bond"]) < 5000 for s in log):
        ctx.violation("solve:schedule:not_an_entry", "a sweep received a max_bond / cutoff that is not an entry of any schedule given",
                      {**desc, "received": [(str(s["max_bond"]), str(s["cutoff"])) for s in log]})
        return
    hist = "[" + "; ".join(
        f"({optnatlist(c['bond_dims']['vals'] if c['bond_dims'] else None)}, "
        f"{optnatlist([cut_code(x) for x in c['cutoffs']['vals']] if c['cutoffs'] else None)}, {natlit(nn)})"
        for c, nn in zip(spec["calls"], nsweeps)) + "]"
    obs, k = [], 0
    for nn in nsweeps:
        obs.append("[" + "; ".join(f"({natlit(int(log[k + i]['max_bond']))}, {natlit(codes[k + i])})" for i in range(nn)) + "]")
        k += nn
    model = f"dmrg_history {natlist(init_b)} {natlist([cut_code(x) for x in init_c])} {hist}"
    col.add({**desc, "check": "history", "observed": [[(s["max_bond"], s["cutoff"]) for s in log if s["call"] == j] for j in range(len(nsweeps))]},
            f"opll_eqb ({model}) (Some [" + "; ".join(obs) + "])", history_fail)
    parts = []
    k = 0
    for j, (c, nn) in enumerate(zip(spec["calls"], nsweeps)):
        seq_used = c["sweep_sequence"] or dm.opts["default_sweep_sequence"]
        seqc = natlist([0 if ch == "R" else 1 for ch in seq_used])
        for i in range(nn):
            s = log[k]
            k += 1
            parts.append(f"Nat.eqb (dir_at {seqc} {natlit(i)}) {natlit(0 if s['dir'] == 'R' else 1)}")
            if bsz == 2:
                parts.append(f"Bool.eqb (canonize_at {seqc} {natlit(i)}) {str(s['canonize']).lower()}")
            elif not s["canonize"]:
                ctx.violation("dmrg1:canonize_flag:after_bond_expansion", "a 1-site sweep is run without canonization after the bond expansion",
                              {**desc, "call": j, "sweep_in_call": i})
        if not real and not cls.startswith("DMRGX"):
            es = "[" + "; ".join(f"({int(e.real)})%Z" for e in reversed(ebefore[j])) + "]"
            sc = "[" + "; ".join(f"({int(x)})%Z" for x in c["script"]) + "]"
            parts.append(f"Nat.eqb (sweeps_done {natlit(c['max_sweeps'])} ({int(c['tol'])})%Z {es} {sc}) {natlit(nn)}")
    if parts:
        col.add({**desc, "check": "sweep loop", "nsweeps": nsweeps}, " && ".join(parts), history_fail)
    # the conclusion of C10_history2_bond_cap on the observed final bonds: every bond <= the model's cap of the last sweep
    if real and bsz == 2 and sum(nsweeps):
        col.add({**desc, "check": "history bond cap", "bonds": bonds_of(dm._k)},
                f"forallb (fun b => Nat.leb b (cap_of_last ({model}))) {natlist(bonds_of(dm._k))}", history_fail)


def history_state_checks(ctx, dm, H, Hd, E0, scale, bsz, desc, j):
    """after every solve() call of a real run (tests at tolerance): normalisation, reported energy = <psi|H|psi>, bound"""
    psi = dm.state
    v = np.asarray(psi.to_dense()).reshape(-1)
    nrm = float(np.real(np.vdot(v, v)))
    E = complex(np.vdot(v, Hd @ v)) / nrm
    E_lib = complex(psi.H @ H.apply(psi)) / nrm
    E_rep = complex(dm.energy)
    tol = 1e-8 * scale
    res = {"call": j, "reported": str(E_rep), "E_dense": str(E), "E_lib": str(E_lib), "E0": E0, "norm": nrm}
    ctx.count(None, n=4)
    which = "first_call" if j == 0 else "later_call"
    if abs(nrm - 1) > 1e-8:
        ctx.violation(f"dmrg{bsz}:normalisation:history:{which}", "the state returned after a solve() call is not normalised", {**desc, **res})
    if abs(E_rep - E) > tol or abs(E_lib - E) > tol:
        ctx.violation(f"dmrg{bsz}:reported_energy:history:{which}", "dmrg.energy after a solve() call is not <psi|H|psi>/<psi|psi> of dmrg.state",
                      {**desc, **res})
    if E_rep.real < E0 - tol:
        ctx.violation(f"dmrg{bsz}:variational_bound:history:{which}", "dmrg.energy after a solve() call is below the exact ground energy", {**desc, **res})
    if [complex(e) for e in dm.energies] != [complex(sw[-1]) for sw in dm.total_energies]:
        ctx.violation("dmrg:energies_bookkeeping:history", "energies[k] is not the last total energy of sweep k over several solve() calls",
                      {**desc, **res})


def history_fail(ctx, dsc):
    chk = dsc["check"]
    key = {"history": "solve:schedule:history", "sweep loop": "solve:sweep_loop", "bond_dim0": "dmrg:initial_state:bond_dim0",
           "history bond cap": "dmrg2:bond_cap:history", "empty": "dmrg:schedule:empty_sequence"}[chk]
    ctx.violation(key, f"observed {chk} differs from the schedule machine (coq/C10/Model.v section 7: dmrg_history / sweeps_done / bond_dim0)", dsc)


def rejected_stream(ctx, col):
    """must-be-rejected inputs: an empty schedule has no final value to repeat (model: mk_iter [] = None)"""
    import quimb.tensor as qtn

    H = qtn.MPO_ham_heis(3)
    for where in ("constructor:bond_dims", "constructor:cutoffs", "solve:bond_dims", "solve:cutoffs"):
        raised = False
        try:
            if where == "constructor:bond_dims":
                qtn.DMRG2(H, bond_dims=[])
            elif where == "constructor:cutoffs":
                qtn.DMRG2(H, bond_dims=[2], cutoffs=[])
            else:
                dm = qtn.DMRG2(H, bond_dims=[2, 3], cutoffs=1e-10)
                dm.sweep = lambda direction, **kw: 0.0
                dm.solve(max_sweeps=1, **{where.split(":")[1]: []})
        except (IndexError, ValueError, TypeError, StopIteration):
            raised = True
        ctx.count(("rejected", where), True)
        ctx.bump("history:rejected_stream")
        args = {"constructor:bond_dims": "[] [3%nat] []", "constructor:cutoffs": "[2%nat] [] []",
                "solve:bond_dims": "[2%nat; 3%nat] [3%nat] [(Some [], None, 1%nat)]",
                "solve:cutoffs": "[2%nat; 3%nat] [3%nat] [(None, Some [], 1%nat)]"}[where]
        col.add({"kind": "rejected", "check": "empty", "where": where, "raised": raised},
                f"Bool.eqb (match dmrg_history {args} with None => true | Some _ => false end) {str(raised).lower()}", history_fail)
        if not raised:
            ctx.violation(f"dmrg:schedule:empty_sequence:{where}:not_rejected", "an empty schedule (no final value to repeat) is accepted", {"kind": "rejected", "where": where})


# every shape x position family crossed deterministically (real runs): (constructor bond_dims, calls = [(bond_dims argument, max_sweeps)])
REAL_FAMILIES = [
    ([8, 3], [(None, 4)]),
    ([4, 8, 2], [(None, 5)]),
    ([6, 2, 5], [(None, 5)]),
    ([4], [(None, 2), ([8, 4, 2], 5)]),
    ([2, 4], [(None, 2), (None, 3)]),
    ([8, 8, 3], [(None, 2), (None, 3)]),
    ([3, 6], [(None, 3), ([7, 5], 1), (None, 3)]),
    ([5], [(None, 1), ([8, 2], 4), ([4, 6, 3], 5)]),
]


def history_stream(ctx, col):
    import random

    rng = random.Random(ctx.rng.getrandbits(32))
    rejected_stream(ctx, col)
    n = 0
    for fam_i, (b0, calls) in enumerate(REAL_FAMILIES if not ctx.quick else REAL_FAMILIES[:6]):
        for cls in (["DMRG2"] if ctx.quick else ["DMRG2", "DMRG:bsz=2", "DMRG1"]):
            spec = {"kind": "history_real", "cls": cls, "L": 6 + (fam_i % 3), "d": 2, "seed": rng.getrandbits(24),
                    "family": ["float", "spinham"][fam_i % 2], "ham_complex": fam_i % 3 != 0, "p0": ["given", "none"][fam_i % 2],
                    "bond_dims": {"form": ["list", "tuple", "generator", "ndarray"][fam_i % 4], "vals": b0},
                    "cutoffs": {"form": "scalar", "vals": [1e-12]},
                    "calls": [{"bond_dims": ({"form": "list", "vals": b} if b else None), "cutoffs": None, "max_sweeps": ms,
                               "sweep_sequence": ["RL", "R", None, "LR"][(fam_i + j) % 4], "tol": 0, "script": []}
                              for j, (b, ms) in enumerate(calls)]}
            history_case(ctx, col, spec, n)
            n += 1
    for _ in range(ctx.n(16, 200)):
        history_case(ctx, col, history_spec_draw(ctx, rng, True), n)
        n += 1
    for _ in range(ctx.n(120, 1500)):
        history_case(ctx, col, history_spec_draw(ctx, rng, False), n)
        n += 1
    ctx.extra["history_cases"] = n


SWEEP_KEYS = {"schedule": "dmrg:schedule", "canonize": "dmrg:canonize_flag", "solve1 bonds": "dmrg1:bond_dimensions", "pre_canon bonds": "dmrg2:canonize_bonds",
              "split_bond": "dmrg2:bond_cap:update", "reported energy": "dmrg:energies_bookkeeping",
              "renorm table": "split:renorm_lookup"}


def sweep_fail(ctx, dsc):
    if dsc["check"] == "canonize" and dsc.get("bsz") == 1 and dsc.get("observed") is True:
        # 1-site sweeps canonizing although the model of solve() says the alternating sweep skips it: this is the proposed
        # fix C10_dmrg1_canonize_after_bond_expansion (an extra canonization is a gauge change only).  Recorded, not a failure.
        ctx.extra["note_canonize"] = ("DMRG1 canonizes before every sweep: Model.canonize_at describes solve() before the "
                                      "canonize-after-expansion fix; update it and drop the known finding " + KEY_POS)
        ctx.bump("dmrg1_canonize_model_stale")
        return
    ctx.violation(SWEEP_KEYS[dsc["check"]], f"observed {dsc['check']} differs from the sweep machine (coq/C10/Model.v)", dsc)


# ----------------------------------------------------------------------------
# stage 4: periodic boundaries - energy / state consistency only


def periodic_stream(ctx):
    import quimb as qu
    import quimb.tensor as qtn

    for n in range(ctx.n(2, 6)):
        L = 6
        H = qtn.MPO_ham_heis(L, cyclic=True) if n % 2 == 0 else qtn.MPO_ham_XY(L, cyclic=True)
        bsz = 2 if n % 4 < 2 else 1
        desc = {"kind": "periodic", "L": L, "ham": "heis" if n % 2 == 0 else "XY", "bsz": bsz}
        qu.seed_rand(ctx.seed + 77 + n)
        try:
            dm = (qtn.DMRG2 if bsz == 2 else qtn.DMRG1)(H, bond_dims=[4, 8])
            # the settings the library's own tests use for small periodic systems
            dm.opts["periodic_segment_size"] = 1.0
            dm.opts["periodic_nullspace_fudge_factor"] = 1e-6
            if n % 3 == 1:
                dm.opts["local_eig_ham_dense"] = False  # lazy effective Hamiltonian (and norm)
            if n % 3 == 2:
                dm.opts["local_eig_ham_dense"] = True
                dm.opts["local_eig_norm_dense"] = False
            desc["opts"] = {k_: dm.opts[k_] for k_ in ("local_eig_ham_dense", "local_eig_norm_dense")}
            dm.solve(tol=1e-3, max_sweeps=4)
        except Exception as e:
            ctx.bump("periodic:raised")
            ctx.extra.setdefault("periodic_notes", []).append(f"{desc}: {type(e).__name__}: {str(e)[:100]}")
            continue
        psi = dm.state
        nrm = complex(psi.H @ psi)
        E = complex(psi.H @ H.apply(psi)) / nrm
        ctx.count(("periodic", n), True)
        ctx.bump("periodic")
        # documented accuracy of the transfer-matrix approximation in the library's tests: 3e-2 relative
        if abs(E - complex(dm.energy)) > 3e-2 * max(1.0, abs(E)):
            ctx.violation("dmrg:periodic:reported_energy", "periodic DMRG: reported energy differs from <psi|H|psi>/<psi|psi> "
                          "beyond the documented approximation", {**desc, "reported": str(dm.energy), "E": str(E), "norm": str(nrm)})


# ----------------------------------------------------------------------------


def observe_stack(ctx, col):
    """tie of Model.dmrg_order: which label of the MPO meets the ket in DMRG's own network"""
    import quimb.tensor as qtn

    H = qtn.MPO_ham_heis(3)
    obs = {}
    for name, mk in [("DMRG", lambda: qtn.DMRG(H, 4)), ("DMRG1", lambda: qtn.DMRG1(H, bond_dims=4)),
                     ("DMRG2", lambda: qtn.DMRG2(H, bond_dims=4)),
                     ("DMRGX", lambda: qtn.DMRGX(H, qtn.MPS_rand_state(3, 2, seed=1), 4))]:
        obs[name] = observe_order(mk())
    ctx.extra["stack_observed"] = {k: ("ket on UPPER label (ket, ham, bra)" if v else "ket on LOWER label (bra, ham, ket)") for k, v in obs.items()}
    for name, v in sorted(obs.items()):
        col.add({"kind": "stack", "check": "stack", "class": name, "observed_ket_on_upper": v, "all": obs},
                f"match ket_on_upper dmrg_order 0 1 2 3 with Some b => Bool.eqb b {str(v).lower()} | None => false end", stack_fail)
        ctx.count(("stack", name), True)


def stack_fail(ctx, dsc):
    obs = dsc["all"]
    if not any(obs.values()):
        # the implementation now stacks (bra, ham, ket): Model.dmrg_order is the pre-fix order; every theorem is
        # stated for both orders, the exact stream uses the observed one.  Recorded, not a failure of the property.
        ctx.extra["note"] = ("implementation stacks (bra, ham, ket): Model.dmrg_order (KetHamBra) describes the tree before the "
                             "alignment fix; update it and drop known finding F11")
        ctx.bump("dmrg_order_constant_stale")
    else:
        ctx.violation("dmrg:stack_order", "DMRG variants disagree on how the energy network is stacked", {"kind": "stack", "observed": obs})


def run(ctx):
    ctx.extra["rule"] = RULE
    ctx.trusted_base += [
        "network semantics coq/Base/TN.v instantiated for Z[i] (coq/Base/TNExec.v `dense`), executed by vm_compute on the arrays "
        "dumped from the implementation's own objects (TN_energy, _k, _b, ham, effective Hamiltonian)",
        "hand models coq/C10/Model.v (tensor_network_align, schedule iterator and its life over solve() calls, sweep loop, canonize "
        "flag, bond-dimension machine, energies bookkeeping) tied by exact correspondence; the harness (array dumps, label renaming, monkey-patched sweep / "
        "_update_local_state observers)",
        "oracle contracts, validated numerically only (tests, not theorems): the local eigensolver returns a normalised vector whose "
        "local energy is not above the current one; QR / SVD return isometries; exact diagonalisation (numpy eigh) defines E0",
        "modelled, not verified: MovingEnvironment's incremental contraction order (covered by the exact Heff correspondence at "
        "every site from both ends), float round-off, scipy/LAPACK, the periodic transfer-matrix approximation (consistency test only)",
    ]
    ctx.assumptions += [
        "convergence of DMRG to the exact ground state is not a theorem; it is tested on small systems when the cap admits the exact state",
        "1-site DMRG: `bond_dims` is the dimension bonds are expanded to; the cap claimed is max(initial bonds, every dimension "
        "requested so far); the single-call oracle stream takes non-decreasing schedules, the history stream any",
        "history stream: the number of sweeps a real solve() call performs is observed (convergence is numerical); the scripted "
        "runs tie the sweep loop exactly (integer energies, DMRG._check_convergence; DMRGX converges on the variance: not modelled)",
        "monotonicity tolerance: 1e-7 * ||H|| inside a sweep, 1e-4 * ||H|| across the bond expansion (noise 1e-6) of 1-site sweeps",
    ]
    ctx.check_props(["Base/Sums.vo", "Base/TN.vo", "Base/TNExec.vo", "C10/Model.vo", "C10/Energy.vo", "C10/Network.vo",
                     "C10/Proofs.vo", "C10/Schedule.vo", "C10/Props.v"])
    import time

    col = Collector()
    for fn in (corpus_stream, observe_stack, align_stream, exact_stream, truncation_modes_stream, oracle_stream, history_stream, flush, exact_post, periodic_stream):
        t = time.time()
        if fn is periodic_stream:
            ctx.stage(fn)
        else:
            ctx.stage(fn, col)
        ctx.extra.setdefault("stage_wall_s", {})[fn.__name__] = round(time.time() - t, 1)


def corpus_stream(ctx, col):
    import glob
    import os

    from harness.common import VERIF

    for path in sorted(glob.glob(os.path.join(VERIF, "corpus", "C10", "*.json"))):
        with open(path) as f:
            d = json.load(f)
        replay_one(ctx, d.get("replay", d), col)
        ctx.bump("corpus")


def replay_one(ctx, rep, col=None):
    kind = rep.get("kind")
    own = col is None
    col = col or Collector()
    if kind == "oracle":
        spec = {k: rep[k] for k in ("d", "L", "family", "ham_complex", "bsz", "bond_dims", "cutoffs", "sweep_sequence", "p0", "max_sweeps", "seed")}
        spec["opts"] = rep.get("opts") or {}
        oracle_run(ctx, col, spec, 10**6)
    elif kind == "exact":
        spec = {k: rep[k] for k in ("d", "L", "ham_complex", "psi_complex", "chi", "cls", "sub")}
        exact_case(ctx, col, ctx.rng, 10**6, spec=spec)
    elif kind in ("history_real", "history_scripted"):
        spec = {k: rep[k] for k in ("kind", "cls", "L", "d", "seed", "bond_dims", "cutoffs", "p0", "calls")}
        for k in ("family", "ham_complex"):
            if k in rep:
                spec[k] = rep[k]
        history_case(ctx, col, spec, 10**6)
    elif kind == "rejected":
        rejected_stream(ctx, col)
    elif kind == "align":
        align_stream(ctx, col)
    elif kind == "stack":
        observe_stack(ctx, col)
    else:
        return False
    if own:
        flush(ctx, col, "replay")
        exact_post(ctx, col)
    return True


def replay(ctx, path):
    with open(path) as f:
        d = json.load(f)
    ctx.extra["rule"] = RULE
    if not replay_one(ctx, d.get("replay", d)):
        run(ctx)

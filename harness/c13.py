"""C13 - every route to a local expectation or reduced state gives the dense answer.

Proof part (coq/C13): over an arbitrary commutative ring with involution, for
a state psi(kept, rest): rho[k,b] = sum_rest psi[k,rest] conj psi[b,rest] is
Hermitian, tr rho = <psi|psi>, the expectation every exact route builds
(sum_{k,b} O[b,k] rho[k,b]) is <psi|(O (x) 1)|psi> with O acting as a matrix on
the ket (transposition convention pinned), expectation of 1 = tr rho,
<O^+> = conj <O>, and site order = operator factor order (rdm and expectation
on (j,i) vs (i,j)); the double-layer network factorises into ket value times
bra value summed over the traced labels (coq/C13/Network.v).
Tie (H, exact): Gaussian-integer MPS / PEPS / random-graph states go through the
implementation's routes with normalized=False; the unnormalised reduced density
matrices, norms and expectation values are compared, inside Coq (vm_compute),
with the model's rdm / expect evaluated on Base/TNExec.dense of the dumped
state tensors, for site tuples in every order and NON-symmetric operators.
Oracle (tolerance 1e-8, tests): normalised values of every route x option
against plain numpy on the dense state; rdm Hermitian / trace / ordering.
Option cube (stage_option_cube): every API of the cluster / loop-expansion families
x every documented normalisation mode x backend (exact / compressed) x combine x
gauges, and every other route, on states whose scale is held in the tensors, in a
positive / negative / integer `exponent`, or in both.  coq/C13/Options.v models the
option flow (which of <G>/<1>, <G>, (<G>, <1>) each call returns), the value
_combine_expansion_expectations computes from region counts, and where the scale is
held (tensors vs exponent register; normalized="global" must distribute it); tied
exactly by (i) the class of result every cube call returned, (ii) the register the
"global" branch hands to the per-term contractions, (iii) check_state_scaled on
integer-exponent states ((10^k)^2 x the model's values on the tensors).
"""

import itertools

import numpy as np

from harness import tnmodel as tm

RULE = (
    "states: Gaussian-integer (entries in [-2,2]+i[-2,2]) MPS (L 2-6, bonds 1-3, phys 2-3), PEPS 2x2 / 2x3 / 3x2 "
    "(/3x3 thorough, D=2), random connected graphs (3-7 sites, D 2-3, phys 2-3), rings (simple-loop expansion), graphs "
    "with several tensors per site, networks with a hyper bond (exact routes), PEPS3D 2x2x2 (/2x2x3, 3x2x2 thorough; "
    "oracle only), MPS + non-symmetric integer MPO (align / apply / expec_TN_1D / operator trace / partial transpose); "
    "site tuples: 1-3 distinct sites in EVERY order (one pair in both orders per state, random mixed orders, "
    "non-adjacent); operators: non-Hermitian Gaussian-integer matrices and Kronecker products A(x)B of different "
    "one-site factors; every route x option in `routes_exercised`; call forms the docstrings allow (bare single-site "
    "keys, default gauges=None, shared `info` cache with two operators). Option cube: cluster APIs x normalized in "
    "{True, False, 'return'} x max_bond in {None, untruncating int} x gauges in {none, simple-update}; generalized- / "
    "simple-loop expansions (single and compute_*) x combine in {prod, sum} x normalized in {True, False, 'prod', 'local', "
    "'separate', 'global'} x gauges, also with a redundant sub-region in gloops; scale representation of the state in "
    "{tensors, exponent > 0 (equalize_norms_), exponent < 0, integer exponent with unnormalised tensors} for graphs, rings, "
    "MPS and PEPS through every route. Non-trivial: at least one traced site and a non-Hermitian operator; distinct = "
    "distinct (state, site tuple, route)."
)

TOL = 1e-8
TIMES = {}
ROUTES = set()
HEADER = tm.HEADER + "From QV Require Import C13.Model C13.Options.\n"
OPT_CASES = {}  # Coq bool expression -> description (option-flow / exponent-register correspondence, deduplicated)


# ----------------------------------------------------------------------------------
# generators


def gauss(rng, shape, lo=-2, hi=2):
    n = int(np.prod(shape)) if len(shape) else 1
    v = np.array([complex(rng.randint(lo, hi), rng.randint(lo, hi)) for _ in range(n)])
    return v.reshape(shape)


def fill_exact(rng, tn):
    for t in tn.tensors:
        a = gauss(rng, t.shape)
        if not np.any(a):
            a.reshape(-1)[0] = 1.0
        t.modify(data=a)
    return tn


def gen_mps(rng, L=None, phys=None):
    import quimb.tensor as qtn

    L = L or rng.randint(2, 6)
    d = phys or rng.choice([2, 2, 2, 3])
    if L >= 6:
        d = 2
    bonds = [1] + [rng.choice([1, 2, 2, 3]) for _ in range(L - 1)] + [1]
    arrays = []
    for i in range(L):
        shp = (bonds[i], bonds[i + 1], d)
        if i == 0:
            shp = shp[1:]
        if i == L - 1:
            shp = (shp[0], shp[-1]) if i > 0 else (d,)
        arrays.append(gauss(rng, shp))
    if L == 1:
        return None
    p = qtn.MatrixProductState(arrays, shape="lrp")
    return p


def gen_peps(rng, Lx, Ly, D=2, phys=2):
    import quimb.tensor as qtn

    p = qtn.PEPS.rand(Lx, Ly, D, phys_dim=phys, dtype=complex, seed=rng.randint(0, 10**6))
    return fill_exact(rng, p)


def rand_connected_edges(rng, n, extra):
    order = list(range(n))
    rng.shuffle(order)
    edges = set()
    for k in range(1, n):
        a, b = order[k], order[rng.randint(0, k - 1)]
        edges.add((min(a, b), max(a, b)))
    cand = [(a, b) for a in range(n) for b in range(a + 1, n) if (a, b) not in edges]
    rng.shuffle(cand)
    for e in cand[:extra]:
        edges.add(e)
    return sorted(edges)


def gen_graph(rng, n=None, ring=False, D=None, phys=None):
    import quimb.tensor as qtn

    n = n or rng.randint(3, 6)
    if ring:
        edges = [(i, (i + 1) % n) for i in range(n)]
    else:
        edges = rand_connected_edges(rng, n, rng.randint(0, 3))
    D = D or (2 if (len(edges) > 6 or n > 5) else rng.choice([2, 2, 3]))
    phys = phys or (2 if n > 5 else rng.choice([2, 2, 3]))
    tn = qtn.TN_from_edges_rand(edges, D=D, phys_dim=phys, dtype=complex, seed=rng.randint(0, 10**6))
    return fill_exact(rng, tn), edges


def gen_multi(rng):
    """graph state with lazily applied one-site operators tagged with the site's tag: several tensors per site"""
    tn, edges = gen_graph(rng, n=rng.randint(3, 5))
    dims = {s: int(tn.ind_size(tn.site_ind(s))) for s in tn.sites}
    for i in rng.sample(list(tn.sites), rng.randint(1, 2)):
        A = gauss(rng, (dims[i], dims[i]), -1, 1)
        if not np.any(A):
            A[0, 0] = 1
        tn = tn.gate(A, (i,), contract=False, tags=[tn.site_tag(i)])
    return tn


def gen_hyper(rng):
    """vector network with a hyper bond (one label shared by three or four tensors) plus ordinary bonds"""
    import quimb.tensor as qtn

    n = rng.randint(4, 5)
    nh = rng.randint(3, n - 1)
    d = rng.choice([2, 2, 3])
    ts = []
    for i in range(n):
        inds = [f"k{i}"]
        shp = [d]
        if i < nh:
            inds.append("h")
            shp.append(2)
        if i >= nh - 1 and i < n - 1:
            inds.append(f"x{i}")
            shp.append(2)
        if i >= nh:
            inds.append(f"x{i - 1}")
            shp.append(2)
        ts.append(qtn.Tensor(gauss(rng, shp), inds, tags=[f"I{i}"]))
    tn = qtn.TensorNetwork(ts).view_as_(qtn.TensorNetworkGenVector, sites=range(n), site_tag_id="I{}", site_ind_id="k{}")
    return fill_exact(rng, tn)


def gen_peps3d(rng, shape=(2, 2, 2)):
    import quimb.tensor as qtn

    p = qtn.PEPS3D.rand(*shape, 2, dtype=complex, seed=rng.randint(0, 10**6))
    return fill_exact(rng, p)


# ----------------------------------------------------------------------------------
# plain numpy reference on the dense state


class Ref:
    """dense state (einsum of the dumped tensors, independent of quimb's contraction) and references"""

    def __init__(self, tn):
        self.tn = tn
        self.sites = list(tn.sites)
        self.inds = [tn.site_ind(s) for s in self.sites]
        self.tensors = tm.qtn_tensors(tn)
        self.dims = [int(tn.ind_size(i)) for i in self.inds]
        scale = 10.0 ** float(getattr(tn, "exponent", 0.0) or 0.0)
        self.psi0 = np.asarray(tm.np_dense(self.tensors, self.inds)).reshape(self.dims)  # the tensors alone
        self.psi = self.psi0 * scale
        self.n2 = complex(np.vdot(self.psi, self.psi))

    def idx(self, where):
        return [self.sites.index(s) for s in where]

    def D(self, where):
        return int(np.prod([self.dims[i] for i in self.idx(where)]))

    def rho(self, where):
        ix = self.idx(where)
        rest = [i for i in range(len(self.sites)) if i not in ix]
        p = np.transpose(self.psi, ix + rest).reshape(self.D(where), -1)
        return p @ p.conj().T

    def expec(self, G, where):
        """<psi| G_where |psi> by applying G to the ket axes (no rho involved)"""
        ix = self.idx(where)
        rest = [i for i in range(len(self.sites)) if i not in ix]
        D = self.D(where)
        p = np.transpose(self.psi, ix + rest).reshape(D, -1)
        Gp = np.asarray(G).reshape(D, D) @ p
        return complex(np.vdot(p, Gp))


def rand_where(rng, sites, k=None, maxD=None, dims=None):
    k = k or rng.choice([1, 2, 2, 2, 3])
    k = min(k, max(1, len(sites) - 1))
    for _ in range(20):
        w = tuple(rng.sample(list(sites), k))
        if maxD is None or dims is None:
            return w
        if int(np.prod([dims[list(sites).index(s)] for s in w])) <= maxD:
            return w
    return (rng.choice(list(sites)),)


def rand_op(rng, ref, where):
    """non-symmetric Gaussian-integer operator; for >= 2 sites half of the time a Kronecker product of
    different one-site factors (attached to the sites in the order given)"""
    ds = [ref.dims[i] for i in ref.idx(where)]
    D = int(np.prod(ds))
    if len(ds) >= 2 and rng.random() < 0.5:
        G = np.ones((1, 1), dtype=complex)
        for d in ds:
            G = np.kron(G, gauss(rng, (d, d)))
        kind = "kron"
    else:
        G = gauss(rng, (D, D))
        kind = "full"
    if np.allclose(G, G.conj().T):
        G[0, D - 1] += 1 + 1j
    return G, kind


def close(a, b, scale=1.0, floor=1.0):
    """|a - b| <= TOL * max(floor, scale, max|b|).  floor = 1 (absolute below magnitude 1) except for states whose
    natural magnitude is below 1 (a negative `exponent`), where the caller passes that magnitude"""
    a = np.asarray(a, dtype=complex)
    b = np.asarray(b, dtype=complex)
    if a.shape != b.shape:
        return False
    return bool(np.all(np.abs(a - b) <= TOL * max(floor, scale, float(np.max(np.abs(b))) if b.size else 1.0)))


def jsonable(x):
    x = np.asarray(x)
    return [[float(v.real), float(v.imag)] for v in x.reshape(-1)]


def state_desc(kind, ref, extra=None):
    d = {"kind": kind, "sites": [str(s) for s in ref.sites], "dims": ref.dims,
         "exponent": float(getattr(ref.tn, "exponent", 0.0) or 0.0),  # the state is 10**exponent x its tensors
         "tensors": [[list(i), list(np.asarray(a).shape), jsonable(a)] for i, a in ref.tensors]}
    if extra:
        d.update(extra)
    return d


# ----------------------------------------------------------------------------------
# route tables.  Every route returns the value described by `kind`:
#   "rdm_u"  unnormalised fused rdm        "rdm_n"  normalised fused rdm
#   "exp_u"  unnormalised expectation      "exp_n"  normalised expectation
#   "norm"   <psi|psi>


def generic_rdm_routes(tn, where, nsites, quick_opt="greedy", compressed=True):
    """(name, kind, thunk) for TensorNetworkGenVector reduced-density-matrix routes"""
    big = dict(max_distance=nsites + 1)
    R = []
    R.append(("partial_trace_exact[u]", "rdm_u", lambda: tn.partial_trace_exact(where, normalized=False, optimize=quick_opt)))
    R.append(("partial_trace_exact[n]", "rdm_n", lambda: tn.partial_trace_exact(where, normalized=True, optimize=quick_opt)))
    R.append(("partial_trace_exact[return]", "rdm_u+norm", lambda: tn.partial_trace_exact(where, normalized="return", optimize=quick_opt)))
    R.append(("partial_trace_exact[array]", "rdm_u:array", lambda: tn.partial_trace_exact(where, normalized=False, get="array", optimize=quick_opt)))
    R.append(("partial_trace_exact[tensor]", "rdm_n:tensor", lambda: tn.partial_trace_exact(where, normalized=True, get="tensor", optimize=quick_opt)))
    R.append(("partial_trace_cluster[u]", "rdm_u", lambda: tn.partial_trace_cluster(where, normalized=False, optimize=quick_opt, **big)))
    R.append(("partial_trace_cluster[n]", "rdm_n", lambda: tn.partial_trace_cluster(where, normalized=True, optimize=quick_opt, **big)))
    R.append(("partial_trace_cluster[fillin]", "rdm_n", lambda: tn.partial_trace_cluster(where, normalized=True, optimize=quick_opt, max_distance=nsites, fillin=2)))
    if not compressed:  # MatrixProductState.partial_trace is a deliberate "renamed" stub
        return R
    R.append(("partial_trace[compressed,u]", "rdm_u", lambda: tn.partial_trace(where, max_bond=4096, optimize=quick_opt, normalized=False, cutoff=0.0)))
    R.append(("partial_trace[compressed,n]", "rdm_n", lambda: tn.partial_trace(where, max_bond=4096, optimize=quick_opt, cutoff=0.0)))
    R.append(("partial_trace[compressed,noflatten]", "rdm_n", lambda: tn.partial_trace(where, max_bond=4096, optimize=quick_opt, flatten=False, cutoff=0.0)))
    R.append(("partial_trace[compressed,flatten_all]", "rdm_n", lambda: tn.partial_trace(where, max_bond=4096, optimize=quick_opt, flatten="all", cutoff=0.0)))
    R.append(("partial_trace[compressed,nosym]", "rdm_u", lambda: tn.partial_trace(where, max_bond=4096, optimize=quick_opt, flatten=False, symmetrized=False, normalized=False, cutoff=0.0)))
    R.append(("partial_trace[around]", "rdm_n", lambda: tn.partial_trace(where, max_bond=4096, optimize=quick_opt, method="contract_around", cutoff=0.0)))
    return R


def generic_exp_routes(tn, G, where, nsites, allsites, ring=False, quick_opt="greedy", plain=True):
    big = dict(max_distance=nsites + 1)
    D = G.shape[0]
    R = []
    R.append(("local_expectation_exact[u]", "exp_u", lambda: tn.local_expectation_exact(G, where, normalized=False, optimize=quick_opt)))
    R.append(("local_expectation_exact[n]", "exp_n", lambda: tn.local_expectation_exact(G, where, optimize=quick_opt)))
    R.append(("local_expectation_exact[return]", "exp_u+norm", lambda: tn.local_expectation_exact(G, where, normalized="return", optimize=quick_opt)))
    R.append(("local_expectation_exact[default_opt]", "exp_n", lambda: tn.local_expectation_exact(G, where)))
    R.append(("compute_local_expectation_exact[u]", "exp_u", lambda: tn.compute_local_expectation_exact({where: G}, normalized=False, optimize=quick_opt)))
    R.append(("compute_local_expectation_exact[n,all]", "exp_n", lambda: tn.compute_local_expectation_exact({where: G}, return_all=True, optimize=quick_opt)[where]))
    R.append(("local_expectation_cluster[u]", "exp_u", lambda: tn.local_expectation_cluster(G, where, normalized=False, optimize=quick_opt, **big)))
    R.append(("local_expectation_cluster[n]", "exp_n", lambda: tn.local_expectation_cluster(G, where, optimize=quick_opt, **big)))
    R.append(("local_expectation_cluster[fillin]", "exp_n", lambda: tn.local_expectation_cluster(G, where, optimize=quick_opt, max_distance=nsites, fillin=True)))
    R.append(("local_expectation_cluster[max_bond]", "exp_n", lambda: tn.local_expectation_cluster(G, where, optimize=quick_opt, max_bond=4096, cutoff=0.0, **big)))
    R.append(("compute_local_expectation_cluster[n]", "exp_n", lambda: tn.compute_local_expectation_cluster({where: G}, optimize=quick_opt, **big)))
    R.append(("compute_local_expectation_cluster[u]", "exp_u", lambda: tn.compute_local_expectation_cluster({where: G}, normalized=False, optimize=quick_opt, **big)))
    gl = [tuple(allsites)]
    R.append(("local_expectation_gloop_expand[sum,u]", "exp_u", lambda: tn.local_expectation_gloop_expand(
        G, where, gloops=gl, gauges={}, autoreduce=False, combine="sum", normalized=False, optimize=quick_opt)))
    R.append(("local_expectation_gloop_expand[prod]", "exp_n", lambda: tn.local_expectation_gloop_expand(
        G, where, gloops=gl, gauges={}, autoreduce=False, optimize=quick_opt)))
    R.append(("local_expectation_gloop_expand[sum,local]", "exp_n", lambda: tn.local_expectation_gloop_expand(
        G, where, gloops=gl, gauges={}, autoreduce=False, combine="sum", optimize=quick_opt)))
    R.append(("local_expectation_gloop_expand[sum,separate]", "exp_n", lambda: tn.local_expectation_gloop_expand(
        G, where, gloops=gl, gauges={}, autoreduce=False, combine="sum", normalized="separate", optimize=quick_opt)))
    R.append(("local_expectation_gloop_expand[noautocomplete]", "exp_n", lambda: tn.local_expectation_gloop_expand(
        G, where, gloops=gl, gauges={}, autoreduce=False, autocomplete=False, optimize=quick_opt)))
    R.append(("compute_local_expectation_gloop_expand", "exp_n", lambda: tn.compute_local_expectation_gloop_expand(
        {where: G}, gloops=gl, gauges={}, autoreduce=False, optimize=quick_opt)))
    R.append(("local_expectation[compressed,n]", "exp_n", lambda: tn.local_expectation(G, where, max_bond=4096, optimize=quick_opt, cutoff=0.0)))
    R.append(("local_expectation[compressed,u]", "exp_u", lambda: tn.local_expectation(G, where, max_bond=4096, optimize=quick_opt, normalized=False, cutoff=0.0)))
    R.append(("local_expectation[compressed,noflatten]", "exp_n", lambda: tn.local_expectation(G, where, max_bond=4096, optimize=quick_opt, flatten=False, cutoff=0.0)))
    if len(where) == 2:  # reduce_inds_onto_bond takes exactly two indices ("experimental")
        R.append(("local_expectation[compressed,reduce]", "exp_n", lambda: tn.local_expectation(G, where, max_bond=4096, optimize=quick_opt, reduce=True, cutoff=0.0)))
    if plain:  # MPS / PEPS / PEPS3D override compute_local_expectation with their own signatures
        R.append(("compute_local_expectation[compressed]", "exp_n", lambda: tn.compute_local_expectation({where: G}, max_bond=4096, optimize=quick_opt, cutoff=0.0)))
        R.append(("compute_local_expectation[compressed,u,all]", "exp_u", lambda: tn.compute_local_expectation(
            {where: G}, max_bond=4096, optimize=quick_opt, cutoff=0.0, normalized=False, return_all=True)[where]))
    R.append(("norm[squared]", "norm", lambda: tn.norm(squared=True)))
    R.append(("norm", "norm_sqrt", lambda: tn.norm()))
    if ring:
        n = nsites
        R.append(("local_expectation_sloop_expand[prod]", "exp_n", lambda: tn.local_expectation_sloop_expand(G, where, sloops=n, optimize=quick_opt)))
        R.append(("local_expectation_sloop_expand[sum,u]", "exp_u", lambda: tn.local_expectation_sloop_expand(
            G, where, sloops=n, autoreduce=False, combine="sum", normalized=False, optimize=quick_opt)))
        R.append(("local_expectation_sloop_expand[sum,local]", "exp_n", lambda: tn.local_expectation_sloop_expand(
            G, where, sloops=n, autoreduce=False, combine="sum", optimize=quick_opt)))
        R.append(("compute_local_expectation_sloop_expand", "exp_n", lambda: tn.compute_local_expectation_sloop_expand({where: G}, sloops=n, optimize=quick_opt)))
        R.append(("local_expectation_gloop_expand[int]", "exp_n", lambda: tn.local_expectation_gloop_expand(G, where, gloops=n, gauges={}, optimize=quick_opt)))
    return R


def gauged_routes(tn_g, gauges, G, where, nsites, allsites, quick_opt="greedy"):
    """routes that take simple-update gauges: the state they describe is tn_g with the gauges inserted on every bond"""
    big = dict(max_distance=nsites + 1)
    gl = [tuple(allsites)]
    R = []
    R.append(("local_expectation_cluster[gauges]", "exp_n", lambda: tn_g.local_expectation_cluster(G, where, gauges=gauges, optimize=quick_opt, **big)))
    R.append(("partial_trace_cluster[gauges]", "rdm_n", lambda: tn_g.partial_trace_cluster(where, gauges=gauges, optimize=quick_opt, **big)))
    R.append(("compute_local_expectation_cluster[gauges]", "exp_n", lambda: tn_g.compute_local_expectation_cluster({where: G}, gauges=gauges, optimize=quick_opt, **big)))
    R.append(("local_expectation_gloop_expand[gauges]", "exp_n", lambda: tn_g.local_expectation_gloop_expand(
        G, where, gloops=gl, gauges=gauges, autoreduce=False, optimize=quick_opt)))
    R.append(("norm_gloop_expand[gauges]", "norm_sqrt", lambda: tn_g.norm_gloop_expand(gloops=gl, gauges=gauges, autoreduce=False, optimize=quick_opt)))
    R.append(("norm_gloop_expand[gauges,strip]", "norm_sqrt", lambda: (lambda me: me[0] * 10.0 ** me[1])(
        tn_g.norm_gloop_expand(gloops=gl, gauges=gauges, autoreduce=False, strip_exponent=True, optimize=quick_opt))))
    R.append(("compute_local_expectation_gloop_expand[gauges,global]", "exp_n", lambda: tn_g.compute_local_expectation_gloop_expand(
        {where: G}, gloops=gl, gauges=gauges, autoreduce=False, normalized="global", optimize=quick_opt)))
    return R


def mps_routes(p, G, where, quick_opt="greedy"):
    R = []
    R.append(("mps.partial_trace_to_dense_canonical[u]", "rdm_u", lambda: p.copy().partial_trace_to_dense_canonical(where, normalized=False)))
    R.append(("mps.partial_trace_to_dense_canonical[n]", "rdm_n", lambda: p.copy().partial_trace_to_dense_canonical(where)))
    R.append(("mps.partial_trace_to_dense_canonical[info]", "rdm_n", lambda: p.copy().partial_trace_to_dense_canonical(where, info={"cur_orthog": "calc"})))
    R.append(("mps.local_expectation_canonical[n]", "exp_n", lambda: p.copy().local_expectation_canonical(G, where)))
    R.append(("mps.local_expectation_canonical[u]", "exp_u", lambda: p.copy().local_expectation_canonical(G, where, normalized=False)))

    def precanon():
        q = p.copy()
        info = {}
        q.canonicalize_(len(q.sites) - 1, info=info)
        return q.local_expectation_canonical(G, where, info=info)

    R.append(("mps.local_expectation_canonical[precanonized,info]", "exp_n", precanon))
    R.append(("mps.compute_local_expectation[canonical,n]", "exp_n", lambda: p.compute_local_expectation({where: G}, method="canonical")))
    R.append(("mps.compute_local_expectation[canonical,u]", "exp_u", lambda: p.compute_local_expectation({where: G}, method="canonical", normalized=False)))
    R.append(("mps.compute_local_expectation[canonical,inplace,all]", "exp_n", lambda: p.copy().compute_local_expectation(
        {where: G}, method="canonical", inplace=True, return_all=True, info={"cur_orthog": "calc"})[where]))
    def normalized_overlap():
        q = p.copy()
        q.normalize()
        return q.H @ q

    R.append(("mps.normalize", "unit", normalized_overlap))
    R.append(("mps.compute_local_expectation[envs,n]", "exp_n", lambda: p.compute_local_expectation({where: G}, method="envs")))
    R.append(("mps.compute_local_expectation[envs,u]", "exp_u", lambda: p.compute_local_expectation({where: G}, method="envs", normalized=False)))
    R.append(("mps.compute_local_expectation_via_envs[all]", "exp_n", lambda: p.compute_local_expectation_via_envs({where: G}, return_all=True)[where]))
    return R


def to_matrix(res, kind, tn, where):
    """normalise the container of an rdm result to a fused (D, D) matrix"""
    D = int(np.prod([tn.ind_size(tn.site_ind(s)) for s in where]))
    if kind.endswith(":array"):
        a = np.asarray(res)
        if a.ndim != 2 * len(where):
            raise ValueError(f"array rank {a.ndim} != {2 * len(where)}")
        return a.reshape(D, D)
    if kind.endswith(":tensor"):
        k_inds = tuple(tn.site_ind(s) for s in where)
        if tuple(res.inds[: len(where)]) != k_inds or len(res.inds) != 2 * len(where):
            raise ValueError(f"tensor labels {res.inds} do not start with the ket labels {k_inds}")
        return np.asarray(res.data).reshape(D, D)
    a = np.asarray(res)
    if a.shape != (D, D):
        raise ValueError(f"rdm shape {a.shape} != {(D, D)}")
    return a


class Checker:
    """runs routes on one (state, where, G), compares with numpy, collects exact values for Coq"""

    def __init__(self, ctx, ref, sdesc, family):
        self.ctx = ctx
        self.ref = ref
        self.sdesc = sdesc
        self.family = family

    def run(self, routes, where, G, exact, ref=None, raise_key=None):
        """exact: dict with lists 'rdms', 'norms', 'exps' collecting exactly representable unnormalised values;
        raise_key(name, exc) may return a precise violation key for an exception class"""
        ctx = self.ctx
        ref = ref or self.ref
        for name, kind, thunk, *rest_ in routes:
            base = name.split("[")[0]
            self.kopts = rest_[0] if rest_ else None  # option class that goes into the violation key (cube routes)
            coqcall = rest_[1] if len(rest_) > 1 else None  # the model's prediction of what this call returns
            key_case = (self.sdesc.get("id"), [str(s) for s in where], name)
            ctx.count(key_case, len(where) < len(ref.sites) and not np.allclose(G, G.conj().T))
            ctx.bump("route:" + base)
            ROUTES.add(name)
            replay = {"state": self.sdesc, "where": [str(s) for s in where], "route": name,
                      "G": jsonable(G), "G_shape": list(G.shape)}
            if ref is not self.ref:  # gauged copy: tensors after gauge_all_simple_ (+ its own exponent); the state
                # the route describes is that network with the returned gauges inserted on every bond
                replay["gauged_network"] = {"exponent": self.expo(ref), "how": "state.copy().gauge_all_simple_(5, 1e-10, gauges=gauges)"}
            import time as _t
            _t0 = _t.time()
            try:
                res = thunk()
                TIMES[name] = TIMES.get(name, 0.0) + _t.time() - _t0
            except Exception as e:  # a route raising on a valid input
                TIMES[name] = TIMES.get(name, 0.0) + _t.time() - _t0
                key = raise_key(name, e) if raise_key else None
                if key is None and name == "partial_trace_exact[tensor]" and isinstance(e, AttributeError) and "multiply_" in str(e):
                    key = "tnag.partial_trace_exact:get_tensor_normalized:AttributeError"
                ctx.violation(key or f"{self.kp(base, ref)}:raised:{type(e).__name__}",
                              f"{name} raised {type(e).__name__}: {str(e)[:160]} on {self.family} where={where}", replay)
                continue
            if coqcall is not None:
                self.observe_class(name, coqcall, res, where, G, ref)
            try:
                self.compare(name, kind, res, where, G, exact, ref, replay)
            except Exception as e:
                ctx.violation(f"{self.kp(base, ref)}:malformed", f"{name} returned a malformed result: {type(e).__name__}: {str(e)[:160]}", replay)

    kopts = None

    def observe_class(self, name, coqcall, res, where, G, ref):
        """which of  <G>/<1> (Ratio),  <G> (Raw),  (<G>, <1>) (Pair)  did the call return?  Decided against the
        dense reference independently of what was requested; the model's table (C13/Options.v route_class) must
        predict exactly this class.  Ambiguous or unclassifiable results are left to the oracle."""
        if self.expo(ref) != 0.0:
            # on exponent-bearing states the open finding (sub-network routes ignore the exponent) can make a raw value
            # coincide with the ratio (tensors of norm 1): the class is only read off exponent-free states
            return
        try:
            obs = None
            if isinstance(res, tuple) and len(res) == 2:
                obs = "Pair"
            else:
                a = np.asarray(res)
                if a.size == 1:
                    v = complex(a.reshape(-1)[0])
                    raw = ref.expec(G, where)
                    is_raw, is_ratio = close(v, raw, abs(raw)), close(v, raw / ref.n2, abs(raw / ref.n2))
                else:
                    raw = ref.rho(where)
                    M = a.reshape(raw.shape)
                    is_raw, is_ratio = close(M, raw), close(M, raw / np.trace(raw))
                if is_raw != is_ratio:
                    obs = "Raw" if is_raw else "Ratio"
            if obs is None:
                self.ctx.bump("option_flow:unclassified_left_to_oracle")
                return
            OPT_CASES.setdefault(f"out_eqb ({coqcall}) {obs}", f"{name}: returned class {obs}")
            self.ctx.bump("option_flow:observed_" + obs)
        except Exception:
            self.ctx.bump("option_flow:unclassified_left_to_oracle")

    @staticmethod
    def expo(ref):
        return float(getattr(ref.tn, "exponent", 0.0) or 0.0)

    def kp(self, base, ref):
        """violation-key prefix = call site + input class: the route, for the option-cube routes the option class
        (normalisation mode / backend / combine), and the scale representation when the state carries an exponent"""
        k = base if self.kopts is None else f"{base}[{self.kopts}]"
        return k + (":scale=exponent" if self.expo(ref) != 0.0 else "")

    @staticmethod
    def nz_label(name, k0):
        """the normalisation mode requested (from the route's option string), else True / False from the kind"""
        import re as _re

        m = _re.search(r"normalized=([A-Za-z]+)", name)
        if m is None and "global" in name:
            return "global"
        return m.group(1) if m else str(k0.endswith("_n"))

    def scale_tag(self, got, want, ref, unnormalised):
        """classify a wrong value on a state that holds (part of) its scale in `exponent`: off by exactly
        10**(+-2*exponent)?  Returns (tag, key) or None"""
        x = self.expo(ref)
        if x == 0.0:
            return None
        f = 10.0 ** (2 * x)
        sc = float(np.max(np.abs(np.asarray(want)))) if np.asarray(want).size else 1.0
        if close(np.asarray(got) * f, want, sc):
            return "exponent_ignored"
        if close(np.asarray(got) / f, want, sc):
            return "exponent_counted_twice"
        return None

    def compare(self, name, kind, res, where, G, exact, ref, replay):
        ctx = self.ctx
        base = name.split("[")[0]
        kp = self.kp(base, ref)
        tn = ref.tn
        n2 = ref.n2
        k0 = kind.split(":")[0]
        norm_val = None
        if k0.endswith("+norm"):
            res, norm_val = res
            k0 = k0[: -len("+norm")]
        if norm_val is not None:
            if not close(norm_val, n2, abs(n2), floor=min(1.0, abs(n2))):
                st = self.scale_tag(norm_val, n2, ref, True)
                ctx.violation(f"{kp}:norm" if st is None else f"{base}:scale=exponent:norm:{st}",
                              f"{name}: returned norm factor {complex(norm_val)} != <psi|psi> = {n2}"
                              + (f" ({st}, exponent={self.expo(ref):.4g})" if st else ""), replay)
            elif exact is not None and ref is self.ref:
                self.snap(exact["norms"], [norm_val])
        # natural magnitude of an unnormalised result: absolute comparison below 1 is only meaningful for states of
        # magnitude >= 1, so a state that is small (negative exponent) is compared relative to its own magnitude
        fl_u = min(1.0, abs(n2) * max(1.0, float(np.max(np.abs(G))))) if self.expo(ref) != 0.0 else 1.0
        if k0 in ("rdm_u", "rdm_n"):
            M = to_matrix(res, kind, tn, where)
            want = ref.rho(where)
            if k0 == "rdm_n":
                want = want / np.trace(want)
            fl = fl_u if k0 == "rdm_u" else 1.0
            ok = close(M, want, floor=fl)
            herm = close(M, M.conj().T, floor=fl)
            tr_ok = close(np.trace(M), np.trace(want), floor=fl)
            if not ok:
                tag = "order_or_transpose" if (close(M, want.T, floor=fl) or self.is_site_permutation(M, ref, where, k0 == "rdm_n")) else "value"
                key = f"{kp}:rdm:{tag}"
                if tag == "value":
                    raw = ref.rho(where)
                    # (a state whose tensors alone have norm 1 makes "exponent ignored" and "normalised" coincide:
                    # the exponent class is tested first)
                    st = self.scale_tag(M, want, ref, k0 == "rdm_u")
                    if st is not None:
                        # input class: scale held in `exponent`, unnormalised result requested (any backend)
                        key = f"{base}:scale=exponent:rdm:{st}:normalized={k0 == 'rdm_n'}"
                    elif self.kopts is not None and k0 == "rdm_u" and close(M, raw / np.trace(raw)):
                        key = f"{kp}:rdm:normalised_although_unnormalised_requested"
                    elif self.kopts is not None and k0 == "rdm_n" and close(M, raw, floor=fl_u):
                        key = f"{kp}:rdm:unnormalised_although_normalised_requested"
                    tag = key.split(":rdm:")[1]
                ctx.violation(key,
                              f"{name}: reduced density matrix differs from the dense one ({tag}; hermitian={herm}, trace_ok={tr_ok}) "
                              f"on {self.family} where={where}", {**replay, "got": jsonable(M), "want": jsonable(want)})
            elif k0 == "rdm_u" and exact is not None and ref is self.ref:
                self.snap_list(exact["rdms"], M)
        elif k0 in ("exp_u", "exp_n"):
            raw = ref.expec(G, where)
            want = raw / n2 if k0 == "exp_n" else raw
            fl = fl_u if k0 == "exp_u" else 1.0
            v = complex(np.asarray(res).reshape(-1)[0]) if np.asarray(res).size == 1 else None
            if v is None:
                raise ValueError(f"expectation is not a scalar: shape {np.asarray(res).shape}")
            if not close(v, want, abs(want), floor=fl):
                den = n2 if k0 == "exp_n" else 1.0
                alt = ref.expec(np.asarray(G).T, where) / den
                tag = "transposed_operator" if close(v, alt, abs(alt), floor=fl) else "value"
                if tag == "value" and len(where) >= 2:
                    for perm in itertools.permutations(where):
                        if perm != tuple(where) and close(v, ref.expec(G, perm) / den, abs(want), floor=fl):
                            tag = "operator_site_order"
                            break
                key = f"{kp}:expectation:{tag}"
                if tag == "value":
                    # which normalisation did the route apply?  (N != 1 for every state drawn)
                    st = self.scale_tag(v, want, ref, k0 == "exp_u")
                    if st is not None:
                        tag = st
                        # input class: scale held in `exponent` x normalisation requested (any backend / combine)
                        key = f"{base}:scale=exponent:expectation:{st}:normalized={self.nz_label(name, k0)}"
                    elif self.kopts is not None and k0 == "exp_u" and close(v, raw / n2, abs(raw / n2)):
                        tag = "normalised_although_unnormalised_requested"
                        key = f"{kp}:expectation:{tag}"
                    elif self.kopts is not None and k0 == "exp_n" and close(v, raw, abs(raw), floor=fl_u):
                        tag = "unnormalised_although_normalised_requested"
                        key = f"{kp}:expectation:{tag}"
                ctx.violation(key,
                              f"{name}: got {v}, dense <psi|O|psi>{'/<psi|psi>' if k0 == 'exp_n' else ''} = {want} ({tag}) "
                              f"on {self.family} where={where}" + (f", exponent={self.expo(ref):.4g}" if self.expo(ref) else ""),
                              {**replay, "got": [v.real, v.imag], "want": [want.real, want.imag]})
            elif k0 == "exp_u" and exact is not None and ref is self.ref:
                self.snap(exact["exps"], [v])
        elif k0 == "norm":
            v = complex(np.asarray(res).reshape(-1)[0])
            if not close(v, n2, abs(n2)):
                ctx.violation(f"{kp}:norm", f"{name}: got {v}, <psi|psi> = {n2}", replay)
            elif exact is not None and ref is self.ref:
                self.snap(exact["norms"], [v])
        elif k0 == "norm_sqrt":
            v = complex(np.asarray(res).reshape(-1)[0])
            want = abs(n2) ** 0.5
            if not close(v, want, want):
                ctx.violation(f"{kp}:norm", f"{name}: got {v}, sqrt<psi|psi> = {want}", replay)
        elif k0 == "unit":
            v = complex(np.asarray(res).reshape(-1)[0])
            if not close(v, 1.0):
                ctx.violation(f"{base}:norm", f"{name}: got {v}, expected 1", replay)
        else:
            raise ValueError("unknown kind " + kind)

    def is_site_permutation(self, M, ref, where, normalised):
        if len(where) < 2:
            return False
        for perm in itertools.permutations(where):
            if perm == tuple(where):
                continue
            w = ref.rho(perm)
            if normalised:
                w = w / np.trace(w)
            if close(M, w):
                return True
        return False

    def snap(self, dst, vals):
        try:
            for v in vals:
                tm.to_gauss(v)
            dst.extend(complex(*tm.to_gauss(v)) for v in vals)
        except tm.NotExact:
            self.ctx.bump("inexact_result_oracle_only")

    def snap_list(self, dst, M):
        try:
            dst.append(np.array([complex(*tm.to_gauss(v)) for v in np.asarray(M).reshape(-1)]))
        except tm.NotExact:
            self.ctx.bump("inexact_result_oracle_only")


# ----------------------------------------------------------------------------------
# option cube.  Every API of the cluster / loop-expansion families x EVERY documented normalisation mode x contraction
# backend (exact / compressed with an untruncating cap) x combine x gauges (none / simple-update gauges), on states
# whose overall scale is held in the tensors, in `exponent`, or in both.  A route tuple carries a 4th element: the
# option class that goes into the violation key.

NZ_GLOOP = (True, False, "prod", "local", "separate")


def cube_routes(tn, G, where, nsites, allsites, gauges=None, ring=False, opt="greedy"):
    big = nsites + 1
    gk = {} if gauges is None else {"gauges": gauges}
    gd = {} if gauges is None else gauges  # the loop expansions take a dict ({}: no bond is gauged)
    gs = "" if gauges is None else ",gauges"
    gl = [tuple(allsites)]
    R = []

    NM = {True: "NTrue", False: "NFalse", "return": "NReturn", "prod": "NProd", "local": "NLocal",
          "separate": "NSeparate", "global": "NGlobal"}

    def add(api, opts, kind, thunk, model=None):
        R.append((f"{api}[{opts}{gs}]", kind, thunk, opts, model))

    def rc(capi, mb, csum, nz):
        """C13/Options.v: route_class api max_bond combine_is_sum mode"""
        return f"route_class {capi} {'true' if mb else 'false'} {'true' if csum else 'false'} {NM[nz]}"

    def ek(nz):
        return "exp_u" if nz is False else "exp_n"

    # -- cluster family: normalized x backend ------------------------------------------------------------------------
    for nz in (True, False):
        for mb in (None, 64):
            o = f"normalized={nz},max_bond={'int' if mb else None}"
            co = dict(cutoff=0.0) if mb else {}
            add("local_expectation_cluster", o, ek(nz), lambda nz=nz, mb=mb, co=co: tn.local_expectation_cluster(
                G, where, normalized=nz, max_distance=big, max_bond=mb, optimize=opt, **co, **gk), rc("ClusterLocal", mb, False, nz))
            add("compute_local_expectation_cluster", o, ek(nz), lambda nz=nz, mb=mb, co=co: tn.compute_local_expectation_cluster(
                {where: G}, normalized=nz, max_distance=big, max_bond=mb, optimize=opt, return_all=True, **co, **gk)[where],
                rc("ClusterCompute", mb, False, nz))
    for nz, kind in ((True, "rdm_n"), (False, "rdm_u"), ("return", "rdm_u+norm")):
        add("partial_trace_cluster", f"normalized={nz}", kind, lambda nz=nz: tn.partial_trace_cluster(
            where, normalized=nz, max_distance=big, optimize=opt, **gk), rc("ClusterRdm", False, False, nz))
    # -- generalized-loop expansion, one loop = the whole network: combine x normalized -----------------------------------
    for combine in ("prod", "sum"):
        for nz in NZ_GLOOP:
            o = f"combine={combine},normalized={nz}"
            add("local_expectation_gloop_expand", o, ek(nz), lambda nz=nz, combine=combine: tn.local_expectation_gloop_expand(
                G, where, gloops=gl, gauges=gd, combine=combine, normalized=nz, autoreduce=False, optimize=opt),
                rc("GloopLocal", False, combine == "sum", nz))
            add("compute_local_expectation_gloop_expand", o, ek(nz), lambda nz=nz, combine=combine: tn.compute_local_expectation_gloop_expand(
                {where: G}, gloops=gl, gauges=gd, combine=combine, normalized=nz, autoreduce=False, optimize=opt, return_all=True)[where],
                rc("GloopCompute", False, combine == "sum", nz))
        add("compute_local_expectation_gloop_expand", f"combine={combine},normalized=global", "exp_n",
            lambda combine=combine: tn.compute_local_expectation_gloop_expand(
                {where: G}, gloops=gl, gauges=gd, combine=combine, normalized="global", autoreduce=False, optimize=opt),
            rc("GloopCompute", False, combine == "sum", "global"))
    # -- the same with a redundant second region (a proper sub-region of the whole network): the region counting must
    #    give it weight 0, so every mode still returns the dense answer ------------------------------------------------
    others = [s_ for s_ in allsites if s_ not in where]
    if len(others) >= 2:
        gl2 = [tuple(allsites), tuple(where) + (others[0],)]
        for combine in ("prod", "sum"):
            for nz in (True, False):
                o = f"combine={combine},normalized={nz},gloops=whole+subregion"
                add("local_expectation_gloop_expand", o, ek(nz), lambda nz=nz, combine=combine: tn.local_expectation_gloop_expand(
                    G, where, gloops=gl2, gauges=gd, combine=combine, normalized=nz, autoreduce=False, optimize=opt),
                    rc("GloopLocal", False, combine == "sum", nz))
    # -- simple-loop expansion on a ring (the one loop is the ring) -----------------------------------------------------
    if ring:
        for combine in ("prod", "sum"):
            for nz in NZ_GLOOP:
                o = f"combine={combine},normalized={nz}"
                add("local_expectation_sloop_expand", o, ek(nz), lambda nz=nz, combine=combine: tn.local_expectation_sloop_expand(
                    G, where, sloops=nsites, combine=combine, normalized=nz, autoreduce=False, optimize=opt, **gk),
                    rc("SloopLocal", False, combine == "sum", nz))
                add("compute_local_expectation_sloop_expand", o, ek(nz), lambda nz=nz, combine=combine: tn.compute_local_expectation_sloop_expand(
                    {where: G}, sloops=nsites, combine=combine, normalized=nz, autoreduce=False, optimize=opt, **gk),
                    rc("SloopCompute", False, combine == "sum", nz))
    return R


def scale_variants(rng, tn, quick, sid):
    """the same family of state with its overall scale held differently: [(label, network, integer exponent or
    None)].  `exponent` is part of the state: to_dense() / norm() / the exact routes include 10**exponent.
    "exponent_int": integer tensors + a hand-set integer exponent (exactly representable -> goes to Coq too)."""
    out = [("tensors", tn, None)]
    a = tn.copy()
    a.multiply_(10.0 ** rng.uniform(0.5, 2.5))
    a.equalize_norms_(1.0)  # every tensor has norm 1, the scale sits in a (large) positive exponent
    b = tn.copy()
    b.multiply_each_(10.0 ** -rng.uniform(0.6, 1.2))
    b.equalize_norms_(1.0)
    if b.exponent >= 0:  # any exponent describes a valid state: force a negative one
        b.exponent = -rng.uniform(0.3, 1.0)
    c = tn.copy()
    c.exponent = float(rng.choice([1, 2]))  # tensors NOT normalised and exponent != 0: scale in both places
    fl = [("exponent_pos", a, None), ("exponent_neg", b, None)]
    if quick:
        fl = [fl[sum(map(ord, sid)) % 2]]
    return out + fl + [("exponent_int", c, int(c.exponent))]



# ----------------------------------------------------------------------------------
# Coq case emission


def glist(arr):
    """Gaussian-integer list literal (the case files open Z_scope)"""
    out = []
    for v in np.asarray(arr).reshape(-1):
        re, im = tm.to_gauss(v)
        out.append(f"({re}, {im})")
    return "[" + "; ".join(out) + "]"


def distinct(arrs):
    """drop exact duplicates (all values are snapped Gaussian integers): comparing the model with the distinct
    values is comparing it with every value"""
    seen, out = set(), []
    for a in arrs:
        k = glist(a)
        if k not in seen:
            seen.add(k)
            out.append(a)
    return out


def item_lits(ref, where, exact):
    w = tm.nlist(ref.idx(where))
    rd = "[" + "; ".join(glist(m) for m in distinct(exact["rdms"])) + "]"
    ex = "[" + "; ".join(f"({glist(G)}, {glist(distinct([[v] for v in vals]))})" for G, vals in exact["exps_by_op"]) + "]"
    return w, rd, ex


def coq_case(ref, where, exact, predensified=False, scale_exp=None):
    """Coq bool: model rdm / norm / expectations on dense(state tensors) == implementation values (one site tuple).
    scale_exp = k: the state is 10^k x its tensors, the model's values on the tensors are multiplied by (10^k)^2"""
    dl, tl, namer = tm.net_literal([(tuple(ref.inds), ref.psi0)] if predensified else ref.tensors)
    outs = tm.nlist([namer(i) for i in ref.inds])
    w, rd, ex = item_lits(ref, where, exact)
    nm = glist(distinct([[v] for v in exact["norms"]]))
    if scale_exp is None:
        return f"check_where {dl} {tl} {outs} {w} {rd} {nm} {ex}"
    return f"check_where_scaled ({int(scale_exp)})%Z {dl} {tl} {outs} {w} {rd} {nm} {ex}"


def coq_state_case(ref, norms, items, predensified=False, scale_exp=None):
    """one case per state (the dense state is evaluated once): items = [(where, exact)].  predensified: the state
    is handed to Coq as ONE tensor (numpy einsum of the dumped tensors) instead of the network"""
    tensors = [(tuple(ref.inds), ref.psi0)] if predensified else ref.tensors
    dl, tl, namer = tm.net_literal(tensors)
    outs = tm.nlist([namer(i) for i in ref.inds])
    nm = glist(distinct([[v] for v in norms]))
    its = "[" + "; ".join("(%s, %s, %s)" % item_lits(ref, w, ex) for w, ex in items) + "]"
    if scale_exp is None:
        return f"check_state {dl} {tl} {outs} {nm} {its}"
    return f"check_state_scaled ({int(scale_exp)})%Z {dl} {tl} {outs} {nm} {its}"


def peps_routes(p, G, where, opt="greedy"):
    key = where[0] if len(where) == 1 else tuple(where)  # single sites are keyed as (i, j)
    o = dict(max_bond=4096, cutoff=0.0, contract_optimize=opt)
    R = []
    R.append(("peps.compute_local_expectation[n]", "exp_n", lambda: p.compute_local_expectation({key: G}, normalized=True, **o)))
    R.append(("peps.compute_local_expectation[u]", "exp_u", lambda: p.compute_local_expectation({key: G}, normalized=False, **o)))
    R.append(("peps.compute_local_expectation[all]", "exp_u+norm", lambda: p.compute_local_expectation({key: G}, normalized=True, return_all=True, **o)[key]))
    R.append(("peps.compute_local_expectation[full-bond]", "exp_n", lambda: p.compute_local_expectation({key: G}, normalized=True, mode="full-bond", **o)))
    R.append(("peps.compute_local_expectation[single_layer]", "exp_n", lambda: p.compute_local_expectation({key: G}, normalized=True, layer_tags=None, **o)))
    R.append(("peps.compute_local_expectation[nocanonize]", "exp_n", lambda: p.compute_local_expectation({key: G}, normalized=True, canonize=False, **o)))
    R.append(("peps.compute_local_expectation[noautogroup]", "exp_n", lambda: p.compute_local_expectation({key: G}, normalized=True, autogroup=False, **o)))
    R.append(("peps.compute_local_expectation[max_bond=None]", "exp_n", lambda: p.compute_local_expectation(
        {key: G}, normalized=True, max_bond=None, cutoff=0.0, contract_optimize=opt)))

    def with_envs():
        norm = p.make_norm()
        from quimb.tensor.tn2d.core import calc_plaquette_sizes

        envs = {}
        for xb, yb in calc_plaquette_sizes([key]):
            envs.update(norm.compute_plaquette_environments(x_bsz=xb, y_bsz=yb, max_bond=4096, cutoff=0.0))
        return p.compute_local_expectation({key: G}, normalized=True, plaquette_envs=envs, contract_optimize=opt)

    R.append(("peps.compute_local_expectation[given_envs]", "exp_n", with_envs))
    R.append(("peps.compute_local_expectation[y_first]", "exp_n", lambda: p.compute_local_expectation({key: G}, normalized=True, first_contract="y", **o)))
    R.append(("peps.compute_norm", "norm", lambda: p.compute_norm(max_bond=4096, cutoff=0.0)))
    R.append(("peps.compute_norm[single_layer]", "norm", lambda: p.compute_norm(max_bond=4096, cutoff=0.0, layer_tags=None)))
    R.append(("peps.normalize", "exp_n", lambda: p.normalize(max_bond=4096, cutoff=0.0).local_expectation_exact(G, where, normalized=False, optimize=opt)))
    return R


def peps3d_routes(p, G, where, nsites):
    key = where[0] if len(where) == 1 else tuple(where)
    o = dict(max_bond=4096, cutoff=0.0)
    R = []
    R.append(("peps3d.compute_local_expectation[n]", "exp_n", lambda: p.compute_local_expectation({key: G}, **o)))
    R.append(("peps3d.compute_local_expectation[u]", "exp_u", lambda: p.compute_local_expectation({key: G}, normalized=False, **o)))
    R.append(("peps3d.compute_local_expectation[flatten]", "exp_n", lambda: p.compute_local_expectation({key: G}, flatten=True, **o)))
    R.append(("peps3d.compute_local_expectation[nocanonize,nosym,all]", "exp_n", lambda: p.compute_local_expectation(
        {key: G}, canonize=False, symmetrized=False, return_all=True, **o)[key]))
    R.append(("peps3d.partial_trace[u]", "rdm_u", lambda: p.partial_trace(key, normalized=False, **o)))
    R.append(("peps3d.partial_trace[n]", "rdm_n", lambda: p.partial_trace(key, **o)))
    R.append(("peps3d.partial_trace[compressed_cell]", "rdm_n", lambda: p.partial_trace(key, contract_cell_method="compressed", contract_cell_optimize="greedy", **o)))
    R.append(("peps3d.partial_trace_cluster", "rdm_n", lambda: p.partial_trace_cluster(tuple(where), max_distance=nsites, **o)))
    R.append(("peps3d.partial_trace_cluster[flatten,u]", "rdm_u", lambda: p.partial_trace_cluster(tuple(where), max_distance=nsites, flatten=True, normalized=False, **o)))
    return R


# ----------------------------------------------------------------------------------
# stages


class Cases:
    def __init__(self):
        self.cases = []
        self.info = {}

    def add(self, desc, expr):
        cid = len(self.cases) + 1
        self.cases.append((cid, expr))
        self.info[cid] = desc


def where_variants(rng, ref, n_extra, max_k=3, maxD=9):
    """a pair in both orders (if possible), plus random tuples of 1-3 sites in random order"""
    sites = list(ref.sites)
    out = []
    if len(sites) >= 3:
        a, b = rng.sample(sites, 2)
        if ref.D((a, b)) <= maxD:
            out += [(a, b), (b, a)]
    if len(sites) >= 4 and max_k >= 3:
        # one three-site tuple (random, usually mixed, order) whenever the fused dimension allows it
        w3 = rand_where(rng, sites, k=3, maxD=maxD, dims=ref.dims)
        if len(w3) == 3:
            out.append(w3)
    for _ in range(n_extra):
        k = rng.choice([1, 2, 2, 3][: max_k + 1])
        out.append(rand_where(rng, sites, k=k, maxD=maxD, dims=ref.dims))
    seen, res = set(), []
    for w in out:
        if w not in seen and len(w) < len(sites):
            seen.add(w)
            res.append(w)
    return res


def coq_cost(ref):
    """rough number of inner-loop term evaluations of `dense` on this state"""
    bonds = {}
    for inds, arr in ref.tensors:
        for i, d in zip(inds, np.asarray(arr).shape):
            if i not in ref.inds:
                bonds[i] = d
    return int(np.prod(ref.dims)) * int(np.prod(list(bonds.values()) or [1])) * len(ref.tensors)


def run_state(ctx, cases, kind, tn, sid, extra_routes=None, ring=False, n_where=3, n_ops=2, raise_key=None,
              where_list=None, generic=True, gauged=True, max_k=3, coq_budget=None, only_exact=False,
              cube=False, legacy=True, scale_exp=None):
    """all routes on one state; exact unnormalised results -> one Coq case per site tuple.
    cube: also the option-cube routes; legacy=False: only those; scale_exp: the state's (integer) exponent, the Coq
    case then compares with (10^scale_exp)^2 x the model's values on the tensors"""
    rng = ctx.rng
    if coq_budget is None:
        coq_budget = ctx.n(60000, 400000)
    ref = Ref(tn)
    if abs(complex(np.vdot(ref.psi0, ref.psi0))) < (0.5 if not Checker.expo(ref) else 1e-30):
        ctx.bump("zero_state_skipped")
        return
    sdesc = state_desc(kind, ref, {"id": sid})
    ctx.bump("family:" + kind)
    if sid.endswith("_0"):
        ctx.sample({"family": kind, "sites": sdesc["sites"], "dims": ref.dims, "n_tensors": len(ref.tensors)})
    chk = Checker(ctx, ref, sdesc, kind)
    nsites = len(ref.sites)

    def flt(routes):
        if not only_exact:
            return routes
        return [r for r in routes if r[0].split("[")[0] in ("partial_trace_exact", "local_expectation_exact", "compute_local_expectation_exact")]

    wl = where_list if where_list is not None else where_variants(rng, ref, n_where, max_k=max_k)
    # gauged copy: the state described by (tn_g, gauges) is tn_g with the gauges inserted on every bond
    ref_g = tn_g = gauges = None
    if gauged:
        try:
            gauges = {}
            tn_g = tn.copy()
            tn_g.gauge_all_simple_(max_iterations=5, tol=1e-10, gauges=gauges)
            full = tn_g.copy()
            full.gauge_simple_insert(gauges)
            ref_g = Ref(full)
            ref_g.tn = tn_g
            if any(float(np.min(np.abs(g))) < 1e-6 * float(np.max(np.abs(g))) for g in gauges.values()) or abs(ref_g.n2) < 1e-12:
                # (near) rank-deficient bond: inserting / inverting the gauges is ill-conditioned, not a fair test
                ctx.bump("gauged_skipped_illconditioned")
                ref_g = None
        except Exception as e:
            ctx.violation(f"gauge_all_simple:raised:{type(e).__name__}", f"gauge_all_simple_ raised {e}", {"state": sdesc})
            ref_g = None
    items, state_norms = [], []
    for where in wl:
        ctx.bump(f"where_len={len(where)}")
        if len(where) >= 2:
            ix = ref.idx(where)
            ctx.bump("where_order:" + ("ascending" if ix == sorted(ix) else "descending" if ix == sorted(ix, reverse=True) else "mixed"))
        rdms, norms, exps_by_op = [], [], []
        G0, _ = rand_op(rng, ref, where)
        if generic and legacy:
            chk.run(flt(generic_rdm_routes(tn, where, nsites, compressed=(kind != "mps"))), where, G0,
                    {"rdms": rdms, "norms": norms, "exps": []}, raise_key=raise_key)
        for k in range(n_ops):
            G, gk = (G0, "full") if k == 0 else rand_op(rng, ref, where)
            ctx.bump("operator:" + gk)
            ex = {"rdms": rdms, "norms": norms, "exps": []}
            if generic and legacy:
                chk.run(flt(generic_exp_routes(tn, G, where, nsites, ref.sites, ring=ring, plain=(kind in ("graph", "ring", "multi")))),
                        where, G, ex, raise_key=raise_key)
            if extra_routes and legacy:
                chk.run(extra_routes(tn, G, where), where, G, ex, raise_key=raise_key)
            if ref_g is not None and k == 0 and generic and legacy:
                chk.run(gauged_routes(tn_g, gauges, G, where, nsites, ref.sites), where, G, None, ref=ref_g, raise_key=raise_key)
            if cube and k == 0:
                chk.run(cube_routes(tn, G, where, nsites, ref.sites, ring=ring), where, G, ex, raise_key=raise_key)
                if ref_g is not None:
                    chk.run(cube_routes(tn_g, G, where, nsites, ref.sites, gauges=gauges, ring=ring), where, G, None,
                            ref=ref_g, raise_key=raise_key)
            exps_by_op.append((G, ex["exps"]))
        state_norms += norms
        if rdms or any(v for _, v in exps_by_op):
            items.append((where, {"rdms": rdms, "norms": [], "exps_by_op": exps_by_op}))
    if (items or state_norms) and int(np.prod(ref.dims)) <= 2500 and coq_budget > 0:
        pre = coq_cost(ref) > coq_budget
        n_vals = len(state_norms) + sum(len(ex["rdms"]) + sum(len(v) for _, v in ex["exps_by_op"]) for _, ex in items)
        cases.add({"state": sdesc, "wheres": [[str(s) for s in w] for w, _ in items], "n_values": n_vals,
                   "ref": ref, "items": items, "norms": state_norms, "pre": pre, "scale_exp": scale_exp},
                  coq_state_case(ref, state_norms, items, predensified=pre, scale_exp=scale_exp))
        if scale_exp is not None:
            ctx.bump("coq_state:scaled_by_exponent")
        ctx.bump("coq_values", n_vals)
        ctx.bump("coq_site_tuples", len(items))
        ctx.bump("coq_state:" + ("predensified" if pre else "network"))
    else:
        ctx.bump("coq_state_skipped")


def mps_extra(p, G, where):
    R = mps_routes(p, G, where)
    ix = list(where)
    if ix == sorted(ix):
        R.append(("mps.partial_trace_to_mpo", "rdm_u", lambda: p.partial_trace_to_mpo(list(where)).to_dense()))
    return R


def stage_states(ctx, cases):
    rng = ctx.rng
    # random graphs (generic routes)
    for n in range(ctx.n(7, 30)):
        tn, edges = gen_graph(rng, n=rng.randint(3, ctx.n(6, 7)))
        run_state(ctx, cases, "graph", tn, f"graph_{n}", n_where=ctx.n(2, 3))
    # rings: simple-loop expansion spanning the ring is exact
    for n in range(ctx.n(3, 10)):
        tn, edges = gen_graph(rng, n=rng.randint(3, 6), ring=True)
        run_state(ctx, cases, "ring", tn, f"ring_{n}", ring=True, n_where=ctx.n(2, 3), max_k=2)
    # several tensors per site; hyper bonds (exact routes only: the only ones documented for hyper indices)
    for n in range(ctx.n(2, 8)):
        run_state(ctx, cases, "multi", gen_multi(rng), f"multi_{n}", n_where=2)
    for n in range(ctx.n(2, 8)):
        run_state(ctx, cases, "hyper", gen_hyper(rng), f"hyper_{n}", n_where=2, only_exact=True, gauged=False)
    # MPS: generic + canonical + environment routes
    def mps_key(name, e):
        if isinstance(e, AttributeError) and "renamed" in str(e):
            # the generic (compressed-contraction) local_expectation calls self.partial_trace, which
            # MatrixProductState replaces by a stub that only raises
            return "tn1d.local_expectation:partial_trace_stub_shadows_generic:AttributeError"
        return None

    for n in range(ctx.n(7, 30)):
        p = gen_mps(rng)
        run_state(ctx, cases, "mps", p, f"mps_{n}", extra_routes=mps_extra, n_where=ctx.n(3, 4), raise_key=mps_key)
    # PEPS: generic + boundary contraction / plaquette environments
    def peps_key(name, e):
        if isinstance(e, KeyError) and name.startswith("peps.compute_local_expectation"):
            return "tn2d.compute_local_expectation:pair_not_ascending:KeyError"
        return None

    shapes = [(2, 2), (2, 3), (3, 2)] if ctx.quick else [(2, 2), (2, 3), (3, 2), (2, 2), (2, 3), (3, 2), (3, 3)]
    for n, (Lx, Ly) in enumerate(shapes):
        phys = 3 if (Lx * Ly == 4 and n % 2 == 0) else 2
        p = gen_peps(rng, Lx, Ly, phys=phys)
        sites = list(p.sites)
        wl = []
        a, b = rng.sample(sites, 2)
        wl += [tuple(sorted((a, b))), tuple(sorted((a, b), reverse=True)), (rng.choice(sites),)]
        for _ in range(ctx.n(1, 3)):
            wl.append(tuple(sorted(rng.sample(sites, 2))))
        wl = list(dict.fromkeys(wl))
        run_state(ctx, cases, f"peps{Lx}x{Ly}", p, f"peps_{n}", extra_routes=peps_routes, where_list=wl,
                  raise_key=peps_key, generic=(Lx * Ly <= 6), gauged=(Lx * Ly <= 6), n_ops=2)


def stage_option_cube(ctx, cases):
    """EVERY normalisation mode x backend x combine x gauges of the cluster / loop-expansion APIs, and every legacy
    route, on states whose scale is held in the tensors, in a positive / negative `exponent`, or in both.
    Reference: plain numpy on the dense state (10**exponent x einsum of the dumped tensors) - a test, not a theorem;
    the exactly representable unnormalised results (integer tensors, integer exponent) also go to Coq
    (check_state_scaled: (10^k)^2 x the model's value on the tensors, justified by C13_scaled_state_*)."""
    rng = ctx.rng

    def peps_key(name, e):
        if isinstance(e, KeyError) and name.startswith("peps.compute_local_expectation"):
            return "tn2d.compute_local_expectation:pair_not_ascending:KeyError"
        return None

    fams = []
    for n in range(ctx.n(1, 4)):
        fams.append(("graph", gen_graph(rng, n=rng.randint(4, 5))[0], {}))
    for n in range(ctx.n(1, 3)):
        fams.append(("ring", gen_graph(rng, n=rng.randint(3, 5), ring=True)[0], dict(ring=True, max_k=2)))
    for n in range(ctx.n(1, 3)):
        fams.append(("mps", gen_mps(rng, L=rng.randint(3, 5)), dict(extra_routes=mps_extra)))
    for n, (Lx, Ly) in enumerate([(2, 2)] if ctx.quick else [(2, 2), (2, 3), (3, 2)]):
        fams.append((f"peps{Lx}x{Ly}", gen_peps(rng, Lx, Ly), dict(extra_routes=peps_routes, raise_key=peps_key)))
    for n, (kind, tn, kw) in enumerate(fams):
        sid = f"cube_{kind}_{n}"
        sites = list(tn.sites)
        a, b = rng.sample(sites, 2)
        wl = [(a, b), (rng.choice(sites),)]  # one pair in random order, one single site
        for label, net, k in scale_variants(rng, tn, ctx.quick, sid):
            ctx.bump("scale:" + label)
            run_state(ctx, cases, kind, net, f"{sid}_{label}", where_list=wl, n_ops=1, cube=True,
                      legacy=(label != "tensors"),  # the legacy routes on exponent-free states are stage_states
                      scale_exp=k, **kw,
                      # what these cases add is the option / exponent bookkeeping, not the network evaluator: in the
                      # quick tier the state goes to Coq as one dense tensor; float-scaled variants are oracle only
                      coq_budget=ctx.n(1, 60000) if (label in ("tensors", "exponent_int")) else 0)
            if k is not None:
                observe_global_register(ctx, net, wl[0], k)


def observe_global_register(ctx, tn, where, k):
    """normalized="global": the network handed to the per-term contractions must have an empty exponent register
    (C13/Options.v global_prepare = distribute o smul; theorem C13_global_normalisation_distributes_exponent).
    Observed by rebinding the module global _compute_expecs_maybe_in_parallel for one call."""
    import quimb.tensor.tnag.core as core

    seen = []
    orig = core._compute_expecs_maybe_in_parallel

    def spy(**kw):
        seen.append(float(kw["tn"].exponent))
        return orig(**kw)

    G = np.eye(int(np.prod([tn.ind_size(tn.site_ind(s)) for s in where])), dtype=complex)
    core._compute_expecs_maybe_in_parallel = spy
    try:
        tn.compute_local_expectation_gloop_expand({where: G}, gloops=[tuple(tn.sites)], gauges={}, autoreduce=False,
                                                  normalized="global", optimize="greedy")
    except Exception:
        ctx.bump("option_flow:register_not_observed")
        return
    finally:
        core._compute_expecs_maybe_in_parallel = orig
    if len(seen) == 1 and float(seen[0]).is_integer():
        OPT_CASES.setdefault(f"Z.eqb (register_after_global 1 ({int(k)})%Z) ({int(seen[0])})%Z",
                             f"compute_local_expectation_gloop_expand(normalized='global') on a state with exponent={k}: "
                             f"exponent register of the network handed to the per-term contractions = {seen[0]}")
        ctx.bump("option_flow:register_observed")
    else:
        ctx.bump("option_flow:register_not_observed")


def stage_3d(ctx, cases):
    rng = ctx.rng

    def key3(name, e):
        if isinstance(e, NotImplementedError) and "cyclic" in str(e) and name.startswith("peps3d."):
            return "tn3d.partial_trace:cell_env_false_cyclic:NotImplementedError"
        return None

    shapes = [(2, 2, 2)] if ctx.quick else [(2, 2, 2), (2, 2, 3), (3, 2, 2)]
    for n, shp in enumerate(shapes):
        p = gen_peps3d(rng, shp)
        sites = list(p.sites)
        wl = []
        a, b = rng.sample(sites, 2)
        wl += [(a, b), (b, a), (rng.choice(sites),)]
        if not ctx.quick:
            wl += [tuple(rng.sample(sites, 2)) for _ in range(2)]
        run_state(ctx, cases, "peps3d" + "x".join(map(str, shp)), p, f"peps3d_{n}", where_list=list(dict.fromkeys(wl)),
                  extra_routes=lambda tn, G, w: peps3d_routes(tn, G, w, len(sites)), raise_key=key3,
                  generic=False, gauged=False, n_ops=1, coq_budget=0)


def stage_align_apply(ctx, cases):
    """full-chain operators: <psi|A|psi> through align / apply / expec_TN_1D with a non-symmetric integer MPO"""
    import quimb.tensor as qtn
    from quimb.tensor.tn1d.core import expec_TN_1D
    from quimb.tensor.tnag.core import tensor_network_align, tensor_network_apply_op_vec

    rng = ctx.rng
    for n in range(ctx.n(6, 24)):
        L = rng.randint(2, 4)
        p = gen_mps(rng, L=L, phys=2 if L == 4 else rng.choice([2, 3]))
        ref = Ref(p)
        if abs(ref.n2) < 0.5:
            continue
        d = ref.dims[0]
        bonds = [1] + [rng.choice([1, 2]) for _ in range(L - 1)] + [1]
        arrays = []
        for i in range(L):
            shp = [bonds[i], bonds[i + 1], d, d]
            if i == 0:
                shp = shp[1:]
            if i == L - 1:
                shp = [shp[0]] + shp[-2:] if i > 0 else shp
            arrays.append(gauss(rng, shp, -1, 1))
        A = qtn.MatrixProductOperator(arrays, shape="lrud")
        up = [A.upper_ind(i) for i in range(L)]
        lo = [A.lower_ind(i) for i in range(L)]
        D = int(np.prod(ref.dims))
        Ad = np.asarray(tm.np_dense(tm.qtn_tensors(A), up + lo)).reshape(D, D)
        psi = ref.psi.reshape(D)
        want = complex(np.vdot(psi, Ad @ psi))
        sdesc = state_desc("mps+mpo", ref, {"id": f"align_{n}", "mpo": [[list(i), list(np.asarray(a).shape), jsonable(a)] for i, a in tm.qtn_tensors(A)]})
        vals = []
        routes = [
            ("expec_TN_1D", lambda: expec_TN_1D(p.H, A, p)),
            ("tensor_network_align", lambda: (lambda ts: (ts[0] | ts[1] | ts[2]).contract(all, optimize="greedy"))(tensor_network_align(p.H, A, p))),
            ("mpo.apply+overlap", lambda: p.H @ A.apply(p)),
            ("tensor_network_apply_op_vec[lower]", lambda: p.H @ tensor_network_apply_op_vec(A, p, which_A="lower", contract=False)),
            ("mps.expec", lambda: p.H.expec(A, p)),
        ]
        for name, fn in routes:
            ctx.count((sdesc["id"], name), True)
            ctx.bump("route:" + name)
            replay = {"state": sdesc, "route": name}
            try:
                v = complex(np.asarray(fn()).reshape(-1)[0])
            except Exception as e:
                ctx.violation(f"{name.split('[')[0]}:raised:{type(e).__name__}", f"{name} raised {type(e).__name__}: {str(e)[:160]}", replay)
                continue
            if not close(v, want, abs(want)):
                alt = complex(np.vdot(psi, Ad.T @ psi))
                tag = "transposed_operator" if close(v, alt, abs(alt)) else "value"
                ctx.violation(f"{name.split('[')[0]}:expectation:{tag}", f"{name}: got {v}, dense <psi|A|psi> = {want} ({tag})",
                              {**replay, "got": [v.real, v.imag], "want": [want.real, want.imag]})
            else:
                try:
                    vals.append(complex(*tm.to_gauss(v)))
                except tm.NotExact:
                    ctx.bump("inexact_result_oracle_only")
        # the applied state itself: A|psi> (lower label of A meets the ket)
        for name, fn, ref_vec in [
            ("mpo.apply[to_dense]", lambda: A.apply(p).to_dense(), Ad @ psi),
            ("tensor_network_apply_op_vec[upper]", lambda: tensor_network_apply_op_vec(A, p, which_A="upper", contract=False).to_dense(), Ad.T @ psi),
        ]:
            ctx.count((sdesc["id"], name), True)
            ctx.bump("route:" + name)
            try:
                got = np.asarray(fn()).reshape(-1)
            except Exception as e:
                ctx.violation(f"{name.split('[')[0]}:raised:{type(e).__name__}", f"{name} raised {type(e).__name__}: {str(e)[:160]}", {"state": sdesc, "route": name})
                continue
            if not close(got, ref_vec):
                ctx.violation(f"{name.split('[')[0]}:vector", f"{name}: applied state differs from the dense matrix-vector product", {"state": sdesc, "route": name})
        # operator-network trace and partial transpose (label swap on the chosen sites)
        dd = ref.dims
        A4 = Ad.reshape(dd + dd)
        sysa = sorted(rng.sample(range(L), rng.randint(1, L - 1))) if L > 1 else [0]
        perm = list(range(2 * L))
        for i in sysa:
            perm[i], perm[L + i] = perm[L + i], perm[i]
        Apt_ref = np.transpose(A4, perm).reshape(D, D)
        one = sysa[0]
        perm1 = list(range(2 * L))
        perm1[one], perm1[L + one] = perm1[L + one], perm1[one]
        for name, fn, want_arr in [
            ("mpo.trace", lambda: np.asarray(A.trace()).reshape(-1), np.asarray([np.trace(Ad)])),
            ("mpo.partial_transpose", lambda: np.asarray(tm.np_dense(tm.qtn_tensors(A.partial_transpose(sysa)), up + lo)).reshape(-1), Apt_ref.reshape(-1)),
            ("mpo.partial_transpose[bare_site,inplace]", lambda: np.asarray(tm.np_dense(tm.qtn_tensors(A.copy().partial_transpose_(one)), up + lo)).reshape(-1),
             np.transpose(A4, perm1).reshape(-1)),
            ("mpo.partial_transpose[to_dense]", lambda: np.asarray(A.partial_transpose(sysa).to_dense()).reshape(-1), Apt_ref.reshape(-1)),
        ]:
            ctx.count((sdesc["id"], name), True)
            ctx.bump("route:" + name)
            try:
                got = fn()
            except Exception as e:
                ctx.violation(f"{name.split('[')[0]}:raised:{type(e).__name__}", f"{name} raised {type(e).__name__}: {str(e)[:160]}",
                              {"state": sdesc, "route": name, "sysa": sysa})
                continue
            if not close(got, want_arr):
                ctx.violation(f"{name.split('[')[0]}:value", f"{name}: differs from the dense trace / partial transpose (sites {sysa})",
                              {"state": sdesc, "route": name, "sysa": sysa})
        if vals:
            where = tuple(ref.sites)
            exact = {"rdms": [], "norms": [], "exps_by_op": [(Ad, vals)]}
            cases.add({"state": sdesc, "wheres": [[str(s) for s in where]], "n_values": len(vals), "ref": ref,
                       "items": [(where, exact)], "norms": []}, coq_state_case(ref, [], [(where, exact)]))
            ctx.bump("coq_values", len(vals))
            ctx.bump("coq_site_tuples")


def stage_documented_forms(ctx):
    """call forms the docstrings allow (bare single-site keys, default gauges=None): the route must work and agree"""
    rng = ctx.rng
    # MPS: terms : dict[int or tuple[int], array]
    p = gen_mps(rng, L=4, phys=2)
    ref = Ref(p)
    site = 2
    G, _ = rand_op(rng, ref, (site,))
    want = ref.expec(G, (site,)) / ref.n2
    sdesc = state_desc("mps", ref, {"id": "forms_mps"})
    forms = [
        ("tn1d.compute_local_expectation[canonical]:bare_int_key", lambda: p.compute_local_expectation({site: G}, method="canonical")),
        ("tn1d.compute_local_expectation[envs]:bare_int_key", lambda: p.compute_local_expectation({site: G}, method="envs")),
        ("tn1d.local_expectation_canonical:bare_int_where", lambda: p.copy().local_expectation_canonical(G, site)),
        ("tnag.compute_local_expectation_exact:bare_site_key", lambda: p.compute_local_expectation_exact({site: G})),
        ("tnag.compute_local_expectation_cluster:bare_site_key", lambda: p.compute_local_expectation_cluster({site: G}, max_distance=5)),
        ("tnag.partial_trace_exact:bare_site_where", lambda: np.trace(G @ np.asarray(p.partial_trace_exact(site)))),
    ]
    tn, _ = gen_graph(rng, n=4, ring=True, D=2, phys=2)
    refg = Ref(tn)
    w = (1, 3)
    G2, _ = rand_op(rng, refg, w)
    want2 = refg.expec(G2, w) / refg.n2
    sdesc2 = state_desc("ring", refg, {"id": "forms_ring"})
    forms2 = [
        ("tnag.local_expectation_gloop_expand:gauges_None", lambda: tn.local_expectation_gloop_expand(G2, w, gloops=[tuple(refg.sites)], autoreduce=False)),
        ("tnag.local_expectation_sloop_expand:gauges_None", lambda: tn.local_expectation_sloop_expand(G2, w, sloops=4)),
        ("tnag.compute_local_expectation_gloop_expand:gauges_None", lambda: tn.compute_local_expectation_gloop_expand({w: G2}, gloops=[tuple(refg.sites)], autoreduce=False)),
    ]
    for lst, wnt, sd, Gm in [(forms, want, sdesc, G), (forms2, want2, sdesc2, G2)]:
        for name, fn in lst:
            ctx.count(("forms", name), True)
            ctx.bump("route:documented_forms")
            replay = {"state": sd, "call": name, "G": jsonable(Gm)}
            try:
                v = complex(np.asarray(fn()).reshape(-1)[0])
            except Exception as e:
                ctx.violation(f"{name}:{type(e).__name__}", f"{name}: documented call form raised {type(e).__name__}: {str(e)[:160]}", replay)
                continue
            if not close(v, wnt, abs(wnt)):
                ctx.violation(f"{name}:value", f"{name}: got {v}, dense value {wnt}", replay)


def record_consistent(q, info):
    """is info['cur_orthog'] TRUE of the MPS q?  (every site left of the recorded range is a left isometry,
    every site right of it a right isometry).  Returns (ok, detail); records 'calc' / absent are vacuous."""
    co = info.get("cur_orthog", None) if isinstance(info, dict) else None
    if co is None or isinstance(co, str):
        return True, "no record"
    lo, hi = (co, co) if isinstance(co, (int, np.integer)) else (min(co), max(co))
    L = q.L
    for i in range(L):
        if lo <= i <= hi:
            continue
        t = q[i]
        bond = q.bond(i, i + 1) if i < lo else q.bond(i - 1, i)
        rest = [ix for ix in t.inds if ix != bond]
        M = np.asarray(t.to_dense(rest, [bond]))
        if not np.allclose(M.conj().T @ M, np.eye(M.shape[1]), atol=1e-8):
            return False, f"site {i} is not a {'left' if i < lo else 'right'} isometry although cur_orthog={co}"
    return True, "ok"


def stage_repeated_queries(ctx):
    """routes that accept a reusable state argument (info, gauges, plaquette_envs / envs, a reusable optimizer) are
    called two or three times on the same state with the same object (same and different operators / sites,
    normalised and not): EVERY call must equal the dense answer, and after every call the caller's state object and
    its info['cur_orthog'] record must be mutually consistent (the record true of the caller's MPS, the MPS still
    the same vector) and caller-owned dicts that are documented as not modified must be unchanged."""
    rng = ctx.rng

    def cmp_terms(ctx, key, name, res, terms, ref, normalized, replay, call_no):
        bad = False
        for w, G in terms.items():
            wt = (w,) if not isinstance(w, tuple) or (isinstance(w[0], int) and len(ref.sites) and isinstance(ref.sites[0], tuple)) else w
            want = ref.expec(G, wt) / (ref.n2 if normalized else 1.0)
            try:
                v = res[w]
                if isinstance(v, tuple):  # 2D return_all: (numerator, local norm)
                    v = v[0] / v[1] if v[1] is not None else v[0]
                v = complex(np.asarray(v).reshape(-1)[0])
            except Exception as e:
                ctx.violation(f"{key}:repeated:malformed", f"{name} call #{call_no}: malformed result {type(e).__name__}: {e}", replay)
                return True
            if not close(v, want, abs(want)):
                ctx.violation(f"{key}:repeated:value",
                              f"{name}: call #{call_no} with the same reusable argument returned {v} for where={w}, dense value {want} "
                              f"(earlier calls were {'right' if call_no > 1 else 'n/a'})",
                              {**replay, "call": call_no, "where": str(w), "got": [v.real, v.imag], "want": [want.real, want.imag]})
                bad = True
        return bad

    # ---- 1D: info dict (canonical centre record) ---------------------------------------------------------------
    for n in range(ctx.n(4, 16)):
        L = rng.randint(4, 6)
        p = gen_mps(rng, L=L, phys=2)
        ref = Ref(p)
        if abs(ref.n2) < 0.5:
            continue
        sdesc = state_desc("mps", ref, {"id": f"repeat_mps_{n}"})
        psi0 = ref.psi.reshape(-1)

        def mk_terms(k):
            T = {}
            for _ in range(k):
                w = rand_where(rng, ref.sites, k=rng.choice([1, 2, 2]), maxD=4, dims=ref.dims)
                T[w] = rand_op(rng, ref, w)[0]
            return T

        t1, t2 = mk_terms(2), mk_terms(3)
        seq = [(t1, True), (t2, False), (t1, True)] if n % 2 == 0 else [(t1, False), (t1, True), (t2, True)]
        variants = [
            ("tn1d.compute_local_expectation[canonical]", "info={}, inplace=False", lambda q, T, nz, info: q.compute_local_expectation(
                T, method="canonical", normalized=nz, return_all=True, info=info), {}, False),
            ("tn1d.compute_local_expectation[canonical]", "info={'cur_orthog':'calc'}, inplace=False", lambda q, T, nz, info: q.compute_local_expectation(
                T, method="canonical", normalized=nz, return_all=True, info=info), {"cur_orthog": "calc"}, False),
            ("tn1d.compute_local_expectation_canonical", "info={}, inplace=True", lambda q, T, nz, info: q.compute_local_expectation_canonical(
                T, normalized=nz, return_all=True, info=info, inplace=True), {}, True),
            ("tn1d.local_expectation_canonical", "info={}", lambda q, T, nz, info: {w: q.local_expectation_canonical(G, w, normalized=nz, info=info) for w, G in T.items()}, {}, True),
            ("tn1d.partial_trace_to_dense_canonical", "info={}", lambda q, T, nz, info: {w: np.trace(G @ np.asarray(q.partial_trace_to_dense_canonical(w, normalized=nz, info=info)))
                                                                                     for w, G in T.items()}, {}, True),
        ]
        for key, label, fn, info0, inplace in variants:
            q = p.copy()
            info = dict(info0)
            replay = {"state": sdesc, "route": key, "variant": label, "sequence": [[[str(w) for w in T], nz] for T, nz in seq],
                      "ops": [[str(w), jsonable(G)] for T, _ in seq for w, G in T.items()]}
            for call_no, (T, nz) in enumerate(seq, 1):
                ctx.count((sdesc["id"], key, label, call_no), True)
                ctx.bump("route:repeated_queries")
                try:
                    res = fn(q, T, nz, info)
                except Exception as e:
                    ctx.violation(f"{key}:repeated:raised:{type(e).__name__}", f"{key} ({label}) call #{call_no} raised {type(e).__name__}: {str(e)[:160]}", replay)
                    break
                cmp_terms(ctx, key, f"{key} ({label})", res, T, ref, nz, replay, call_no)
                # the record must be true of the CALLER's state, and the caller's state must still be the same vector
                ok, why = record_consistent(q, info)
                if not ok:
                    ctx.violation(f"{key}:repeated:stale_cur_orthog",
                                  f"{key} ({label}): after call #{call_no} the caller's info records cur_orthog={info.get('cur_orthog')} "
                                  f"but that is not true of the caller's MPS ({why})", {**replay, "call": call_no, "info": str(info)})
                now = np.asarray(tm.np_dense(tm.qtn_tensors(q), [q.site_ind(i) for i in range(L)])).reshape(-1)
                if not close(now, psi0, float(np.max(np.abs(psi0)))):
                    ctx.violation(f"{key}:repeated:state_changed", f"{key} ({label}): after call #{call_no} the caller's MPS no longer denotes the same vector",
                                  {**replay, "call": call_no})
                if not inplace and any(not np.array_equal(np.asarray(a.data), np.asarray(b.data)) for a, b in zip(q.tensors, p.tensors)):
                    ctx.violation(f"{key}:repeated:caller_state_mutated", f"{key} ({label}): inplace=False call #{call_no} modified the caller's tensors",
                                  {**replay, "call": call_no})

    # ---- gauges dicts (documented as used, not modified) and a reusable optimizer ---------------------------------
    for n in range(ctx.n(2, 8)):
        tn, _ = gen_graph(rng, n=rng.randint(3, 5), D=2, phys=2)
        gauges = {}
        tn_g = tn.copy()
        tn_g.gauge_all_simple_(max_iterations=5, tol=1e-10, gauges=gauges)
        if any(float(np.min(np.abs(g))) < 1e-6 * float(np.max(np.abs(g))) for g in gauges.values()):
            continue
        full = tn_g.copy()
        full.gauge_simple_insert(gauges)
        ref = Ref(full)
        if abs(ref.n2) < 1e-9:
            continue
        sdesc = state_desc("graph+gauges", ref, {"id": f"repeat_gauges_{n}"})
        g0 = {k: np.array(v, copy=True) for k, v in gauges.items()}
        ns = len(ref.sites)
        gl = [tuple(ref.sites)]
        try:
            import cotengra as ctg

            opt = ctg.ReusableHyperOptimizer(max_repeats=2, methods=["greedy"], progbar=False, parallel=False)
        except Exception:
            opt = "greedy"
        for key, fn in [
            ("tnag.compute_local_expectation_cluster", lambda T, nz: tn_g.compute_local_expectation_cluster(
                T, gauges=gauges, max_distance=ns + 1, normalized=nz, return_all=True, optimize=opt)),
            ("tnag.compute_local_expectation_gloop_expand", lambda T, nz: tn_g.compute_local_expectation_gloop_expand(
                T, gloops=gl, gauges=gauges, autoreduce=False, return_all=True, optimize=opt, info={})),
        ]:
            replay = {"state": sdesc, "route": key}
            for call_no in (1, 2, 3):
                T = {}
                for _ in range(2):
                    w = rand_where(rng, ref.sites, k=rng.choice([1, 2]), maxD=4, dims=ref.dims)
                    T[w] = rand_op(rng, ref, w)[0]
                nz = True if "gloop" in key else (call_no != 2)
                ctx.count((sdesc["id"], key, call_no), True)
                ctx.bump("route:repeated_queries")
                try:
                    res = fn(T, nz)
                except Exception as e:
                    ctx.violation(f"{key}:repeated:raised:{type(e).__name__}", f"{key} call #{call_no} (same gauges dict) raised {type(e).__name__}: {str(e)[:160]}", replay)
                    break
                cmp_terms(ctx, key, key + " (same gauges dict / optimizer)", res, T, ref, nz, replay, call_no)
                if set(gauges) != set(g0) or any(not np.allclose(np.asarray(gauges[k]), g0[k], rtol=1e-12, atol=0) for k in g0):
                    ctx.violation(f"{key}:repeated:gauges_modified", f"{key}: call #{call_no} modified the caller's gauges dict", replay)
                    break

    # ---- 2D: precomputed plaquette environments reused for several term sets ------------------------------------
    from quimb.tensor.tn2d.core import calc_plaquette_sizes

    for n, (Lx, Ly) in enumerate([(2, 2), (2, 3)] if ctx.quick else [(2, 2), (2, 3), (3, 2), (3, 3)]):
        pp = gen_peps(rng, Lx, Ly)
        ref = Ref(pp)
        if abs(ref.n2) < 0.5:
            continue
        sdesc = state_desc(f"peps{Lx}x{Ly}", ref, {"id": f"repeat_peps_{n}"})
        sites = list(ref.sites)

        def peps_terms():
            T = {}
            a, b = sorted(rng.sample(sites, 2))
            T[(a, b)] = rand_op(rng, ref, (a, b))[0]
            c = rng.choice(sites)
            T[c] = rand_op(rng, ref, (c,))[0]
            return T

        allT = [peps_terms() for _ in range(3)]
        keys = [k for T in allT for k in T]
        envs = {}
        norm = pp.make_norm()
        for xb, yb in calc_plaquette_sizes(keys):
            envs.update(norm.compute_plaquette_environments(x_bsz=xb, y_bsz=yb, max_bond=4096, cutoff=0.0))
        nenv = len(envs)
        replay = {"state": sdesc, "route": "tn2d.compute_local_expectation[plaquette_envs]"}
        for call_no, T in enumerate(allT, 1):
            nz = call_no != 2
            ctx.count((sdesc["id"], "plaquette_envs", call_no), True)
            ctx.bump("route:repeated_queries")
            try:
                res = pp.compute_local_expectation(T, normalized=True, return_all=True, plaquette_envs=envs, contract_optimize="greedy")
                if not nz:
                    res = {k: (v[0], None) for k, v in res.items()}
            except Exception as e:
                ctx.violation(f"tn2d.compute_local_expectation:repeated:raised:{type(e).__name__}",
                              f"compute_local_expectation with reused plaquette_envs, call #{call_no}, raised {type(e).__name__}: {str(e)[:160]}", replay)
                break
            Tref = {k: G for k, G in T.items()}

            class _R:  # single-site keys (i, j) are sites themselves
                pass

            bad = False
            for w, G in Tref.items():
                wt = (w,) if isinstance(w[0], int) else w
                want = ref.expec(G, wt) / (ref.n2 if nz else 1.0)
                e, nrm = res[w]
                v = complex(e / nrm) if nrm is not None else complex(e)
                if not close(v, want, abs(want)):
                    ctx.violation("tn2d.compute_local_expectation:repeated:value",
                                  f"compute_local_expectation with reused plaquette_envs: call #{call_no} returned {v} for {w}, dense value {want}",
                                  {**replay, "call": call_no, "where": str(w)})
            if len(envs) != nenv:
                ctx.violation("tn2d.compute_local_expectation:repeated:envs_modified", "the caller's plaquette_envs dict changed size", replay)

    # ---- 3D: shared `envs` cache across calls -------------------------------------------------------------------
    p3 = gen_peps3d(rng, (2, 2, 2))
    ref = Ref(p3)
    if abs(ref.n2) > 0.5:
        sdesc = state_desc("peps3d2x2x2", ref, {"id": "repeat_peps3d"})
        sites = list(ref.sites)
        envs = {}
        replay = {"state": sdesc, "route": "tn3d.compute_local_expectation[envs]"}
        for call_no in (1, 2, 3):
            a, b = rng.sample(sites, 2)
            c = rng.choice(sites)
            T = {(a, b): rand_op(rng, ref, (a, b))[0], c: rand_op(rng, ref, (c,))[0]}
            nz = call_no != 2
            ctx.count((sdesc["id"], "envs", call_no), True)
            ctx.bump("route:repeated_queries")
            try:
                res = p3.compute_local_expectation(T, max_bond=4096, cutoff=0.0, normalized=nz, return_all=True, envs=envs)
            except Exception as e:
                ctx.violation(f"tn3d.compute_local_expectation:repeated:raised:{type(e).__name__}",
                              f"PEPS3D.compute_local_expectation with a shared envs dict, call #{call_no}, raised {type(e).__name__}: {str(e)[:160]}", replay)
                break
            for w, G in T.items():
                wt = (w,) if isinstance(w[0], int) else w
                want = ref.expec(G, wt) / (ref.n2 if nz else 1.0)
                v = complex(np.asarray(res[w]).reshape(-1)[0])
                if not close(v, want, abs(want)):
                    ctx.violation("tn3d.compute_local_expectation:repeated:value",
                                  f"PEPS3D.compute_local_expectation with a shared envs dict: call #{call_no} returned {v} for {w}, dense value {want}",
                                  {**replay, "call": call_no, "where": str(w)})


def stage_info_reuse(ctx):
    """the `info` cache of the loop expansions may be reused "when both the tensor network and gauges remain the
    same": two different operators on the same sites with one shared info dict must both be right"""
    rng = ctx.rng
    for n in range(ctx.n(2, 8)):
        L = rng.randint(3, 5)
        tn, _ = gen_graph(rng, n=L, ring=True, D=2, phys=2)
        ref = Ref(tn)
        if abs(ref.n2) < 0.5:
            continue
        where = tuple(rng.sample(ref.sites, 2))
        G1, _ = rand_op(rng, ref, where)
        G2, _ = rand_op(rng, ref, where)
        sdesc = state_desc("ring", ref, {"id": f"info_{n}"})
        gl = [tuple(ref.sites)]
        calls = [
            ("local_expectation_gloop_expand", lambda G, info: tn.local_expectation_gloop_expand(G, where, gloops=gl, gauges={}, autoreduce=False, info=info, optimize="greedy")),
            ("local_expectation_sloop_expand", lambda G, info: tn.local_expectation_sloop_expand(G, where, sloops=L, info=info, optimize="greedy")),
            ("compute_local_expectation_gloop_expand", lambda G, info: tn.compute_local_expectation_gloop_expand({where: G}, gloops=gl, gauges={}, autoreduce=False, info=info, optimize="greedy")),
            ("compute_local_expectation_sloop_expand", lambda G, info: tn.compute_local_expectation_sloop_expand({where: G}, sloops=L, info=info, optimize="greedy")),
        ]
        for name, fn in calls:
            ctx.count((sdesc["id"], name, "info_reuse"), True)
            ctx.bump("route:info_reuse")
            info = {}
            replay = {"state": sdesc, "where": [str(x) for x in where], "route": name, "G1": jsonable(G1), "G2": jsonable(G2)}
            try:
                v1 = complex(np.asarray(fn(G1, info)).reshape(-1)[0])
                v2 = complex(np.asarray(fn(G2, info)).reshape(-1)[0])
            except Exception as e:
                ctx.violation(f"{name}:info_reuse:raised:{type(e).__name__}", f"{name} with a shared info dict raised {type(e).__name__}: {str(e)[:160]}", replay)
                continue
            w1 = ref.expec(G1, where) / ref.n2
            w2 = ref.expec(G2, where) / ref.n2
            if not close(v1, w1, abs(w1)):
                ctx.violation(f"{name}:expectation:value", f"{name}: got {v1}, dense value {w1}", replay)
            elif not close(v2, w2, abs(w2)):
                tag = "info_cache_ignores_operator" if close(v2, w1, abs(w1)) else "info_reuse_value"
                ctx.violation(f"tnag.{name}:{tag}",
                              f"{name}: second call with the same info dict and a different operator returned {v2} "
                              f"(first operator's value {w1}), dense value {w2}", replay)


def run_coq(ctx, cases, name):
    # option-flow / exponent-register correspondence (C13/Options.v): the model's table must predict the class of
    # result every cube call returned, and the register the "global" branch leaves behind.  All of them travel as ONE
    # extra case of the same batch (a conjunction); only if it fails are they re-run one by one.
    oc = [(i + 1, e) for i, e in enumerate(OPT_CASES)]
    opt_id = len(cases.cases) + 1
    batch = list(cases.cases)
    if oc:
        batch.append((opt_id, "forallb (fun b : bool => b) [" + "; ".join(e for _, e in oc) + "]"))
    failed, errors = ctx.coq_cases(name, HEADER, batch, shard=ctx.n(4, 5), jobs=ctx.n(10, 8))
    for path, err in errors:
        ctx.broken_obligation("correspondence:" + path.split("/")[-1], err)
    if oc:
        ctx.extra["option_flow_cases"] = len(oc)
        if opt_id not in failed:
            ctx.traces += len(oc) - 1  # the batch counted the conjunction as one
        if opt_id in failed:
            failed = [c for c in failed if c != opt_id]
            desc = dict(zip(range(1, len(oc) + 1), OPT_CASES.values()))
            f3, e3 = ctx.coq_cases(name + "_options", HEADER, oc, shard=400, jobs=2)
            for path, err in e3:
                ctx.broken_obligation("correspondence:" + path.split("/")[-1], err)
            for c in f3:
                ctx.broken_obligation(f"correspondence:option_flow:{dict(oc)[c]}", {"observed": desc[c], "model": dict(oc)[c]})
    # localise: re-run the failing states one site tuple at a time
    loc, lookup = [], {}
    for c in failed:
        d = cases.info[c]
        for where, ex in d["items"]:
            cid = len(loc) + 1
            loc.append((cid, coq_case(d["ref"], where, {**ex, "norms": d["norms"]}, predensified=d.get("pre", False),
                                      scale_exp=d.get("scale_exp"))))
            lookup[cid] = (d, where)
    bad = []
    if loc:
        f2, e2 = ctx.coq_cases(name + "_locate", HEADER, loc, shard=1, jobs=12)
        bad = [lookup[c] for c in f2]
    for c in failed:
        d = cases.info[c]
        wh = [[str(s) for s in w] for dd, w in bad if dd is d]
        # every embedded value already agreed with the numpy reference at 1e-8 and was snapped to an exact
        # Gaussian integer, so a mismatch here is between the Coq model and numpy + implementation
        ctx.broken_obligation(f"correspondence:model_vs_impl:{d['state'].get('id')}:{wh}",
                              {"failing_site_tuples": wh, "state": d["state"], "n_values": d["n_values"]})
    ctx.extra["coq_cases"] = ctx.extra.get("coq_cases", 0) + len(cases.cases)
    # a passing state case validates every one of its site tuples: count those as the validated traces
    ok = [cid for cid, _ in cases.cases if cid not in set(failed)]
    ctx.traces += sum(max(1, len(cases.info[c]["items"])) for c in ok) - len(ok)
    ctx.extra["coq_units"] = "one Coq case per state; traces_validated_against_impl counts (state, site tuple) pairs of passing cases"


def correspondence_and_oracle(ctx):
    cases = Cases()
    ctx.stage(lambda c: stage_states(c, cases))
    ctx.stage(lambda c: stage_align_apply(c, cases))
    ctx.stage(lambda c: stage_3d(c, cases))
    ctx.stage(lambda c: stage_option_cube(c, cases))
    ctx.stage(stage_documented_forms)
    ctx.stage(stage_info_reuse)
    ctx.stage(stage_repeated_queries)
    import time as _t
    _t0 = _t.time()
    run_coq(ctx, cases, "c13")
    ctx.extra["coq_cases_wall_s"] = round(_t.time() - _t0, 1)
    ctx.extra["routes_exercised"] = sorted(ROUTES)
    ctx.extra["slowest_routes_s"] = {k: round(v, 1) for k, v in sorted(TIMES.items(), key=lambda kv: -kv[1])[:12]}


def run(ctx):
    import warnings

    warnings.filterwarnings("ignore")
    ctx.extra["rule"] = RULE
    ctx.trusted_base += [
        "hand model coq/C13/Model.v: rho / expec / sandwich over any ring with involution and their Z[i] instance on the "
        "dense state (Base/TNExec.dense of the implementation's dumped state tensors); tie = vm_compute comparison with the "
        "implementation's unnormalised reduced density matrices, norms and expectation values (exact Gaussian integers; "
        "float results of QR/SVD-based routes are snapped to the nearest Gaussian integer when within 1e-7 relative, "
        "otherwise they stay in the oracle stream)",
        "modelled, not verified: the Python control flow of each route (cluster selection, plaquette environments, boundary "
        "contraction, canonicalisation, loop-expansion bookkeeping), cotengra, LAPACK; these are covered per route x option "
        "by the correspondence and by the numpy oracle (tolerance 1e-8, a test), not by a theorem",
    ]
    ctx.trusted_base += [
        "hand model coq/C13/Options.v (option flow of partial_trace_exact / partial_trace / local_expectation_cluster / "
        "_combine_expansion_expectations / compute_local_expectation_gloop_expand, and the tensors-vs-exponent scale "
        "bookkeeping of multiply / distribute_exponent / select without with_exponent); tie = class of result of every "
        "option-cube call (decided against the dense reference at 1e-8), exponent register observed by rebinding the module "
        "global _compute_expecs_maybe_in_parallel, exact unnormalised values on integer-exponent states",
    ]
    ctx.assumptions += [
        "loop / cluster expansions are only claimed when the cluster spans the whole network (autoreduce=False or a ring for "
        "simple loops); boundary contraction with max_bond=4096, cutoff=0 is untruncating on the sizes used",
        "routes taking simple-update gauges describe the state obtained by inserting the gauges on every bond; that state is "
        "the reference for those routes",
        "TensorNetwork.exponent is part of the state (as in to_dense / norm / the exact routes): the dense reference of a "
        "state is 10**exponent x the einsum of its tensors",
    ]
    mods = ["Base/Sums.vo", "Base/TN.vo", "Base/TNExec.vo", "C13/Model.vo", "C13/Proofs.vo"]
    import os
    from harness.common import COQ

    if os.path.exists(os.path.join(COQ, "C13", "Network.v")):
        mods.append("C13/Network.vo")
    mods.append("C13/Options.vo")
    ctx.check_props(mods + ["C13/Props.v"])
    correspondence_and_oracle(ctx)


def replay(ctx, path):
    run(ctx)

"""C07 - caches keyed by the identity (id()) of a Python object: the cache-key / liveness discipline.

A key must determine the cached value for as long as the entry lives.  id(x) is the address of x and identifies x
only while x is alive, so an id()-keyed entry must keep its key object alive (store it), otherwise CPython hands the
address to a later object and the lookup hits the entry of a dead one.

(a) scan(): syntactic inventory of every id() call in quimb/tensor/circuit/*.py.  Recognised uses: a dict entry
    `self.X[id(G)] = value` (value must contain G itself) and an attribute `obj.a = f"..{id(U)}.."` (the same object
    must store U in another attribute).  Anything else is reported unrecognised (fail closed).  Regenerated into
    coq/C07/IdCacheSites.v; Props.v states that every site stores its key object.
(b) event programs on real simulators (coq/C07/IdCacheModel.v is the model; coq/C07/IdCache.v the theorems): fresh
    gate arrays, short-lived copies, rejected gates, dropped references - with an ADVERSARIAL allocation strategy that
    prefers the address of a dead array.  Observed exactly: every call of CircuitBase._maybe_convert_gate_array (hit /
    miss, which array's conversion came back), the dict's (key, pins-its-key-object) listing, which arrays are alive
    (weak references).  Compared in Coq with the model run on the same events (ctx.coq_cases).
(c) direct oracles on the same programs: the conversion returned must be the conversion of the array handed in
    (exact, call-site level); the state of every simulator vs a dense numpy reference (a test, tolerance 1e-9, 2e-4
    when the simulator converts to complex64); every entry of an id()-keyed dict must pin its key object.
"""

import ast
import gc
import os
import weakref

import numpy as np

from harness.common import blit, natlist, natlit, zlit

# =====================================================================================================================
# (a) static inventory
# =====================================================================================================================


def _is_id_call(n):
    return isinstance(n, ast.Call) and isinstance(n.func, ast.Name) and n.func.id == "id" and len(n.args) == 1 and not n.keywords


def _contains(node, target_dump):
    """does `node` hold the expression `target` itself (directly, or as an element of a tuple / list / dict value)"""
    if ast.dump(node) == target_dump:
        return True
    if isinstance(node, (ast.Tuple, ast.List)):
        return any(_contains(e, target_dump) for e in node.elts)
    if isinstance(node, ast.Dict):
        return any(_contains(e, target_dump) for e in node.values)
    return False


def _scan_function(fn, owner, fname, sites):
    parents = {}
    for p in ast.walk(fn):
        for c in ast.iter_child_nodes(p):
            parents[c] = p
    assigns = [n for n in ast.walk(fn) if isinstance(n, ast.Assign)]
    for call in [n for n in ast.walk(fn) if _is_id_call(n)]:
        arg = call.args[0]
        arg_dump, arg_src = ast.dump(arg), ast.unparse(arg)
        where = f"{fname}:{owner}.{fn.name}"
        par = parents.get(call)
        # key = id(G)  ->  the names that carry the key
        key_dumps = {ast.dump(call)}
        if isinstance(par, ast.Assign) and par.value is call:
            for t in par.targets:
                if isinstance(t, ast.Name):
                    key_dumps.add(ast.dump(ast.Name(id=t.id, ctx=ast.Load())))
        found = False
        # (1) dict entries  T[key] = value
        for a in assigns:
            for t in a.targets:
                if isinstance(t, ast.Subscript):
                    kd = ast.dump(t.slice)
                    if kd in key_dumps:
                        sites.append({"site": f"{where}:{ast.unparse(t.value)}", "kind": "dict_key", "object": arg_src,
                                      "container": ast.unparse(t.value), "pins": _contains(a.value, arg_dump),
                                      "value": ast.unparse(a.value), "line": a.lineno})
                        found = True
        # (2) attribute derived from the id:  obj.attr = f"...{id(U)}..."  - the same object must store U
        node = call
        while node in parents and not isinstance(parents[node], (ast.Assign, ast.FunctionDef, ast.AsyncFunctionDef)):
            node = parents[node]
        top = parents.get(node)
        if not found and isinstance(top, ast.Assign) and top.value is node and not (isinstance(par, ast.Assign) and par.value is call):
            for t in top.targets:
                if isinstance(t, ast.Attribute) and isinstance(t.value, ast.Name):
                    carrier = t.value.id
                    stores = any(isinstance(t2, ast.Attribute) and isinstance(t2.value, ast.Name) and t2.value.id == carrier
                                 and ast.dump(a2.value) == arg_dump for a2 in assigns for t2 in a2.targets)
                    sites.append({"site": f"{where}:{ast.unparse(t)}", "kind": "attribute", "object": arg_src,
                                  "container": carrier, "pins": stores, "value": ast.unparse(top.value), "line": top.lineno})
                    found = True
        if not found:
            # a key that is only looked up here (stored elsewhere), or any other use: not recognised
            uses = [n for n in ast.walk(fn) if isinstance(n, (ast.Subscript, ast.Compare)) and any(
                ast.dump(x) in key_dumps for x in ast.walk(n) if isinstance(x, (ast.Name, ast.Call)))]
            sites.append({"site": f"{where}:id({arg_src})", "kind": "unrecognised", "object": arg_src, "container": "?",
                          "pins": False, "value": ast.unparse(par) if par is not None else "", "line": call.lineno,
                          "lookups": len(uses)})


def scan(repo):
    """-> (sites, extra) for quimb/tensor/circuit/*.py"""
    root = os.path.join(repo, "quimb", "tensor", "circuit")
    sites, lru, shared = [], [], []
    for fname in sorted(os.listdir(root)):
        if not fname.endswith(".py"):
            continue
        with open(os.path.join(root, fname)) as f:
            tree = ast.parse(f.read())
        for node in tree.body:
            if isinstance(node, ast.ClassDef):
                for m in node.body:
                    if isinstance(m, (ast.FunctionDef, ast.AsyncFunctionDef)):
                        _scan_function(m, node.name, fname, sites)
                        # dicts handed on by reference to the copy:  new.X = self.X
                        if m.name == "copy":
                            for a in ast.walk(m):
                                if isinstance(a, ast.Assign) and isinstance(a.value, ast.Attribute) and isinstance(a.value.value, ast.Name) \
                                        and a.value.value.id == "self" and a.value.attr.endswith("cache"):
                                    shared.append(f"{fname}:{node.name}.copy:{a.value.attr}")
            elif isinstance(node, (ast.FunctionDef, ast.AsyncFunctionDef)):
                _scan_function(node, "<module>", fname, sites)
                for d in node.decorator_list:
                    if "lru_cache" in ast.unparse(d) or ast.unparse(d).endswith("functools.cache"):
                        lru.append(f"{fname}:{node.name}")
    return sites, {"lru_cached_functions(keys held strongly by functools)": lru, "dicts_shared_with_copies": shared}


def emit_coq(sites):
    rows = ";\n".join(f'  ("{s["site"]}", "{s["kind"]}", {blit(s["pins"])})' for s in sites)
    return (
        "(* GENERATED by harness/c07_idcache.py from quimb/tensor/circuit/*.py on every run - do not edit.\n"
        "   Every use of id() in the circuit modules: (site, kind, does the carrier of the id also store the object). *)\n"
        "From Coq Require Import List String Bool.\nImport ListNotations.\nOpen Scope string_scope.\n\n"
        "Definition idkey_sites : list (string * string * bool) := [\n" + rows + "\n].\n"
        "Definition site_pins (s : string * string * bool) : bool := snd s.\n"
    )


# =====================================================================================================================
# (b), (c) event programs
# =====================================================================================================================

CLASSES = ("Circuit", "CircuitMPS", "CircuitPermMPS", "CircuitMPSLazy", "CircuitPEPSSimpleUpdate")
# conversions of the gate arrays: which produce a NEW array (the entry then has to store the original separately)
CONVS = {
    "dtype=complex64": {"new": True, "c64": True},
    "to_backend=copy": {"new": True, "c64": False},
    "dtype=complex64,to_backend=copy": {"new": True, "c64": True},
    "to_backend=view": {"new": True, "c64": False},     # a view keeps its base alive
    "to_backend=asarray": {"new": False, "c64": False},  # the same object comes back
    "dtype=complex128": {"new": False, "c64": False},    # already complex128: the same object comes back
    "none": {"new": False, "c64": False},
}


def conv_opts(conv):
    o = {}
    if "complex64" in conv:
        o["dtype"] = "complex64"
    if "complex128" in conv:
        o["dtype"] = "complex128"
    if "to_backend=copy" in conv:
        o["to_backend"] = _tb_copy
    if "to_backend=view" in conv:
        o["to_backend"] = _tb_view
    if "to_backend=asarray" in conv:
        o["to_backend"] = np.asarray
    return o


def _tb_copy(x):
    return np.array(x) if isinstance(x, np.ndarray) else x


def _tb_view(x):
    return x.view() if isinstance(x, np.ndarray) else x


def make_sim(cls, conv, N):
    import quimb.tensor as qtn

    o = conv_opts(conv)
    if cls == "Circuit":
        return qtn.Circuit(N, convert_eager=True, **o)
    if cls == "CircuitDense":
        return qtn.CircuitDense(N, **o)
    if cls == "CircuitMPS":
        return qtn.CircuitMPS(N, cutoff=0.0, **o)
    if cls == "CircuitPermMPS":
        return qtn.CircuitPermMPS(N, cutoff=0.0, **o)
    if cls == "CircuitMPSLazy":
        return qtn.CircuitMPSLazy(N, cutoff=0.0, **o)
    if cls == "CircuitPEPSSimpleUpdate":
        return qtn.CircuitPEPSSimpleUpdate(N, edges=[(i, i + 1) for i in range(N - 1)], **o)
    raise ValueError(cls)


def reject_opts(cls, nq):
    """gate options that make the simulator raise AFTER the gate array was converted (None: no such option known)"""
    if cls == "CircuitPEPSSimpleUpdate":
        return {"bogus_option": 1} if nq == 2 else None
    if cls == "CircuitMPSLazy" and nq == 2:
        return None
    return {"contract": "no-such-contract-option"}


CONST_1Q = ["H", "T", "S", "X", "Y"]
CONST_2Q = ["CX", "CZ", "ISWAP"]


def gen_program(rng, cls, N, length):
    """-> list of JSON-able operations"""
    prog = []
    live, ncirc, held, ntag = [0], 1, [], [0]

    def qubits(nq):
        if nq == 1:
            return [rng.randrange(N)]
        if cls == "CircuitPEPSSimpleUpdate" or rng.random() < 0.6:
            a = rng.randrange(N - 1)
            return [a, a + 1] if rng.random() < 0.5 else [a + 1, a]
        return rng.sample(range(N), 2)

    def new(nq=None):
        nq = nq or rng.choice([1, 2, 2])
        ntag[0] += 1
        t = ntag[0]
        prog.append({"op": "new", "name": t, "nq": nq, "seed": rng.randrange(1 << 30)})
        return t, nq

    def apply(c, t, nq, reject=False):
        prog.append({"op": "apply", "c": c, "name": t, "qubits": qubits(nq), "how": rng.choice(["raw", "gate", "rawtuple"]),
                     "reject": bool(reject and reject_opts(cls, nq) is not None)})

    # warm up the first simulator
    for q in range(N):
        prog.append({"op": "param", "c": 0, "label": "U3", "params": [rng.randint(3, 22) / 8.0 for _ in range(3)], "qubits": [q], "reject": False})
    prog.append({"op": "const", "c": 0, "label": "CX", "qubits": [0, 1]})
    for _ in range(length):
        r = rng.random()
        c = rng.choice(live)
        if r < 0.34:
            # a short-lived copy with a freshly allocated gate array
            k = ncirc
            ncirc += 1
            if rng.random() < 0.75:
                # (the array first: a copy made in between would occupy the addresses that have just been freed)
                t, nq = new()
                prog.append({"op": "copy", "c": c})
            else:
                prog.append({"op": "copy", "c": c})
                t, nq = new()
            apply(k, t, nq)
            prog.append({"op": "check", "c": k})
            if rng.random() < 0.85:
                prog.append({"op": "drop", "c": k})
            else:
                live.append(k)
            if rng.random() < 0.9:
                prog.append({"op": "dropuser", "name": t})
            else:
                held.append((t, nq))
        elif r < 0.48:
            # a fresh array whose gate is rejected after the conversion, then forgotten
            t, nq = new()
            apply(c, t, nq, reject=True)
            if rng.random() < 0.9:
                prog.append({"op": "dropuser", "name": t})
            else:
                held.append((t, nq))
        elif r < 0.60:
            t, nq = new()
            apply(c, t, nq)
            if rng.random() < 0.7:
                prog.append({"op": "dropuser", "name": t})
            else:
                held.append((t, nq))
        elif r < 0.68:
            nq = rng.choice([1, 2])
            prog.append({"op": "const", "c": c, "label": rng.choice(CONST_1Q if nq == 1 else CONST_2Q), "qubits": qubits(nq)})
        elif r < 0.78:
            lab = rng.choice(["RX", "RY", "RZ", "U3", "RZZ", "FSIM"])
            npar = {"U3": 3, "FSIM": 2}.get(lab, 1)
            nq = 2 if lab in ("RZZ", "FSIM") else 1
            prog.append({"op": "param", "c": c, "label": lab, "params": [rng.randint(-25, 25) / 8.0 for _ in range(npar)], "qubits": qubits(nq),
                         "reject": rng.random() < 0.3 and reject_opts(cls, nq) is not None})
        elif r < 0.86 and held:
            t, nq = rng.choice(held)  # an array the caller still holds: a hit is expected
            apply(c, t, nq, reject=rng.random() < 0.2)
        elif r < 0.92:
            if len(live) > 1 and rng.random() < 0.5:
                live.remove(c)
                prog.append({"op": "drop", "c": c})
            else:
                prog.append({"op": "copy", "c": c})
                live.append(ncirc)
                ncirc += 1
        else:
            prog.append({"op": "check", "c": c})
    for c in live:
        prog.append({"op": "check", "c": c})
    if rng.random() < 0.3:
        # the whole family goes away: the dict and everything it pins with it
        for c in live:
            prog.append({"op": "drop", "c": c})
        t, nq = new()
    return prog


def pins_key(key, value):
    """does the entry `value` hold (directly, in a tuple / list / dict, or through a view's .base chain) the object whose id is `key`"""
    stack, seen = [value], set()
    while stack:
        x = stack.pop()
        if id(x) in seen:
            continue
        seen.add(id(x))
        if id(x) == key:
            return True
        if isinstance(x, (tuple, list)):
            stack.extend(x)
        elif isinstance(x, dict):
            stack.extend(x.values())
        else:
            b = getattr(x, "base", None)
            if b is not None:
                stack.append(b)
    return False


class ObsDict(dict):
    """a plain dict that can be weakly referenced (the harness must not keep the cache alive itself)"""

    __slots__ = ("__weakref__",)


def _embed_apply(psi, U, qubits, N):
    k = len(qubits)
    T = np.asarray(U, dtype=complex).reshape([2] * (2 * k))
    out = np.tensordot(T, psi.reshape([2] * N), axes=(list(range(k, 2 * k)), list(qubits)))
    rest = [q for q in range(N) if q not in qubits]
    perm = [0] * N
    for a, q in enumerate(qubits):
        perm[q] = a
    for a, q in enumerate(rest):
        perm[q] = k + a
    return out.transpose(perm).reshape(-1)


SPY = []

# Coq text of one case: `icheck iinit <trace>` with the monomorphic constructors below (cons lists: the nested list
# notation is slow to parse)
COQ_HEADER = (
    "Definition IE (e : iev) (so : option (list (nat * bool) * list nat)) (oo : option (bool * Z)) : iev * iobs := (e, (so, oo)).\n"
    "Definition INS : option (list (nat * bool) * list nat) := None.\n"
    "Definition INO : option (bool * Z) := None.\n"
    "Definition ISS (kl : list (nat * bool)) (live : list nat) : option (list (nat * bool) * list nat) := Some (kl, live).\n"
    "Definition ISO (h : bool) (t : Z) : option (bool * Z) := Some (h, t).\n"
    "Definition IP (k : nat) (b : bool) : nat * bool := (k, b).\n"
)


def clist(xs):
    xs = list(xs)
    return "(" + " :: ".join(xs + ["nil"]) + ")" if xs else "nil"


def case_expr(trace):
    return "icheck iinit " + clist(trace)


def install_spy():
    from quimb.tensor.circuit.core import CircuitBase

    real = CircuitBase._maybe_convert_gate_array

    def spy(self, G):
        d = getattr(self, "_backend_gate_cache", None)
        hit = isinstance(d, dict) and dict.__contains__(d, id(G))
        R = real(self, G)
        try:
            wr = weakref.ref(G)
        except TypeError:
            wr = None
        try:
            M = np.array(np.asarray(G), dtype=complex)
        except Exception:
            M = None
        SPY.append({"sim": id(self), "gid": id(G), "wr": wr, "hit": bool(hit), "R": R, "M": M,
                    "eager": bool(getattr(self, "convert_eager", False))})
        return R

    CircuitBase._maybe_convert_gate_array = spy
    return real


def remove_spy(real):
    from quimb.tensor.circuit.core import CircuitBase

    CircuitBase._maybe_convert_gate_array = real
    SPY.clear()


def run_program(ctx, cls, conv, N, prog, ncand=32):
    """Execute the event program.  Returns (trace, info) where trace = [(coq event, coq observation)], or None when the
    program could not be observed.  Raises ctx.violation for the direct oracles.  The spy must be installed."""
    import quimb as qu
    from quimb.tensor.circuit import gates as G

    c64 = CONVS[conv]["c64"]
    tol = 2e-4 if c64 else 1e-9
    rep = {"stream": "idcache", "class": cls, "conv": conv, "N": N, "program": prog}

    def expected_conv(M):
        return M.astype("complex64") if c64 else M

    sims = [make_sim(cls, conv, N)]
    cache = ObsDict()
    sims[0]._backend_gate_cache = cache
    cache_wr = weakref.ref(cache)
    del cache
    psi0 = np.zeros(2**N, dtype=complex)
    psi0[0] = 1.0
    refs = [psi0]
    names = {}          # content tag -> array the caller holds
    pool = {}           # content tag -> matrix (private copy, complex128, in the shape handed to the simulator)
    canon = {}          # real id -> small address
    at_addr = {}        # small address -> (weakref of the object living there, content tag)
    dead_real_ids = set()
    trace, descr = [], []
    state = {"violated": False, "recycled": 0, "stale_alloc": 0}

    def addr_of(real_id):
        return canon.setdefault(real_id, len(canon))

    def poll_deaths():
        evs = []
        for a, (wr, _t) in list(at_addr.items()):
            if wr() is None:
                del at_addr[a]
                evs.append(f"IGc {natlit(a)}")
                for rid, aa in canon.items():
                    if aa == a:
                        dead_real_ids.add(rid)
        return evs

    reserved = []   # fresh arrays that the allocator placed at the address of a dead program array
    pending = []    # deaths already noticed, not yet reported as events

    def reserve():
        """ADVERSARIAL ALLOCATOR: directly after references were dropped, allocate fresh arrays of both gate shapes and
        keep those that received the address of an array that has just died; a later `new` writes its contents into
        one of them (a freshly allocated array the library has never seen)"""
        fresh = [np.empty(sh, dtype=complex) for _ in range(ncand) for sh in ((2, 2), (4, 4))]
        pending.extend(poll_deaths())
        reserved.extend(x for x in fresh if id(x) in dead_real_ids and len(reserved) < 64)

    def register(obj, tag):
        """a new program array: returns the events (deaths noticed first, then the allocation)"""
        evs = pending + poll_deaths()
        pending.clear()
        rid = id(obj)
        if rid in dead_real_ids:
            state["recycled"] += 1
            dead_real_ids.discard(rid)
        a = addr_of(rid)
        at_addr[a] = (weakref.ref(obj), tag)
        evs.append(f"IAlloc {natlit(a)} {zlit(tag)}")
        return evs, a

    def observe_state():
        d = cache_wr()
        listing = []
        if d is not None:
            for k, v in dict.items(d):
                if not isinstance(k, int):
                    raise KeyError(f"unknown key format {k!r}")
                listing.append((addr_of(k), pins_key(k, v)))
        live = sorted(at_addr)
        return "(ISS " + clist(f"(IP {natlit(k)} {blit(p)})" for k, p in listing) + " " + clist(natlit(x) for x in live) + ")", listing

    def tag_of_array(R, prefer=None):
        """content tag of the array whose conversion R is (the expected one first: two arrays may have equal contents)"""
        R = np.asarray(R)
        order = ([prefer] if prefer in pool else []) + [t for t in pool if t != prefer]
        for t in order:
            M = pool[t]
            E = expected_conv(M)
            if R.shape == E.shape and R.dtype == E.dtype and np.array_equal(R, E):
                return t
        return -1

    def viol(key, what, upto):
        state["violated"] = True
        ctx.violation(key, what, {**rep, "program": prog[: upto + 1]})

    def structural(upto):
        d = cache_wr()
        if d is None:
            return
        for k, v in dict.items(d):
            if isinstance(k, int) and not pins_key(k, v):
                alive = any(canon.get(k) == a for a in at_addr)
                fate = "alive" if alive else "DEAD: the next array allocated at this address hits this entry"
                viol(f"CircuitBase._backend_gate_cache:{conv}:entry_does_not_pin_its_key_object",
                     f"{cls}({conv}): the entry of _backend_gate_cache keyed by id(G) = {k} (dict shared by reference with every copy) "
                     f"does not hold G itself - value {type(v).__name__}; key object currently {fate}", upto)
                return

    for i, op in enumerate(prog):
        kind = op["op"]
        events = []      # [(event, apply-output or None)]
        SPY.clear()
        try:
            if kind == "new":
                M = np.asarray(qu.rand_uni(2 ** op["nq"], seed=op["seed"], dtype=complex))
                pool[op["name"]] = np.array(M)
                # adversarial allocation: among `ncand` fresh copies prefer one that lives at the address of a dead
                # program array - first of all an address that is still a key of the dict
                d = cache_wr()
                stale = {k for k in (dict.keys(d) if d is not None else ()) if k in dead_real_ids}
                cands, pick = [], None
                fit = [x for x in reserved if x.shape == M.shape and id(x) in dead_real_ids]
                fit.sort(key=lambda x: id(x) not in stale)
                if fit:
                    pick = fit[0]
                    reserved[:] = [x for x in reserved if x is not pick]
                    pick[...] = M
                fit = None
                for _ in range(0 if pick is not None else ncand):
                    x = np.array(M)
                    cands.append(x)
                    if id(x) in stale or (not stale and id(x) in dead_real_ids):
                        pick = x
                        break
                if pick is not None and id(pick) in stale:
                    state["stale_alloc"] += 1
                if pick is None:
                    pick = next((x for x in cands if id(x) in dead_real_ids), cands[0])
                x = None
                names[op["name"]] = pick
                del cands, d
                evs, _a = register(pick, op["name"])
                del pick
                events += [(e, None) for e in evs]
            elif kind == "dropuser":
                U = names.pop(op["name"], None)
                if U is not None:
                    a = canon[id(U)]
                    del U
                    reserve()
                    events.append((f"IDropUser {natlit(a)}", None))
            elif kind == "copy":
                sims.append(sims[op["c"]].copy())
                refs.append(refs[op["c"]].copy())
                events.append((f"ICopy {natlit(op['c'])}", None))
            elif kind == "drop":
                sims[op["c"]] = None
                refs[op["c"]] = None
                gc.collect()
                reserve()
                events.append((f"IDrop {natlit(op['c'])}", None))
            elif kind in ("apply", "const", "param"):
                circ, nq = sims[op["c"]], len(op["qubits"])
                rej = reject_opts(cls, nq) if op.get("reject") else None
                kw = dict(rej or {})
                pre = []
                if kind == "apply":
                    U = names[op["name"]]
                    tag = op["name"]
                    M = pool[tag]
                elif kind == "const":
                    U = G.CONSTANT_GATES[op["label"]]
                    tag = 100000 + sorted(G.CONSTANT_GATES).index(op["label"])
                    if id(U) not in canon or canon[id(U)] not in at_addr:
                        pool[tag] = np.array(np.asarray(U), dtype=complex)
                        names[tag] = U  # the registry holds it for ever
                        evs, _a = register(U, tag)
                        pre += [(e, None) for e in evs]
                    M = pool[tag]
                else:
                    U, tag, M = None, None, None
                accepted, exc = True, None
                try:
                    if kind == "apply":
                        if op["how"] == "gate":
                            circ.apply_gate(G.Gate.from_raw(U, op["qubits"]), **kw)
                        elif op["how"] == "rawtuple":
                            circ.apply_gate(U, *op["qubits"], **kw)
                        else:
                            circ.apply_gate_raw(U, op["qubits"], **kw)
                    elif kind == "const":
                        circ.apply_gate(op["label"], *op["qubits"], **kw)
                    else:
                        circ.apply_gate(op["label"], *op["params"], *op["qubits"], **kw)
                except Exception as e:
                    accepted, exc = False, f"{type(e).__name__}: {e}"
                calls = list(SPY)
                SPY.clear()
                if len(calls) > 1 or (accepted and len(calls) != 1):
                    ctx.broken_obligation("correspondence:idcache:unexpected_number_of_conversions",
                                          {"class": cls, "op": op, "calls": len(calls)})
                    return None
                events += pre
                explained = False
                if calls:
                    call = calls[0]
                    if kind == "param":
                        # the array was allocated inside the library; the Gate object (held by _gates if accepted) is its only owner
                        tag = 200000 + i
                        pool[tag] = M = call["M"]
                        Gobj = call["wr"]() if call["wr"] is not None else None
                        if Gobj is not None:
                            evs, a = register(Gobj, tag)
                            del Gobj
                            events += [(e, None) for e in evs]
                        else:
                            # already freed again (rejected gate whose array nothing holds)
                            events += [(e, None) for e in pending + poll_deaths()]
                            pending.clear()
                            a = addr_of(call["gid"])
                            events.append((f"IAlloc {natlit(a)} {zlit(tag)}", None))
                    else:
                        a = canon[id(U)]
                    got_tag = tag_of_array(call["R"], tag)
                    events.append((f"IApply {natlit(op['c'])} {natlit(a)} {blit(accepted)}", f"(ISO {blit(call['hit'])} {zlit(got_tag)})"))
                    if kind == "param":
                        events.append((f"IDropUser {natlit(a)}", None))
                        if a not in at_addr:
                            events.append((f"IGc {natlit(a)}", None))
                            dead_real_ids.add(call["gid"])
                    # (c) call-site oracle: the conversion handed back must be the conversion of the array handed in
                    if got_tag != tag:
                        E = expected_conv(M)
                        R = np.asarray(call["R"])
                        err = float(np.abs(R - E).max()) if R.shape == E.shape else float("nan")
                        was = f"the conversion of array #{got_tag} of this program (dead: its address was handed to the new array)" \
                            if got_tag >= 0 else "an array that is the conversion of no array of this program"
                        viol(f"CircuitBase._maybe_convert_gate_array:{conv}:returned_conversion_of_another_array",
                             f"{cls}({conv})._maybe_convert_gate_array(G) for the freshly allocated array #{tag} ({'hit' if call['hit'] else 'miss'} on "
                             f"key id(G)) returned {was}; max |returned - convert(G)| = {err:.3g}", i)
                        explained = True
                    call = None
                    calls = None
                if not accepted and rej is None:
                    if not explained:
                        viol(f"{cls}:idcache_program:{kind}:unexpected_rejection", exc, i)
                    return None
                if accepted and rej is not None:
                    viol(f"{cls}:idcache_program:{kind}:option_not_rejected", f"gate options {rej} were accepted", i)
                    return None
                if accepted:
                    refs[op["c"]] = _embed_apply(refs[op["c"]], M.reshape(2**nq, 2**nq), list(op["qubits"]), N)
            elif kind == "check":
                circ = sims[op["c"]]
                if cls != "CircuitPEPSSimpleUpdate":
                    got = np.asarray(circ.copy().to_dense() if cls == "CircuitMPSLazy" else circ.to_dense()).ravel()
                    want = refs[op["c"]]
                    err = float(np.abs(got - want).max()) if got.shape == want.shape else float("inf")
                    if not err <= tol:
                        viol(f"{cls}:fresh_gate_array:{conv}:wrong_state",
                             f"{cls}({conv}): the state of simulator {op['c']} differs from U_n...U_1|0> for the matrices supplied by {err:.3g} "
                             f"(tolerance {tol}): a freshly allocated gate array was replaced by the cached conversion of an earlier, dead one", i)
        except Exception as e:
            viol(f"{cls}:idcache_program:raised", f"{op}: {type(e).__name__}: {e}", i)
            return None
        circ = U = M = None  # noqa: F841 - the harness itself must not keep simulators / arrays alive
        SPY.clear()
        # deaths caused by this operation, then the state observation on the last event of the operation
        events += [(e, None) for e in pending + poll_deaths()]
        pending.clear()
        try:
            st, listing = observe_state()
        except KeyError as e:
            ctx.broken_obligation("correspondence:idcache:unknown_key", repr(e))
            return None
        structural(i)
        for j, (e, out) in enumerate(events):
            # the state observation goes on the last event of the operation (omitted when nothing changed since the last one)
            last = j == len(events) - 1 and st != state.get("last_st")
            trace.append(f"IE ({e}) {st if last else 'INS'} {out or 'INO'}")
        if events:
            state["last_st"] = st
        descr.append({"op": op, "events": [e for e, _ in events], "dict_listing(addr, pins)": listing, "live": sorted(at_addr)})
    info = {"class": cls, "conv": conv, "N": N, "ops": descr[-12:], "recycled_addresses": state["recycled"],
            "allocated_at_stale_key": state["stale_alloc"], "program": prog}
    state.pop("last_st", None)
    return trace, info, state

import importlib
import sys

from harness import common


def _main():
    pid = sys.argv[1]
    mod = importlib.import_module("harness." + pid.lower())
    sys.exit(common.main(mod))


if __name__ == "__main__":
    _main()

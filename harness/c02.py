"""C02 - network index / tag / ownership maps stay exact under any mutation history.

Proof part (coq/C02): executable model of the bookkeeping of
quimb/tensor/tensor_core.py (a heap of tensor objects {inds, tags, owners} and
network objects {tensor_map, ind_map, tag_map, _inner_inds, _outer_inds,
_tid_counter, alive}) with `step : heap -> op -> heap * outcome`; invariant
"every live network's maps equal a fresh scan of its tensors, inner/outer =
labels occurring >=2 / exactly once, each tensor's live owners = exactly the
networks holding it" proved for every operation history that stays inside the
domain (no tensor carries a label twice, no tensor object twice in one
network); `_refuted` theorems with concrete witnesses outside that domain.

Tie (H): random operation histories are run on the implementation; after EVERY
operation the observable state (tensor_map keys, ind_map, tag_map, _inner_inds,
_outer_inds, _tid_counter of every live network, inds / tags / live owners of
every tensor, in dict / oset order) is dumped, and Coq replays the same history
through the model (vm_compute) and compares state by state, together with the
outcome (returned / raised), the domain flag and the verdict of the fresh scan.

Oracle (test / searcher): an independent Python fresh scan after every
operation, tn.check(), selection = scan, combining networks never merges
distinct bonds nor renames an outer label, and a second stream over the numeric
operations (split / contract / gate / fuse / isel / squeeze ...).
"""

import copy
import gc
import json
import pickle
import weakref
from collections import Counter

import numpy as np

FRESH0 = 100
NLABEL = 8
NTAG = 5
MAX_NETS = 4
MAX_HANDLES = 48

RULE = (
    "histories: random operation sequences (quick 300 x <=30 ops, thorough 1200 x <=40) over <=4 live networks sharing "
    "tensors (views, copies, deep copies, pickling round trips, selections, partitions, garbage-collected views), ops "
    "chosen on-line from the alphabet of coq/C02/Model.v with ~20% deliberately invalid calls (must raise on both sides, "
    "state unchanged); buckets: main (inside the theorem's domain), repeated_label (a label twice on one tensor), "
    "same_tensor_twice (one tensor object twice in one network). Non-trivial: the history contains a mutation through a "
    "tensor shared by >=2 networks, or a Kill followed by a rename, or a clash-mangling combine. Selection arguments "
    "draw 1-4 tags / 1-3 labels for all four `which` modes (ops and oracle). oset: random method sequences over 4 "
    "quimb.utils.oset objects (add, discard, remove, clear, update, union, intersection(_update), difference(_update) "
    "with 0-4 arguments, | & - and |= &= -=, popleft, popright/pop, copy, in, len, ==) vs the list model, compared "
    "incl. iteration order; non-trivial = an n-ary call with >= 2 arguments. Also per history: RemoveAll "
    "(remove_all_tensors) then refill / rename through the dropped tensors; AddNet keeps bonds named in both operands apart; "
    "stream of in-place 1D compressions (dm / zipup / fit / src / direct) with the old tensors kept alive."
)

WHICH = {"all": "WAll", "any": "WAny", "!all": "WNAll", "!any": "WNAny"}


def lab(i):
    return f"i{i}"


def tag(g):
    return f"g{g}"


# ----------------------------------------------------------------------------
# Coq literals


def nl(xs):
    return "[" + "; ".join(str(int(x)) for x in xs) + "]"


def pl(ps):
    return "[" + "; ".join(f"({int(a)}, {int(b)})" for a, b in ps) + "]"


def iml(m):
    return "[" + "; ".join(f"({int(k)}, {nl(v)})" for k, v in m) + "]"


def bl(b):
    return "true" if b else "false"


def optl(x):
    return "None" if x is None else f"(Some {nl(x)})"


def op_coq(op):
    n = op[0]
    a = op[1:]
    if n == "NewTensor":
        return f"NewTensor {nl(a[0])} {nl(a[1])}"
    if n == "TCopy":
        return f"TCopy {a[0]}"
    if n == "NewNet":
        items = "[" + "; ".join(("ITensor %d" % k) if kind == "T" else ("INet %d" % k) for kind, k in a[0]) + "]"
        return f"NewNet {items} {bl(a[1])} {bl(a[2])}"
    if n == "Add":
        return f"Add {a[0]} {a[1]} {bl(a[2])}"
    if n == "AddNet":
        return f"AddNet {a[0]} {a[1]} {bl(a[2])} {bl(a[3])}"
    if n == "Pop":
        return f"Pop {a[0]} {a[1]}"
    if n == "PopTags":
        return f"PopTags {a[0]} {nl(a[1])} {WHICH[a[2]]}"
    if n == "Delete":
        return f"Delete {a[0]} {nl(a[1])} {WHICH[a[2]]}"
    if n == "SetItem":
        return f"SetItem {a[0]} {nl(a[1])} {a[2]}"
    if n == "TModInds":
        return f"TModInds {a[0]} {nl(a[1])}"
    if n == "TModTags":
        return f"TModTags {a[0]} {nl(a[1])}"
    if n == "TReindex":
        return f"TReindex {a[0]} {pl(a[1])}"
    if n == "TRetag":
        return f"TRetag {a[0]} {pl(a[1])}"
    if n == "TAddTag":
        return f"TAddTag {a[0]} {nl(a[1])}"
    if n == "TDropTags":
        return f"TDropTags {a[0]} {optl(a[1])}"
    if n == "NReindex":
        return f"NReindex {a[0]} {pl(a[1])} {bl(a[2])}"
    if n == "NRetag":
        return f"NRetag {a[0]} {pl(a[1])} {bl(a[2])}"
    if n == "NAddTag":
        return f"NAddTag {a[0]} {a[1]} {optl(a[2])} {WHICH[a[3]]}"
    if n == "NDropTags":
        return f"NDropTags {a[0]} {optl(a[1])}"
    if n == "Copy":
        return f"Copy {a[0]} {bl(a[1])}"
    if n == "DeepCopy":
        return f"DeepCopy {a[0]}"
    if n == "Select":
        return f"Select {a[0]} {optl(a[1])} {WHICH[a[2]]} {bl(a[3])}"
    if n == "SelectWithout":
        return f"SelectWithout {a[0]} {nl(a[1])} {bl(a[2])}"
    if n == "Partition":
        return f"Partition {a[0]} {nl(a[1])} {WHICH[a[2]]} {bl(a[3])}"
    if n == "PartitionTensors":
        return f"PartitionTensors {a[0]} {nl(a[1])} {WHICH[a[2]]} {bl(a[3])}"
    if n == "MakeTidsConsecutive":
        return f"MakeTidsConsecutive {a[0]} {a[1]}"
    if n == "Kill":
        return f"Kill {a[0]}"
    if n == "RemoveAll":
        return f"RemoveAll {a[0]}"
    raise ValueError(n)


def ser_nl(xs):
    return [len(xs)] + [int(x) for x in xs]


def ser_pl(ps):
    out = [len(ps)]
    for a, b in ps:
        out += [int(a), int(b)]
    return out


def ser_imap(m):
    out = [len(m)]
    for k, v in m:
        out += [int(k)] + ser_nl(v)
    return out


def obs_values(o):
    """the flat serialisation of coq/C02/Corr.v (ser_obs)"""
    out = [int(o["ok"]), int(o["dom"]), int(o["inv"]), len(o["nets"])]
    for j, d in o["nets"]:
        out += [j] + ser_pl(d["tmap"]) + ser_imap(d["imap"]) + ser_imap(d["gmap"]) + ser_nl(d["inner"]) \
            + ser_nl(d["outer"]) + [d["ctr"]]
    out.append(len(o["tensors"]))
    for t in o["tensors"]:
        out += ser_nl(t["inds"]) + ser_nl(t["tags"]) + ser_pl(t["owners"])
    return out


P1 = 2**61 - 1
P2 = 2**89 - 1


def fingerprint(vals):
    """coq/C02/Corr.v `fp`: the packed observation modulo two primes"""
    z = 1
    for x in vals:
        if not 0 <= x < 4096:
            raise HarnessError("value does not fit the 12-bit serialisation")
        z = z * 4096 + x
    return (z % P1) * 2**90 + z % P2


def obs_coq(o):
    return "0x%x" % fingerprint(obs_values(o))


def trace_coq(ops, obs):
    return (
        "(check_trace ["
        + "; ".join(op_coq(o) for o in ops)
        + "]%nat ["
        + "; ".join(obs_coq(o) for o in obs)
        + "]%Z)"
    )


COQ_HEADER = (
    "From Coq Require Import ZArith List Arith Bool.\nFrom QV Require Import C02.Model C02.Corr C02.OSet C02.OCorr.\n"
    "Import ListNotations.\n"
)


# ----------------------------------------------------------------------------
# the implementation side


class HarnessError(Exception):
    pass


class World:
    """Registry of the Python objects of one history: tensors by handle,
    networks by id (None once killed), fresh uuid labels by generation order."""

    def __init__(self):
        import quimb.tensor as qtn
        import quimb.tensor.tensor_core as tc

        self.qtn, self.tc = qtn, tc
        self.T = []
        self.hid = {}
        self.N = []
        self.uu = {}
        self.dom = True
        self.repeated = False
        self.twice = False
        self._real_uuid = tc.rand_uuid

    # fresh labels: k-th generated uuid <-> FRESH0 + k
    def __enter__(self):
        def spy(base=""):
            s = self._real_uuid(base)
            self.uu[s] = FRESH0 + len(self.uu)
            return s

        self.tc.rand_uuid = spy
        return self

    def __exit__(self, *a):
        self.tc.rand_uuid = self._real_uuid
        return False

    def lnat(self, s):
        if s in self.uu:
            return self.uu[s]
        if isinstance(s, str) and s[0] == "i" and s[1:].isdigit():
            return int(s[1:])
        raise HarnessError(f"unknown label {s!r}")

    @staticmethod
    def gnat(s):
        if isinstance(s, str) and s[0] == "g" and s[1:].isdigit():
            return int(s[1:])
        raise HarnessError(f"unknown tag {s!r}")

    def lstr(self, i):
        if i >= FRESH0:
            for s, k in self.uu.items():
                if k == i:
                    return s
            return f"i{i}"
        return lab(i)

    def reg_tensor(self, t):
        if id(t) not in self.hid:
            self.hid[id(t)] = len(self.T)
            self.T.append(t)
        return self.hid[id(t)]

    def reg_net(self, tn):
        self.N.append(tn)
        return len(self.N) - 1

    def live(self):
        return [j for j, tn in enumerate(self.N) if tn is not None]

    def publish(self):
        for j in self.live():
            for t in self.N[j].tensor_map.values():
                self.reg_tensor(t)

    def update_domain(self):
        for t in self.T:
            if len(set(t.inds)) != len(t.inds):
                self.repeated = True
        for j in self.live():
            ids = [id(t) for t in self.N[j].tensor_map.values()]
            if len(set(ids)) != len(ids):
                self.twice = True
        self.dom = not (self.repeated or self.twice)

    def new_tensor(self, inds, tags):
        return self.qtn.Tensor(np.ones((2,) * len(inds)), inds=[self.lstr(i) for i in inds], tags=[tag(g) for g in tags])

    # -- one operation ---------------------------------------------------
    def apply(self, op):
        """Run one operation; returns True if it returned normally, False if
        it raised.  Objects created by it are registered afterwards."""
        qtn = self.qtn
        name, a = op[0], op[1:]
        T, N = self.T, self.N
        self.extra_problems = []
        L = lambda xs: [self.lstr(i) for i in xs]  # noqa: E731
        G = lambda xs: [tag(g) for g in xs]  # noqa: E731
        new_nets = []
        try:
            if name == "NewTensor":
                self.reg_tensor(self.new_tensor(a[0], a[1]))
            elif name == "TCopy":
                k, sp = a[0], a[1]
                t = T[k]
                t2 = t.copy() if sp == 0 else (copy.copy(t) if sp == 1 else t.copy(deep=True))
                self.reg_tensor(t2)
            elif name == "NewNet":
                items, virtual, cc, sp = a
                objs = [T[k] if kind == "T" else N[k] for kind, k in items]
                if sp == 1 and len(objs) == 2 and cc:
                    tn = (objs[0] | objs[1]) if virtual else (objs[0] & objs[1])
                else:
                    tn = qtn.TensorNetwork(objs, virtual=virtual, check_collisions=cc)
                new_nets.append(tn)
            elif name == "Add":
                n, k, virtual, sp = a
                tn = N[n]
                if sp == 0:
                    tn.add_tensor(T[k], virtual=virtual)
                elif sp == 1:
                    tn.add(T[k], virtual=virtual)
                elif virtual:
                    tn |= T[k]
                else:
                    tn &= T[k]
            elif name == "RemoveAll":
                N[a[0]].remove_all_tensors()
            elif name == "AddNet":
                n, s, virtual, cc, sp = a
                tn = N[n]
                # combining never makes two previously distinct bonds coincide: a label that names an inner
                # bond in BOTH operands must keep exactly its holders in the receiving network
                shared_bonds = {}
                if cc and self.dom:
                    shared_bonds = {ix: len(tn.ind_map[ix]) for ix in tn._inner_inds
                                    if ix in N[s]._inner_inds and ix in tn.ind_map}
                if sp == 0 or not cc:
                    tn.add_tensor_network(N[s], virtual=virtual, check_collisions=cc)
                elif sp == 1:
                    tn.add(N[s], virtual=virtual, check_collisions=cc)
                elif virtual:
                    tn |= N[s]
                else:
                    tn &= N[s]
                for ix, cnt in shared_bonds.items():
                    if len(tn.ind_map.get(ix, ())) != cnt:
                        self.extra_problems.append((
                            "combine_bonds", n,
                            f"bond {ix} of network {n} had {cnt} holders, after adding network {s} (whose own inner "
                            f"bond has the same name) it has {len(tn.ind_map.get(ix, ()))}: two distinct bonds now coincide"))
            elif name == "Pop":
                N[a[0]].pop_tensor(a[1])
            elif name == "PopTags":
                N[a[0]].pop_tensor(G(a[1]), which=a[2])
            elif name == "Delete":
                n, tags, w, sp = a
                if sp == 1 and w == "all":
                    del N[n][G(tags)]
                else:
                    N[n].delete(G(tags), which=w)
            elif name == "SetItem":
                N[a[0]][G(a[1])] = T[a[2]]
            elif name == "TModInds":
                T[a[0]].modify(inds=L(a[1]))
            elif name == "TModTags":
                T[a[0]].modify(tags=G(a[1]))
            elif name == "TReindex":
                k, f, sp = a
                d = {self.lstr(x): self.lstr(y) for x, y in f}
                if sp == 0:
                    T[k].reindex_(d)
                else:
                    T[k].reindex(d, inplace=True)
            elif name == "TRetag":
                k, f = a
                T[k].retag_({tag(x): tag(y) for x, y in f})
            elif name == "TAddTag":
                k, tags = a
                T[k].add_tag(tag(tags[0]) if len(tags) == 1 else G(tags))
            elif name == "TDropTags":
                k, tags = a
                T[k].drop_tags(None if tags is None else G(tags))
            elif name == "NReindex":
                n, f, inplace = a
                d = {self.lstr(x): self.lstr(y) for x, y in f}
                if inplace:
                    N[n].reindex_(d)
                else:
                    new_nets.append(N[n].reindex(d))
            elif name == "NRetag":
                n, f, inplace = a
                d = {tag(x): tag(y) for x, y in f}
                if inplace:
                    N[n].retag_(d)
                else:
                    new_nets.append(N[n].retag(d))
            elif name == "NAddTag":
                n, g, where, w = a
                N[n].add_tag(tag(g), where=None if where is None else G(where), which=w)
            elif name == "NDropTags":
                n, tags = a
                N[n].drop_tags(None if tags is None else G(tags))
            elif name == "Copy":
                n, virtual, sp = a
                tn = N[n]
                if sp == 1 and not virtual:
                    new_nets.append(copy.copy(tn))
                elif sp == 2:
                    new_nets.append(qtn.TensorNetwork(tn, virtual=virtual))
                else:
                    new_nets.append(tn.copy(virtual=virtual))
            elif name == "DeepCopy":
                n, sp = a
                tn = N[n]
                if sp == 0:
                    new_nets.append(tn.copy(deep=True))
                elif sp == 1:
                    new_nets.append(copy.deepcopy(tn))
                else:
                    new_nets.append(pickle.loads(pickle.dumps(tn)))
            elif name == "Select":
                n, tags, w, virtual, sp = a
                tn = N[n]
                tg = (None if sp == 0 else ...) if tags is None else G(tags)
                if tags is not None and sp == 1 and w in ("any", "all"):
                    new_nets.append(getattr(tn, "select_" + w)(tg, virtual=virtual))
                else:
                    new_nets.append(tn.select(tg, which=w, virtual=virtual))
            elif name == "SelectWithout":
                n, tids, virtual = a
                new_nets.append(N[n]._select_without_tids(list(tids), virtual=virtual))
            elif name == "Partition":
                n, tags, w, inplace = a
                t1, t2 = N[n].partition(G(tags), which=w, inplace=inplace)
                if inplace:
                    if t1 is not N[n]:
                        raise HarnessError("partition(inplace=True) did not return self")
                    new_nets.append(t2)
                else:
                    new_nets += [t1, t2]
            elif name == "PartitionTensors":
                n, tags, w, inplace = a
                u, _ts = N[n].partition_tensors(G(tags), inplace=inplace, which=w)
                del _ts
                if not inplace:
                    new_nets.append(u)
            elif name == "MakeTidsConsecutive":
                N[a[0]].make_tids_consecutive(a[1])
            elif name == "Kill":
                ref = weakref.ref(N[a[0]])
                N[a[0]] = None
                if a[1]:
                    gc.collect()
                if ref() is not None:
                    gc.collect()
                    if ref() is not None:
                        raise HarnessError("killed network is still referenced")
            else:
                raise HarnessError(f"unknown op {name}")
        except HarnessError:
            raise
        except Exception as e:  # the implementation raised
            self.last_error = f"{type(e).__name__}: {str(e)[:120]}"
            del e
            new_nets.clear()
            return False
        for tn in new_nets:
            self.reg_net(tn)
        self.publish()
        return True

    # -- observation -----------------------------------------------------
    def net_index(self, tn):
        for j, x in enumerate(self.N):
            if x is tn:
                return j
        return None

    def live_owners(self, t, _retry=False):
        out = []
        for ref, tid in list(t._owners.values()):
            tn = ref()
            if tn is None:
                continue
            j = self.net_index(tn)
            del tn
            if j is None:
                if _retry:
                    raise HarnessError("tensor owned by a live network unknown to the harness")
                gc.collect()  # a temporary network of a failed call may still be waiting for collection
                return self.live_owners(t, _retry=True)
            out.append((j, tid))
        return sorted(out)

    def observe(self, ok):
        nets = []
        for j in self.live():
            tn = self.N[j]
            nets.append((j, {
                "tmap": [(tid, self.hid[id(t)]) for tid, t in tn.tensor_map.items()],
                "imap": [(self.lnat(ix), list(tids)) for ix, tids in tn.ind_map.items()],
                "gmap": [(self.gnat(g), list(tids)) for g, tids in tn.tag_map.items()],
                "inner": [self.lnat(ix) for ix in tn._inner_inds],
                "outer": [self.lnat(ix) for ix in tn._outer_inds],
                "ctr": tn._tid_counter,
            }))
        tensors = [{"inds": [self.lnat(ix) for ix in t.inds], "tags": [self.gnat(g) for g in t.tags],
                    "owners": self.live_owners(t)} for t in self.T]
        self.update_domain()
        problems = self.scan()
        return {"ok": ok, "dom": self.dom, "inv": not problems, "nets": nets, "tensors": tensors}, problems

    # -- the independent oracle: fresh scan vs live maps -----------------------
    def scan(self):
        problems = []
        for j in self.live():
            problems += [(what, j, detail) for what, detail in fresh_scan(self.N[j])]
        # owners: live owners of every tensor = exactly the live networks holding it
        for k, t in enumerate(self.T):
            held = sorted((j, tid) for j in self.live() for tid, t2 in self.N[j].tensor_map.items() if t2 is t)
            if held != self.live_owners(t):
                problems.append(("owners", k, f"tensor {k}: live owners {self.live_owners(t)} but held at {held}"))
        return problems


def fresh_scan(tn):
    """Independent recomputation of ind_map / tag_map / inner / outer from the
    tensors of `tn`; returns a list of (what, detail) disagreements."""
    imap, gmap, occ = {}, {}, Counter()
    for tid, t in tn.tensor_map.items():
        for ix in t.inds:
            imap.setdefault(ix, set()).add(tid)
            occ[ix] += 1
        for g in t.tags:
            gmap.setdefault(g, set()).add(tid)
    out = []
    live_i = {k: set(v) for k, v in tn.ind_map.items()}
    live_g = {k: set(v) for k, v in tn.tag_map.items()}
    if live_i != imap:
        out.append(("ind_map", f"ind_map {live_i} != scan {imap}"))
    if live_g != gmap:
        out.append(("tag_map", f"tag_map {live_g} != scan {gmap}"))
    inner = {ix for ix, c in occ.items() if c >= 2}
    outer = {ix for ix, c in occ.items() if c == 1}
    if set(tn._inner_inds) != inner or set(tn._outer_inds) != outer or set(tn.inner_inds()) != inner \
            or set(tn.outer_inds()) != outer:
        out.append(("inner_outer", f"inner {list(tn._inner_inds)} outer {list(tn._outer_inds)} != scan "
                                   f"inner {sorted(inner)} outer {sorted(outer)}"))
    return out


def scan_select(tn, tags, which):
    """tids that a fresh scan selects for `tags` / `which`."""
    inverse = which[0] == "!"
    w = which[1:] if inverse else which
    tags = list(dict.fromkeys(tags))
    hit = []
    for tid, t in tn.tensor_map.items():
        has = [g in t.tags for g in tags]
        if (all(has) if w == "all" else any(has)) and tags:
            hit.append(tid)
    if inverse:
        return [tid for tid in tn.tensor_map if tid not in hit]
    return hit


# ----------------------------------------------------------------------------
# on-line generator


def pick_tags(rng, pool, kmax=4):
    pool = list(pool)
    if not pool:
        return None
    k = rng.randint(1, min(kmax, len(pool)))
    return rng.sample(pool, k)


def rand_which(rng):
    return rng.choice(["all", "any", "all", "any", "!all", "!any"])


class Gen:
    def __init__(self, W, rng, mode):
        self.W, self.rng, self.mode = W, rng, mode

    # helpers ---------------------------------------------------------------
    def held(self, n):
        return [id(t) for t in self.W.N[n].tensor_map.values()]

    def tagnats(self, n):
        return [self.W.gnat(g) for g in self.W.N[n].tag_map]

    def missing_tag(self, n):
        present = set(self.tagnats(n))
        cands = [g for g in range(NTAG + 2) if g not in present]
        return self.rng.choice(cands) if cands else None

    def label_pool(self):
        return list(range(NLABEL)) + list(self.W.uu.values())[:3]

    def fresh_inds(self, k):
        rng = self.rng
        if self.mode == "repeated" and rng.random() < 0.5 and k >= 2:
            base = [rng.randrange(NLABEL) for _ in range(k)]
            base[rng.randrange(1, k)] = base[0]
            return base
        return rng.sample(range(NLABEL), k)

    def reindex_ok(self, inds_list, f):
        """in the main bucket a rename must not create a repeated label"""
        if self.mode == "repeated":
            return True
        d = dict(f)
        for inds in inds_list:
            new = [d.get(i, i) for i in inds]
            if len(set(new)) != len(new):
                return False
        return True

    def tensor_inds(self, t):
        return [self.W.lnat(ix) for ix in t.inds]

    # one op -------------------------------------------------------------------
    def next(self):
        W, rng = self.W, self.rng
        live = W.live()
        if len(W.T) < 2:
            return self.g_new_tensor()
        if not live:
            return self.g_new_net()
        if len(live) > MAX_NETS:
            return ("Kill", rng.choice(live), rng.random() < 0.3)
        if rng.random() < 0.2:
            op = self.invalid()
            if op is not None:
                return op + ("#invalid",)
        table = [
            (self.g_new_tensor, 4), (self.g_tcopy, 1), (self.g_new_net, 5), (self.g_add, 7), (self.g_addnet, 7),
            (self.g_pop, 5), (self.g_poptags, 2), (self.g_delete, 3), (self.g_setitem, 3),
            (self.g_tmodinds, 5), (self.g_tmodtags, 3), (self.g_treindex, 7), (self.g_tretag, 4), (self.g_taddtag, 3),
            (self.g_tdroptags, 2), (self.g_nreindex, 6), (self.g_nretag, 4), (self.g_naddtag, 3), (self.g_ndroptags, 2),
            (self.g_copy, 6), (self.g_deepcopy, 3), (self.g_select, 5), (self.g_selectwithout, 2),
            (self.g_partition, 3), (self.g_partition_tensors, 2), (self.g_consecutive, 1), (self.g_kill, 5),
            (self.g_removeall, 2),
        ]
        fns = [f for f, w in table for _ in range(w)]
        for _ in range(30):
            op = rng.choice(fns)()
            if op is not None:
                return op
        return self.g_new_tensor()

    def g_new_tensor(self):
        rng = self.rng
        k = rng.choice([1, 2, 2, 3, 3])
        return ("NewTensor", self.fresh_inds(k), rng.sample(range(NTAG), rng.choice([0, 1, 2, 2, 3, 3, 4])))

    def g_tcopy(self):
        return ("TCopy", self.rng.randrange(len(self.W.T)), self.rng.randrange(3))

    def g_new_net(self):
        W, rng = self.W, self.rng
        virtual = rng.random() < 0.6
        cc = rng.random() < 0.8
        items, seen = [], set()
        for _ in range(rng.randint(1, 3)):
            if W.live() and rng.random() < 0.3:
                j = rng.choice(W.live())
                ids = self.held(j)
                if len(ids) > 4:
                    continue
                if virtual and self.mode != "double" and (seen & set(ids) or ("N", j) in items):
                    continue
                seen |= set(ids)
                items.append(("N", j))
            else:
                k = rng.randrange(len(W.T))
                if virtual and self.mode != "double" and id(W.T[k]) in seen:
                    continue
                seen.add(id(W.T[k]))
                items.append(("T", k))
        if not items:
            return None
        return ("NewNet", items, virtual, cc, rng.randrange(2))

    def g_add(self):
        W, rng = self.W, self.rng
        n = rng.choice(W.live())
        if len(W.N[n].tensor_map) >= 6:
            return None
        k = rng.randrange(len(W.T))
        virtual = rng.random() < 0.6
        if virtual and self.mode != "double" and id(W.T[k]) in self.held(n):
            return None
        return ("Add", n, k, virtual, rng.randrange(3))

    def g_addnet(self):
        W, rng = self.W, self.rng
        live = W.live()
        if len(live) < 2:
            return None
        n, s = rng.sample(live, 2)
        for _ in range(4):  # prefer pairs whose inner bonds share a name (mangling must keep them apart)
            if set(W.N[n]._inner_inds) & set(W.N[s]._inner_inds):
                break
            n, s = rng.sample(live, 2)
        if len(W.N[n].tensor_map) + len(W.N[s].tensor_map) > 7:
            return None
        virtual = rng.random() < 0.5
        if virtual and self.mode != "double" and set(self.held(n)) & set(self.held(s)):
            return None
        return ("AddNet", n, s, virtual, rng.random() < 0.8, rng.randrange(3))

    def g_pop(self):
        W, rng = self.W, self.rng
        n = rng.choice(W.live())
        tids = list(W.N[n].tensor_map)
        if not tids:
            return None
        return ("Pop", n, rng.choice(tids))

    def unique_match(self, n):
        """tags / which selecting exactly one tensor of network n (by scan)"""
        W, rng = self.W, self.rng
        pool = self.tagnats(n)
        for _ in range(6):
            tags = pick_tags(rng, pool)
            if tags is None:
                return None
            w = rng.choice(["all", "all", "any"])
            if len(scan_select(W.N[n], [tag(g) for g in tags], w)) == 1:
                return tags, w
        return None

    def g_poptags(self):
        n = self.rng.choice(self.W.live())
        m = self.unique_match(n)
        if m is None:
            return None
        return ("PopTags", n, m[0], m[1])

    def g_delete(self):
        rng = self.rng
        n = rng.choice(self.W.live())
        tags = pick_tags(rng, self.tagnats(n))
        if tags is None:
            return None
        return ("Delete", n, tags, rng.choice(["all", "all", "any"]), rng.randrange(2))

    def g_setitem(self):
        W, rng = self.W, self.rng
        n = rng.choice(W.live())
        m = self.unique_match(n)
        if m is None or m[1] != "all":
            return None
        k = rng.randrange(len(W.T))
        if self.mode != "double":
            (tid,) = scan_select(W.N[n], [tag(g) for g in m[0]], "all")
            others = [id(t) for x, t in W.N[n].tensor_map.items() if x != tid]
            if id(W.T[k]) in others:
                return None
        return ("SetItem", n, m[0], k)

    def shared_handle(self):
        """prefer tensors held by networks (most interesting: by several)"""
        W, rng = self.W, self.rng
        cands = [k for k, t in enumerate(W.T) if t._owners]
        if cands and rng.random() < 0.85:
            return rng.choice(cands)
        return rng.randrange(len(W.T))

    def g_tmodinds(self):
        k = self.shared_handle()
        t = self.W.T[k]
        if len(t.inds) == 0:
            return None
        cur = self.tensor_inds(t)
        rng = self.rng
        r = rng.random()
        if r < 0.3:
            new = cur[:]
            rng.shuffle(new)  # a pure permutation: maps must not move
        elif self.mode == "repeated" and r < 0.6:
            new = [rng.choice(self.label_pool()) for _ in cur]
        else:
            pool = self.label_pool()
            new = rng.sample(pool, len(cur))
        return ("TModInds", k, new)

    def g_tmodtags(self):
        k = self.shared_handle()
        rng = self.rng
        return ("TModTags", k, [rng.randrange(NTAG) for _ in range(rng.randint(0, 4))])

    def rand_map(self, keys_pool, vals_pool, kmax=2):
        rng = self.rng
        keys_pool = list(dict.fromkeys(keys_pool))
        if not keys_pool:
            return None
        ks = rng.sample(keys_pool, rng.randint(1, min(kmax, len(keys_pool))))
        return [(k, rng.choice(vals_pool)) for k in ks]

    def g_treindex(self):
        k = self.shared_handle()
        cur = self.tensor_inds(self.W.T[k])
        f = self.rand_map(cur + [self.rng.randrange(NLABEL)], self.label_pool())
        if f is None or not self.reindex_ok([cur], f):
            return None
        return ("TReindex", k, f, self.rng.randrange(2))

    def g_tretag(self):
        k = self.shared_handle()
        cur = [self.W.gnat(g) for g in self.W.T[k].tags]
        f = self.rand_map(cur + [self.rng.randrange(NTAG)], list(range(NTAG)))
        if f is None:
            return None
        return ("TRetag", k, f)

    def g_taddtag(self):
        rng = self.rng
        return ("TAddTag", self.shared_handle(), [rng.randrange(NTAG) for _ in range(rng.choice([1, 1, 2, 3]))])

    def g_tdroptags(self):
        rng = self.rng
        tags = None if rng.random() < 0.25 else [rng.randrange(NTAG) for _ in range(rng.randint(1, 2))]
        return ("TDropTags", self.shared_handle(), tags)

    def g_nreindex(self):
        W, rng = self.W, self.rng
        n = rng.choice(W.live())
        tn = W.N[n]
        present = [W.lnat(ix) for ix in tn.ind_map]
        f = self.rand_map(present + [rng.randrange(NLABEL)], self.label_pool())
        if f is None or not self.reindex_ok([self.tensor_inds(t) for t in tn.tensor_map.values()], f):
            return None
        inplace = rng.random() < 0.7
        if not inplace and len(W.live()) >= MAX_NETS:
            inplace = True
        return ("NReindex", n, f, inplace)

    def g_nretag(self):
        W, rng = self.W, self.rng
        n = rng.choice(W.live())
        present = self.tagnats(n)
        f = self.rand_map(present, list(range(NTAG)))
        if f is None:
            return None
        inplace = rng.random() < 0.7 or len(W.live()) >= MAX_NETS
        return ("NRetag", n, f, inplace)

    def g_naddtag(self):
        rng = self.rng
        n = rng.choice(self.W.live())
        where = None if rng.random() < 0.4 else pick_tags(rng, self.tagnats(n))
        return ("NAddTag", n, rng.randrange(NTAG), where, rand_which(rng))

    def g_ndroptags(self):
        rng = self.rng
        n = rng.choice(self.W.live())
        tags = None if rng.random() < 0.25 else pick_tags(rng, self.tagnats(n))
        if tags is None and not self.W.N[n].tensor_map:
            return None
        return ("NDropTags", n, tags)

    def room(self, k=1):
        return len(self.W.live()) + k <= MAX_NETS + 1

    def g_copy(self):
        if not self.room():
            return None
        return ("Copy", self.rng.choice(self.W.live()), self.rng.random() < 0.6, self.rng.randrange(3))

    def g_deepcopy(self):
        if not self.room():
            return None
        return ("DeepCopy", self.rng.choice(self.W.live()), self.rng.randrange(3))

    def g_select(self):
        rng = self.rng
        if not self.room():
            return None
        n = rng.choice(self.W.live())
        tags = None if rng.random() < 0.15 else pick_tags(rng, self.tagnats(n))
        if tags is None and rng.random() < 0.5:
            return None
        return ("Select", n, tags, rand_which(rng), rng.random() < 0.7, rng.randrange(2))

    def g_selectwithout(self):
        rng = self.rng
        if not self.room():
            return None
        n = rng.choice(self.W.live())
        tids = list(self.W.N[n].tensor_map)
        sub = rng.sample(tids, rng.randint(0, len(tids)))
        return ("SelectWithout", n, sub, rng.random() < 0.6)

    def g_partition(self):
        rng = self.rng
        inplace = rng.random() < 0.5
        if not self.room(1 if inplace else 2):
            return None
        n = rng.choice(self.W.live())
        tags = pick_tags(rng, self.tagnats(n))
        if tags is None:
            return None
        return ("Partition", n, tags, rng.choice(["any", "all"]), inplace)

    def g_partition_tensors(self):
        rng = self.rng
        inplace = rng.random() < 0.5
        if not inplace and not self.room():
            return None
        n = rng.choice(self.W.live())
        tags = pick_tags(rng, self.tagnats(n))
        if tags is None:
            return None
        return ("PartitionTensors", n, tags, rng.choice(["any", "all"]), inplace)

    def g_consecutive(self):
        rng = self.rng
        return ("MakeTidsConsecutive", rng.choice(self.W.live()), rng.choice([0, 0, 3]))

    def g_removeall(self):
        rng = self.rng
        cands = [j for j in self.W.live() if self.W.N[j].tensor_map]
        if not cands:
            return None
        return ("RemoveAll", rng.choice(cands))

    def g_kill(self):
        rng = self.rng
        live = self.W.live()
        if len(live) < 2 and rng.random() < 0.7:
            return None
        return ("Kill", rng.choice(live), rng.random() < 0.3)

    # calls that must raise before touching anything --------------------------
    def invalid(self):
        W, rng = self.W, self.rng
        n = rng.choice(W.live())
        tn = W.N[n]
        miss = self.missing_tag(n)
        kind = rng.randrange(11)
        if kind == 0:
            cands = [t for t in range(0, 12) if t not in tn.tensor_map]
            return ("Pop", n, rng.choice(cands))
        if miss is None:
            return None
        if kind == 1:
            return ("PopTags", n, [miss], "all")
        if kind == 2:
            # a tag matching 0 or >= 2 tensors
            for g in self.tagnats(n):
                if len(tn.tag_map[tag(g)]) >= 2:
                    return ("PopTags", n, [g], "all")
            return ("Delete", n, [miss], "any", 0)
        if kind == 3:
            for g in self.tagnats(n):
                if len(tn.tag_map[tag(g)]) >= 2:
                    return ("SetItem", n, [g], rng.randrange(len(W.T)))
            return ("SetItem", n, [miss], rng.randrange(len(W.T)))
        if kind == 4:
            return ("NRetag", n, [(miss, 0)], True)
        if kind == 5:
            return ("NAddTag", n, 0, [miss], "any")
        if kind == 6:
            return ("NDropTags", n, [miss])
        if kind == 7:
            return ("Select", n, [miss], rand_which(rng), rng.random() < 0.5, 0)
        if kind == 8:
            return ("Partition", n, [miss], "any", rng.random() < 0.5)
        if kind == 9:
            return ("PartitionTensors", n, [miss], "any", rng.random() < 0.5)
        cands = [t for t in range(0, 12) if t not in tn.tensor_map]
        return ("SelectWithout", n, [rng.choice(cands)], rng.random() < 0.5)


# ----------------------------------------------------------------------------
# one history


def violation_key(what, W):
    cond = "same_tensor_twice" if W.twice else ("repeated_label" if W.repeated else "plain")
    return f"{what}:{cond}"


def scan_select_inds(tn, inds, which):
    inverse = which[0] == "!"
    w = which[1:] if inverse else which
    hit = []
    for tid, t in tn.tensor_map.items():
        has = [ix in t.inds for ix in inds]
        if (all(has) if w == "all" else any(has)) and inds:
            hit.append(tid)
    if inverse:
        return [tid for tid in tn.tensor_map if tid not in hit]
    return hit


def check_selection_multi(W, problems, rng):
    """1-4 tags and 1-3 labels, all four `which` modes, every selection spelling = scan"""
    for j in W.live():
        tn = W.N[j]
        tags = list(tn.tag_map)
        inds = list(tn.ind_map)
        for _ in range(1):
            if tags:
                tg = rng.sample(tags, rng.randint(1, min(4, len(tags))))
                wsel = rng.choice(["all", "all", "any", "!all", "!any"])
                for w in ("all", "any", "!all", "!any"):
                    want = sorted(scan_select(tn, tg, w))
                    got = sorted(tn._get_tids_from_tags(tg, w))
                    if got != want:
                        problems.append(("select", j, f"_get_tids_from_tags({tg}, {w}) = {got}, scan {want}"))
                        continue
                    if w != wsel:
                        continue
                    if sorted(tn.select(tg, which=w).tensor_map) != want or \
                            sorted(id(t) for t in tn.select_tensors(tg, which=w)) != sorted(id(tn.tensor_map[t]) for t in want):
                        problems.append(("select", j, f"select / select_tensors({tg}, {w}) differ from the scan"))
                want = scan_select(tn, tg, "all")
                try:
                    got = tn[tuple(tg)]
                    got = got if isinstance(got, tuple) else (got,)
                    if sorted(id(t) for t in got) != sorted(id(tn.tensor_map[t]) for t in want):
                        problems.append(("select", j, f"tn[{tg}] differs from the scan"))
                except KeyError:
                    if want:
                        problems.append(("select", j, f"tn[{tg}] raised KeyError but the scan finds {want}"))
            if inds:
                ix = rng.sample(inds, rng.randint(1, min(3, len(inds))))
                for w in ("all", "any", "!all", "!any"):
                    want = sorted(scan_select_inds(tn, ix, w))
                    got = sorted(tn._get_tids_from_inds(ix, w))
                    if got != want:
                        problems.append(("select", j, f"_get_tids_from_inds({ix}, {w}) = {got}, scan {want}"))


def check_selection(W, problems):
    """select / [] / select_neighbors = scan, on every live network"""
    for j in W.live():
        tn = W.N[j]
        for g in list(tn.tag_map)[:3]:
            for w in ("all", "!any"):
                want = scan_select(tn, [g], w)
                got = list(tn._get_tids_from_tags([g], w))
                if sorted(got) != sorted(want):
                    problems.append(("select", j, f"_get_tids_from_tags([{g}], {w}) = {got}, scan {want}"))
            try:
                for w in ("any", "all", "!any"):
                    sub = tn.select(g, which=w)
                    if sorted(sub.tensor_map) != sorted(scan_select(tn, [g], w)) or any(
                            sub.tensor_map[t] is not tn.tensor_map[t] for t in sub.tensor_map):
                        problems.append(("select", j, f"select({g}, which={w}) differs from the scan"))
                    del sub
                got = tn[g]
                got = got if isinstance(got, tuple) else (got,)
                if sorted(id(t) for t in got) != sorted(id(tn.tensor_map[t]) for t in scan_select(tn, [g], "all")):
                    problems.append(("select", j, f"tn[{g}] differs from the scan"))
                if sorted(tn.select_any([g]).tensor_map) != sorted(scan_select(tn, [g], "any")) or \
                        sorted(tn.select_all([g]).tensor_map) != sorted(scan_select(tn, [g], "all")):
                    problems.append(("select", j, f"select_any / select_all({g}) differ from the scan"))
                sel = tn.select_tensors(g)
                if sorted(id(t) for t in sel) != sorted(id(tn.tensor_map[t]) for t in scan_select(tn, [g], "all")):
                    problems.append(("select", j, f"select_tensors({g}) differs from the scan"))
                nb = tn.select_neighbors(g)
                tagged = scan_select(tn, [g], "any")
                inds = {ix for t in tagged for ix in tn.tensor_map[t].inds}
                want_nb = [tid for tid, t in tn.tensor_map.items() if tid not in tagged and inds & set(t.inds)]
                if sorted(id(t) for t in nb) != sorted(id(tn.tensor_map[t]) for t in want_nb):
                    problems.append(("select", j, f"select_neighbors({g}) differs from the scan"))
            except Exception as e:
                problems.append(("select", j, f"selection on present tag {g} raised {type(e).__name__}: {e}"))
        for ix in list(tn.ind_map)[:3]:
            want = [tid for tid, t in tn.tensor_map.items() if ix in t.inds]
            got = list(tn._get_tids_from_inds([ix], "all"))
            if sorted(got) != sorted(want):
                problems.append(("select", j, f"_get_tids_from_inds([{ix}]) = {got}, scan {want}"))


def run_history(rng, mode, nops, fixed_ops=None, selection=True):
    """Run one history on the implementation.  Returns (ops, observations,
    first violation or None, flags)."""
    ops, obs = [], []
    viol = None
    flags = {"shared_mutation": False, "kill_then_rename": False, "mangle": False, "invalid": 0, "killed": False}
    import random as _random

    sel_rng = _random.Random(12345)  # separate stream: the oracle's draws never disturb the generator
    with World() as W:
        gen = Gen(W, rng, mode)
        for step in range(nops):
            if fixed_ops is not None:
                if step >= len(fixed_ops):
                    break
                op = tuple(fixed_ops[step])
            else:
                if len(W.T) > MAX_HANDLES:
                    break
                op = gen.next()
            expect_invalid = op[-1] == "#invalid"
            if expect_invalid:
                op = op[:-1]
                flags["invalid"] += 1
            name = op[0]
            # coverage flags (before the op runs)
            if name in ("TModInds", "TReindex", "TModTags", "TRetag", "TAddTag", "TDropTags") and op[1] < len(W.T):
                nown = len(W.live_owners(W.T[op[1]]))
                if nown >= 2:
                    flags["shared_mutation"] = True
                if flags["killed"] and nown >= 1:
                    flags["kill_then_rename"] = True
            nuu = len(W.uu)
            ok = W.apply(op)
            if len(W.uu) > nuu:
                flags["mangle"] = True
            if name == "Kill" and ok:
                flags["killed"] = True
            o, problems = W.observe(ok)
            problems += W.extra_problems
            for j in W.live():
                try:
                    W.N[j].check()
                except Exception as e:
                    problems.append(("check", j, f"tn.check() raised {type(e).__name__}: {str(e)[:100]}"))
            if selection and not problems:
                check_selection(W, problems)
                if not problems:
                    check_selection_multi(W, problems, sel_rng)
            ops.append(list(op))
            obs.append(o)
            if expect_invalid and ok:
                viol = ("accepted_invalid", W, step, f"{name} with arguments that must be rejected returned normally")
                break
            if (not expect_invalid) and (not ok) and fixed_ops is None:
                # a call the generator believed valid raised: compared with the model (which must also reject);
                # the history ends here because the implementation may have been left half-updated
                flags["unexpected_raise"] = W.last_error
                break
            if problems:
                what, where, detail = problems[0]
                viol = (what, W, step, detail)
                break
        key = violation_key(viol[0], W) if viol else None
        res_viol = None if viol is None else {"key": key, "what": viol[0], "step": viol[2], "detail": viol[3]}
        flags["dom"] = W.dom
        flags["handles"] = len(W.T)
        flags["nets"] = len(W.N)
    return ops, obs, res_viol, flags


def opname_hist(ctx, ops):
    for op in ops:
        ctx.bump("op:" + op[0])


def shrink(mode, ops, key):
    """greedy one-at-a-time removal keeping the same violation key"""
    import random

    cur = [list(o) for o in ops]
    changed = True
    while changed and len(cur) > 1:
        changed = False
        for i in range(len(cur) - 1, -1, -1):
            cand = cur[:i] + cur[i + 1:]
            try:
                _, _, v, _ = run_history(random.Random(0), mode, len(cand), fixed_ops=cand, selection=(key.startswith("select")))
            except Exception:
                continue
            if v is not None and v["key"] == key and v["step"] == len(cand) - 1:
                cur = cand
                changed = True
                break
    return cur


def jsonable_ops(ops):
    return json.loads(json.dumps(ops))


def correspondence(ctx):
    import random

    import quimb.tensor  # noqa: F401  (import before freezing)

    gc.collect()
    gc.freeze()  # later gc.collect() calls only look at objects created by the histories
    nseq = ctx.n(300, 1200)
    maxops = ctx.n(30, 40)
    rng = ctx.rng
    cases, info = corpus_cases(ctx)
    ocases, oinfo = [], {}
    try:
        ocases, oinfo = oset_stream(ctx)  # quimb.utils.oset vs the list model: same Coq run as the histories
    except Exception as e:
        import traceback

        ctx.broken_obligation("stage:oset_stream", traceback.format_exc()[-2000:])
    for cid in range(1, nseq + 1):
        r = rng.random()
        mode = "main" if r < 0.7 else ("repeated" if r < 0.88 else "double")
        nops = rng.randint(8, maxops)
        seed = rng.getrandbits(48)
        ops, obs, viol, flags = run_history(random.Random(seed), mode, nops)
        ctx.bump("bucket:" + mode)
        ctx.bump("histories")
        ctx.bump("ops", len(ops))
        ctx.bump("ops_invalid_must_raise", flags["invalid"])
        opname_hist(ctx, ops)
        for f in ("shared_mutation", "kill_then_rename", "mangle"):
            if flags[f]:
                ctx.bump("history_with_" + f)
        if not flags["dom"]:
            ctx.bump("history_outside_domain")
        nontrivial = flags["shared_mutation"] or flags["kill_then_rename"] or flags["mangle"]
        ctx.count(("hist", mode, ops), nontrivial)
        info[cid] = {"mode": mode, "seed": seed, "ops": ops, "obs": obs, "flags": {k: v for k, v in flags.items()}}
        cases.append((cid, trace_coq(ops, obs)))
        if cid <= 2:
            ctx.sample({"mode": mode, "ops": ops[:8], "state_after_last_shown_op": obs[min(7, len(obs) - 1)]})
        if "unexpected_raise" in flags and mode == "main":
            ctx.bump("valid_call_raised")
        if viol is not None:
            report_violation(ctx, mode, ops, viol)
    # oset cases are small: spread them over the history shards (one Coq run)
    allcases = list(cases)
    step = max(1, len(cases) // max(1, len(ocases))) if ocases else 1
    for k, oc in enumerate(ocases):
        allcases.insert(min(len(allcases), k * (step + 1)), oc)
    nshards = ctx.n(6, 16)
    failed, errors = ctx.coq_cases("hist", COQ_HEADER, allcases, shard=-(-len(allcases) // nshards), jobs=8, timeout=1500)
    for path, err in errors:
        ctx.broken_obligation("correspondence:histories:" + path.split("/")[-1], err)
    hfailed = [c for c in failed if c < 200000]
    ofailed = [c for c in failed if c >= 200000]
    for c in hfailed[:4]:
        diagnose(ctx, c, info[c])
    for c in ofailed[:3]:
        ctx.broken_obligation("correspondence:oset_model_vs_impl", {"ops": oinfo[c]["ops"]})
    ctx.extra["histories_matching_model_state_by_state"] = len(cases) - len(hfailed)
    ctx.extra["oset_sequences_matching_model"] = len(ocases) - len(ofailed)


def report_violation(ctx, mode, ops, viol):
    key = viol["key"]
    small = ops
    seen = ctx.extra.setdefault("_reported_keys", set())
    if key not in getattr(ctx, "_known", {}) and key not in seen:
        # minimise only what will actually be reported (known findings and repeats of a key are not)
        try:
            small = shrink(mode, ops, key)
        except Exception:
            pass
    seen.add(key)
    ctx.violation(
        key,
        f"after {small[-1][0]}: {viol['detail']}"[:400],
        {"mode": mode, "ops": jsonable_ops(small), "how": "harness.c02.run_history(random.Random(0), mode, len(ops), fixed_ops=ops)"},
    )


def diagnose(ctx, cid, inf):
    """a history whose model replay differs from the implementation: locate the
    first differing operation and show both sides"""
    ops, obs = inf["ops"], inf["obs"]
    text = (
        COQ_HEADER
        + "Definition ops := ["
        + "; ".join(op_coq(o) for o in ops)
        + "]%nat.\nDefinition exp := ["
        + "; ".join(obs_coq(o) for o in obs)
        + "]%Z.\nEval vm_compute in (first_bad h0 ops exp 0).\n"
    )
    rc, out, err = ctx.coq_eval(f"diag{cid}", text, timeout=120)
    k = None
    import re

    m = re.search(r"Some\s+(\d+)", out)
    if m:
        k = int(m.group(1))
    detail = {"mode": inf["mode"], "seed": inf["seed"], "first_differing_op_index": k}
    if k is not None and k < len(ops):
        text2 = (
            COQ_HEADER + "Definition ops := [" + "; ".join(op_coq(o) for o in ops[: k + 1]) + "]%nat.\n"
            f"Eval vm_compute in (model_after ops {k}).\n"
        )
        rc2, out2, err2 = ctx.coq_eval(f"diag{cid}b", text2, timeout=120)
        detail["op"] = ops[k]
        detail["ops_prefix"] = ops[: k + 1]
        detail["impl"] = obs[k]
        detail["model"] = " ".join(out2.split())[-1500:]
    else:
        detail["coq_output"] = (out + err)[-600:]
    ctx.broken_obligation("correspondence:history_model_vs_impl", detail)


def corpus_cases(ctx):
    """minimised past failures / hand-written histories, run first (oracle here,
    model correspondence together with the random histories)"""
    import glob
    import os
    import random

    cases, info = [], {}
    paths = sorted(glob.glob(os.path.join(os.path.dirname(os.path.dirname(__file__)), "corpus", "C02", "*.json")))
    for k, path in enumerate(paths):
        cid = 100001 + k
        with open(path) as f:
            d = json.load(f)
        ops, obs, viol, flags = run_history(random.Random(0), d.get("mode", "main"), len(d["ops"]), fixed_ops=d["ops"])
        ctx.bump("corpus")
        ctx.count(("corpus", os.path.basename(path)), True)
        info[cid] = {"mode": d.get("mode", "main"), "seed": 0, "ops": ops, "obs": obs, "corpus": os.path.basename(path)}
        cases.append((cid, trace_coq(ops, obs)))
        if viol is not None:
            report_violation(ctx, d.get("mode", "main"), ops, viol)
    return cases, info


def run(ctx):
    ctx.extra["rule"] = RULE
    ctx.trusted_base += [
        "hand-written model coq/C02/Model.v of the network bookkeeping in quimb/tensor/tensor_core.py and of "
        "quimb.utils.oset (insertion-ordered lists); tie = state-by-state correspondence evaluated in Coq against the "
        "running implementation after every operation of random histories; states are compared through the residues "
        "modulo 2^61-1 and 2^89-1 of the serialised observation (computed on both sides; a reported difference is "
        "always a real difference, a missed difference has probability ~2^-150 per state)",
        "modelled, not verified: CPython garbage collection (explicit Kill; the harness drops the last reference and calls "
        "gc.collect()), hash(network) reuse (network ids never reused in the model; only live owners are observable), "
        "copy.deepcopy / pickle internals (contract: an isomorphic heap of new tensor objects owned by the new network), "
        "freshness of rand_uuid (a counter), array data / shapes (all dimensions 2; not part of the model)",
    ]
    ctx.assumptions += [
        "theorem domain (ghost flag h_ok): no tensor is ever given a label twice; no tensor object is added as a view to a "
        "network that already holds it - outside it the model (like the implementation) violates the invariant "
        "(C02_*_refuted, known findings)",
        "split / contract / gate / fuse / isel / squeeze and 'combining never merges bonds' are covered by the fresh-scan "
        "oracle on the implementation (test stream), plus C02_combine_renaming_partial for the renaming itself",
    ]
    ctx.check_props(["C02/Model.vo", "C02/Corr.vo", "C02/Lists.vo", "C02/Inv.vo", "C02/Inv2.vo", "C02/Inv3.vo", "C02/Inv4.vo",
                     "C02/Struct.vo", "C02/Inv5.vo", "C02/Steps.vo", "C02/Step.vo", "C02/Final.vo", "C02/Combine.vo", "C02/OSet.vo", "C02/OCorr.vo", "C02/Props.v"])
    ctx.stage(correspondence)
    ctx.stage(numeric_stream)
    ctx.stage(combine_stream)
    ctx.stage(compress1d_stream)
    ctx.extra.pop("_reported_keys", None)


def replay(ctx, path):
    import random

    with open(path) as f:
        d = json.load(f)
    rep = d.get("replay", d)
    if "ops" in rep:
        ops, obs, viol, flags = run_history(random.Random(0), rep.get("mode", "main"), len(rep["ops"]), fixed_ops=rep["ops"])
        if viol is not None:
            ctx.violation(viol["key"], viol["detail"][:400], {"mode": rep.get("mode", "main"), "ops": jsonable_ops(ops)})
        failed, errors = ctx.coq_cases("replay", COQ_HEADER, [(1, trace_coq(ops, obs))], shard=5)
        if failed or errors:
            ctx.broken_obligation("correspondence:replay", {"failed": failed, "errors": errors})
            if failed:
                diagnose(ctx, 1, {"mode": rep.get("mode", "main"), "seed": 0, "ops": ops, "obs": obs})
    elif rep.get("stream") == "numeric":
        ctx.stage(numeric_stream)
    elif rep.get("stream") == "combine":
        ctx.stage(combine_stream)
    elif rep.get("stream") == "compress1d":
        ctx.stage(compress1d_stream)
    elif rep.get("stream") == "oset":
        ctx.stage(oset_stream)
    else:
        run(ctx)


# ----------------------------------------------------------------------------
# stage 3: numeric operations and combining networks (oracle / test stream)


def random_network(rng, qtn, ntensors, nlabels=6, hyper=False):
    """integer-valued tensors on a random graph; every label has one size; a
    label sits on at most two tensors unless `hyper`"""
    sizes = {f"b{i}": rng.choice([2, 2, 3]) for i in range(nlabels)}
    use = {k: 0 for k in sizes}
    ts = []
    for k in range(ntensors):
        avail = [ix for ix in sizes if hyper or use[ix] < 2]
        inds = rng.sample(avail, min(len(avail), rng.randint(1, 3)))
        for ix in inds:
            use[ix] += 1
        data = np.array([rng.randint(-2, 2) or 1 for _ in range(int(np.prod([sizes[i] for i in inds])))], dtype=float)
        ts.append(qtn.Tensor(data.reshape([sizes[i] for i in inds]), inds=inds,
                             tags=[f"T{k}"] + rng.sample(["A", "B", "C"], rng.randint(0, 2))))
    return qtn.TensorNetwork(ts), sizes


def net_problems(tn, view=False):
    out = [w for w, _ in fresh_scan(tn)]
    try:
        tn.check()
    except Exception as e:
        # a view keeps tensors that the rewritten network dropped: resizing a shared tensor through the other
        # network legitimately leaves the view with unequal sizes (not a bookkeeping defect) - only for views
        msg = str(e)
        if "non-finite" in msg:
            pass  # numerics (e.g. normalising an all-zero tensor), not bookkeeping
        elif not (view and msg.startswith("Mismatched index dimension")):
            out.append("check:" + msg[:60])
    for tid, t in tn.tensor_map.items():
        ok = any((ref() is tn and rtid == tid) for ref, rtid in t._owners.values())
        if not ok:
            out.append("owners")
    return out


def numeric_ops(rng, qtn, tn):
    """(name, thunk) list of public operations that rewrite tensors of `tn`"""
    tids = list(tn.tensor_map)
    if not tids:
        return []
    ttags = [f for f in tn.tag_map if f.startswith("T")]
    inner = list(tn.inner_inds())
    outer = list(tn.outer_inds())
    ops = []
    pick = rng.choice
    # two tags that identify two different single tensors
    single = {}
    for f in ttags:
        if len(tn.tag_map[f]) == 1:
            single.setdefault(next(iter(tn.tag_map[f])), f)
    if len(single) >= 2:
        a, b = [single[t] for t in rng.sample(sorted(single), 2)]
        ops.append(("contract_tags", lambda: tn.contract_tags([a, b], which="any", inplace=True, output_inds=None)
                    if not any(len(v) > 2 for v in tn.ind_map.values()) else None))
        ops.append(("contract_between", lambda: tn.contract_between(a, b)
                    if not any(len(v) > 2 for v in tn.ind_map.values()) else None))
        ops.append(("new_bond", lambda: tn.new_bond(a, b, size=2)))
        ops.append(("canonize_between", lambda: tn.canonize_between(a, b)
                    if len(set(tn[a].inds) & set(tn[b].inds)) == 1 and not any(len(v) > 2 for v in tn.ind_map.values()) else None))
        ops.append(("compress_between", lambda: tn.compress_between(a, b, max_bond=2)
                    if len(set(tn[a].inds) & set(tn[b].inds)) >= 1 and not any(len(v) > 2 for v in tn.ind_map.values()) else None))
    if inner:
        ix = pick(inner)
        ops.append(("contract_ind", lambda: tn.contract_ind(ix) if len(tn.ind_map[ix]) == 2 else None))
        ops.append(("cut_bond", lambda: tn.cut_bond(ix, "cutL%d" % rng.randrange(1000), "cutR%d" % rng.randrange(1000))
                    if len(tn.ind_map[ix]) == 2 else None))
        ops.append(("isel_inner", lambda: tn.isel_({ix: 0})))
        ops.append(("sum_reduce", lambda: tn.sum_reduce_(ix) if len(tn.ind_map[ix]) == 1 else None))
        ops.append(("expand_bond", lambda: tn.expand_bond_dimension_(4, rand_strength=0.0)))
    if outer:
        ox = pick(outer)
        ops.append(("isel_outer", lambda: tn.isel_({ox: 0})))
        d = tn.ind_size(ox)
        G = np.arange(d * d, dtype=float).reshape(d, d) + np.eye(d)
        ops.append(("gate_inds", lambda: tn.gate_inds_(G, [ox], contract=rng.choice([True, False]))))
        if len(outer) >= 2:
            o2 = pick([o for o in outer if o != ox])
            d2 = tn.ind_size(o2)
            G2 = (np.arange((d * d2) ** 2, dtype=float).reshape(d * d2, d * d2) % 5) + np.eye(d * d2)
            how = rng.choice([False, True, "split", "reduce-split"])
            ops.append(("gate_inds2:" + str(how), lambda: tn.gate_inds_(G2, [ox, o2], contract=how)))
    tg = pick(ttags) if ttags else None
    if tg is not None:
        def split():
            t = tn[tg]
            if isinstance(t, tuple) or t.ndim < 2:
                return None
            tn.split_tensor(tg, left_inds=[t.inds[0]], method=rng.choice(["qr", "svd"]), cutoff=0.0)
        ops.append(("split_tensor", split))

        def tfuse():
            t = tn[tg]
            if isinstance(t, tuple) or t.ndim < 2:
                return None
            cand = [ix for ix in t.inds if len(tn.ind_map[ix]) == 1]
            if len(cand) < 2:
                return None
            t.fuse_({"fz%d" % rng.randrange(10000): cand[:2]})
        ops.append(("tensor_fuse", tfuse))

        def tnewind():
            t = tn[tg]
            if isinstance(t, tuple):
                return None
            t.new_ind("ni%d" % rng.randrange(10000), size=rng.choice([1, 2]))
        ops.append(("tensor_new_ind", tnewind))

        def ttranspose():
            t = tn[tg]
            if isinstance(t, tuple) or t.ndim < 2:
                return None
            t.transpose_(*reversed(t.inds))
        ops.append(("tensor_transpose", ttranspose))

        def tsqueeze():
            t = tn[tg]
            if isinstance(t, tuple):
                return None
            t.squeeze_()
        ops.append(("tensor_squeeze", tsqueeze))
    ops.append(("squeeze", lambda: tn.squeeze_()))
    ops.append(("fuse_multibonds", lambda: tn.fuse_multibonds_()))
    ops.append(("rank_simplify", lambda: tn.rank_simplify_() if not any(len(v) > 2 for v in tn.ind_map.values()) else None))
    ops.append(("conj", lambda: tn.conj_()))
    ops.append(("mangle_inner", lambda: tn.mangle_inner_()))
    ops.append(("multiply", lambda: tn.multiply_(2.0)))
    ops.append(("equalize_norms", lambda: tn.equalize_norms_(1.0)))
    ops.append(("retag_reindex", lambda: (tn.retag_({"A": "B"}) if "A" in tn.tag_map else None,
                                        tn.reindex_({ix: ix + "r" for ix in list(tn.ind_map)[:1]}))))
    return ops


def numeric_stream(ctx):
    import quimb.tensor as qtn

    rng = ctx.rng
    for it in range(ctx.n(150, 1000)):
        tn, _ = random_network(rng, qtn, rng.randint(2, 5), hyper=(rng.random() < 0.15))
        views = []
        trace = []
        for step in range(rng.randint(2, 7)):
            # views / copies that must stay exact while the main network is rewritten
            if rng.random() < 0.4 and tn.tensor_map:
                kind = rng.randrange(4)
                if kind == 0:
                    views.append(("copy_virtual", tn.copy(virtual=True)))
                elif kind == 1 and tn.tag_map:
                    g = rng.choice(list(tn.tag_map))
                    views.append(("select:" + g, tn.select(g, virtual=True)))
                elif kind == 1:
                    views.append(("copy_virtual", tn.copy(virtual=True)))
                elif kind == 2:
                    views.append(("copy", tn.copy()))
                else:
                    views.append(("pickle", pickle.loads(pickle.dumps(tn))))
                if len(views) > 3:
                    views.pop(0)
                    if rng.random() < 0.3:
                        gc.collect()
            ops = numeric_ops(rng, qtn, tn)
            if any(len(v) > 2 for v in tn.ind_map.values()):
                # hyper-indices: decompositions / pairwise gates are documented for ordinary networks only
                safe = ("isel_inner", "isel_outer", "conj", "multiply", "retag_reindex", "tensor_transpose",
                        "tensor_new_ind", "squeeze", "tensor_squeeze", "new_bond", "tensor_fuse")
                ops = [o for o in ops if o[0] in safe]
            if not ops:
                break
            name, thunk = rng.choice(ops)
            before = {str(tid): [list(t.inds), list(t.shape), sorted(t.tags)] for tid, t in tn.tensor_map.items()}
            try:
                thunk()
            except Exception as e:
                ctx.bump("numeric_op_raised:" + name.split(":")[0])
                trace.append(name + "!" + type(e).__name__)
                break
            trace.append(name)
            ctx.bump("numeric:" + name.split(":")[0])
            ctx.count(("numeric", it, step, name), True)
            bad = [("main", p) for p in net_problems(tn)]
            for vn, v in views:
                bad += [(vn, p) for p in net_problems(v, view=(vn == "copy_virtual" or vn.startswith("select")))]
            if bad:
                where, what = bad[0]
                rep = any(len(set(t.inds)) != len(t.inds) for t in tn)
                key = f"numeric:{name.split(':')[0]}:{what.split(':')[0]}" + (":repeated_label" if rep else "")
                if rep and what == "inner_outer":
                    key = "inner_outer:repeated_label"
                ctx.violation(key, f"after {' -> '.join(trace)} the {where} network's {what} disagrees with a fresh scan",
                              {"stream": "numeric", "iteration": it, "trace": trace, "seed": ctx.seed, "last_op": name,
                               "tensors_before_last_op": before,
                               "tensors_after": {str(tid): [list(t.inds), list(t.shape), sorted(t.tags)]
                                                 for tid, t in tn.tensor_map.items()}})
                break


def combine_stream(ctx):
    """a | b, a & b, add_tensor_network(check_collisions=True): no two distinct
    inner bonds coincide afterwards, no outer label is renamed"""
    import quimb.tensor as qtn

    rng = ctx.rng
    for it in range(ctx.n(200, 1500)):
        a, _ = random_network(rng, qtn, rng.randint(1, 4))
        mode = rng.randrange(3)
        if mode == 0:
            b = a.copy()  # every inner bond clashes; outer labels are shared on purpose
        elif mode == 1:
            b, _ = random_network(rng, qtn, rng.randint(1, 4))
        else:
            b = a.copy()
            b.reindex_({ix: ix + "x" for ix in list(b.outer_inds())[: rng.randint(0, 2)]})
        # domain: an inner bond of one operand is not an outer label of the other, sizes agree on shared labels
        if set(a.inner_inds()) & set(b.outer_inds()) or set(b.inner_inds()) & set(a.outer_inds()):
            continue
        if any(a.ind_size(ix) != b.ind_size(ix) for ix in set(a.ind_map) & set(b.ind_map)):
            continue
        virtual = rng.random() < 0.5
        a_inner, b_inner = list(a.inner_inds()), list(b.inner_inds())
        a_outer, b_outer = set(a.outer_inds()), set(b.outer_inds())
        b_before = {tid: tuple(t.inds) for tid, t in b.tensor_map.items()}
        a_before = {tid: tuple(t.inds) for tid, t in a.tensor_map.items()}
        how = rng.randrange(4)
        try:
            if how == 3:
                c = a.copy(virtual=virtual)
                if virtual:
                    c |= b
                else:
                    c &= b
            elif how == 0:
                c = (a | b) if virtual else (a & b)
            elif how == 1:
                c = a.copy(virtual=virtual)
                c.add_tensor_network(b, virtual=virtual, check_collisions=True)
            else:
                c = qtn.TensorNetwork([a, b], virtual=virtual)
        except Exception as e:
            ctx.violation("combine:raised", f"combining raised {type(e).__name__}: {e}"[:300], {"stream": "combine", "iteration": it})
            continue
        ctx.count(("combine", it), bool(set(a_inner) & set(b_inner)))
        ctx.bump("combine:" + ("clash" if set(a_inner) & set(b_inner) else "noclash"))
        cts = list(c.tensor_map.values())
        na = len(a.tensor_map)
        ca, cb = cts[:na], cts[na:]
        problems = []
        # the first operand is untouched
        for t, (tid, inds) in zip(ca, a_before.items()):
            if tuple(t.inds) != inds:
                problems.append(f"label of the first operand renamed: {inds} -> {t.inds}")
        # the second operand: one consistent injective renaming, identity on its outer labels,
        # fresh names for its inner bonds that clashed
        ren = {}
        for t, (tid, inds) in zip(cb, b_before.items()):
            for old, new in zip(inds, t.inds):
                if ren.setdefault(old, new) != new:
                    problems.append(f"label {old} renamed inconsistently")
        if len(set(ren.values())) != len(ren):
            problems.append("two distinct labels of the second operand now coincide")
        for old, new in ren.items():
            if old in b_outer and new != old:
                problems.append(f"outer label {old} renamed to {new}")
            if old in b_inner and (new in a_inner or new in a_outer):
                problems.append(f"inner bond {old} of the second operand coincides with label {new} of the first")
        for ix in a_inner:
            if len(c.ind_map.get(ix, ())) != len(a.ind_map[ix]):
                problems.append(f"inner bond {ix} of the first operand now joins {len(c.ind_map.get(ix, ()))} tensors")
        for tnx, nm in ((c, "result"), (a, "first operand"), (b, "second operand")):
            for p in net_problems(tnx):
                problems.append(f"{nm}: {p} disagrees with a fresh scan")
        if problems:
            ctx.violation("combine:" + ("view" if virtual else "copy"), problems[0][:300],
                          {"stream": "combine", "iteration": it, "virtual": virtual, "how": how,
                           "a": [list(v) for v in a_before.values()], "b": [list(v) for v in b_before.values()]})


# ----------------------------------------------------------------------------
# quimb.utils.oset against the list model of coq/C02/OSet.v


def ref_oset_step(S, op):
    """independent reference (plain lists): returns (ok, result); mutates S"""
    n, a = op[0], op[1:]

    def uniq(l):
        return list(dict.fromkeys(l))

    def val(x):
        return S[x[1]] if x[0] == "R" else list(x[1])

    if n == "ONew":
        S[a[0]] = uniq(a[1])
    elif n == "OCopy":
        S[a[0]] = list(S[a[1]])
    elif n == "OAdd":
        if a[1] not in S[a[0]]:
            S[a[0]] = S[a[0]] + [a[1]]
    elif n == "ODiscard":
        S[a[0]] = [x for x in S[a[0]] if x != a[1]]
    elif n == "ORemove":
        if a[1] not in S[a[0]]:
            return False, 0
        S[a[0]] = [x for x in S[a[0]] if x != a[1]]
    elif n == "OClear":
        S[a[0]] = []
    elif n in ("OUpdate", "OUnion"):
        d, r, args = (a[0], a[0], a[1]) if n == "OUpdate" else a
        vals = [list(val(x)) for x in args]
        out = list(S[r])
        for v in vals:
            for x in v:
                if x not in out:
                    out.append(x)
        S[d] = out
    elif n in ("OInterUpd", "OInter"):
        d, r, args = (a[0], a[0], a[1]) if n == "OInterUpd" else a
        if n == "OInterUpd" and not args:
            return False, 0
        vals = [list(S[k]) for k in args]
        S[d] = [x for x in S[r] if all(x in v for v in vals)]
    elif n in ("ODiffUpd", "ODiff"):
        d, r, args = (a[0], a[0], a[1]) if n == "ODiffUpd" else a
        if not args:
            return False, 0
        vals = [list(S[k]) for k in args]
        S[d] = [x for x in S[r] if not any(x in v for v in vals)]
    elif n == "OPopLeft":
        if not S[a[0]]:
            return False, 0
        x = S[a[0]][0]
        S[a[0]] = S[a[0]][1:]
        return True, x
    elif n == "OPopRight":
        if not S[a[0]]:
            return False, 0
        x = S[a[0]][-1]
        S[a[0]] = S[a[0]][:-1]
        return True, x
    elif n == "OContains":
        return True, int(a[1] in S[a[0]])
    elif n == "OLen":
        return True, len(S[a[0]])
    elif n == "OEq":
        return True, int(set(S[a[0]]) == set(S[a[1]]))
    else:
        raise HarnessError(n)
    return True, 0


def impl_oset_step(R, op, sp):
    """the same operation on quimb.utils.oset objects; `sp` selects a spelling"""
    from quimb.utils import oset

    n, a = op[0], op[1:]

    def val(x):
        return R[x[1]] if x[0] == "R" else (list(x[1]) if sp % 2 else tuple(x[1]))

    try:
        if n == "ONew":
            R[a[0]] = oset(a[1])
        elif n == "OCopy":
            src = R[a[1]]
            R[a[0]] = src.copy() if sp % 3 == 0 else (copy.deepcopy(src) if sp % 3 == 1 else oset.from_dict(src._d))
        elif n == "OAdd":
            R[a[0]].add(a[1])
        elif n == "ODiscard":
            R[a[0]].discard(a[1])
        elif n == "ORemove":
            R[a[0]].remove(a[1])
        elif n == "OClear":
            R[a[0]].clear()
        elif n == "OUpdate":
            vals = [val(x) for x in a[1]]
            if len(vals) == 1 and sp % 2:
                x = R[a[0]]
                x |= vals[0]
                if x is not R[a[0]]:
                    raise HarnessError("|= did not return self")
            else:
                R[a[0]].update(*vals)
        elif n == "OUnion":
            vals = [val(x) for x in a[2]]
            R[a[0]] = (R[a[1]] | vals[0]) if (len(vals) == 1 and sp % 2) else R[a[1]].union(*vals)
        elif n == "OInterUpd":
            vals = [R[k] for k in a[1]]
            if len(vals) == 1 and sp % 2:
                x = R[a[0]]
                x &= vals[0]
            else:
                R[a[0]].intersection_update(*vals)
        elif n == "OInter":
            vals = [R[k] for k in a[2]]
            R[a[0]] = (R[a[1]] & vals[0]) if (len(vals) == 1 and sp % 2) else R[a[1]].intersection(*vals)
        elif n == "ODiffUpd":
            vals = [R[k] for k in a[1]]
            if len(vals) == 1 and sp % 2:
                x = R[a[0]]
                x -= vals[0]
            else:
                R[a[0]].difference_update(*vals)
        elif n == "ODiff":
            vals = [R[k] for k in a[2]]
            R[a[0]] = (R[a[1]] - vals[0]) if (len(vals) == 1 and sp % 2) else R[a[1]].difference(*vals)
        elif n == "OPopLeft":
            return True, R[a[0]].popleft()
        elif n == "OPopRight":
            return True, (R[a[0]].popright() if sp % 2 else R[a[0]].pop())
        elif n == "OContains":
            return True, int(a[1] in R[a[0]])
        elif n == "OLen":
            return True, len(R[a[0]])
        elif n == "OEq":
            return True, int(R[a[0]] == R[a[1]]) if sp % 2 else int(not (R[a[0]] != R[a[1]]))
        else:
            raise HarnessError(n)
    except HarnessError:
        raise
    except (KeyError, IndexError, StopIteration):
        return False, 0
    return True, 0


def oop_coq(op):
    n, a = op[0], op[1:]

    def args(xs):
        return "[" + "; ".join((f"AReg {x[1]}" if x[0] == "R" else f"ARaw {nl(x[1])}") for x in xs) + "]"

    if n == "ONew":
        return f"ONew {a[0]} {nl(a[1])}"
    if n in ("OCopy", "OAdd", "ODiscard", "ORemove", "OContains", "OEq"):
        return f"{n} {a[0]} {a[1]}"
    if n in ("OClear", "OPopLeft", "OPopRight", "OLen"):
        return f"{n} {a[0]}"
    if n == "OUpdate":
        return f"OUpdate {a[0]} {args(a[1])}"
    if n == "OUnion":
        return f"OUnion {a[0]} {a[1]} {args(a[2])}"
    if n in ("OInterUpd", "ODiffUpd"):
        return f"{n} {a[0]} {nl(a[1])}"
    if n in ("OInter", "ODiff"):
        return f"{n} {a[0]} {a[1]} {nl(a[2])}"
    raise HarnessError(n)


def gen_oop(rng):
    r = lambda: rng.randrange(4)  # noqa: E731
    x = lambda: rng.randrange(8)  # noqa: E731
    regs = lambda lo: [r() for _ in range(rng.randint(lo, 4))]  # noqa: E731
    kind = rng.choice(["ONew", "OCopy", "OAdd", "OAdd", "ODiscard", "ORemove", "OClear", "OUpdate", "OUpdate", "OUnion",
                       "OUnion", "OInterUpd", "OInter", "OInter", "OInter", "ODiffUpd", "ODiff", "ODiff", "OPopLeft",
                       "OPopRight", "OContains", "OLen", "OEq"])
    if kind == "ONew":
        return (kind, r(), [x() for _ in range(rng.randint(0, 6))])
    if kind in ("OCopy", "OEq"):
        return (kind, r(), r())
    if kind in ("OAdd", "ODiscard", "ORemove", "OContains"):
        return (kind, r(), x())
    if kind in ("OClear", "OPopLeft", "OPopRight", "OLen"):
        return (kind, r())
    if kind in ("OUpdate", "OUnion"):
        args = [("R", r()) if rng.random() < 0.6 else ("L", [x() for _ in range(rng.randint(0, 4))])
                for _ in range(rng.randint(0, 4))]
        return (kind, r(), args) if kind == "OUpdate" else (kind, r(), r(), args)
    if kind in ("OInterUpd", "ODiffUpd"):
        return (kind, r(), regs(0))
    return (kind, r(), r(), regs(0))


def oset_stream(ctx):
    from quimb.utils import oset

    rng = ctx.rng
    cases, info = [], {}
    for cid in range(200001, 200001 + ctx.n(100, 800)):
        R = [oset() for _ in range(4)]
        S = [[] for _ in range(4)]
        ops, exp = [], []
        for step in range(rng.randint(5, 24)):
            op = gen_oop(rng)
            sp = rng.randrange(6)
            ok_i, res_i = impl_oset_step(R, op, sp)
            ok_r, res_r = ref_oset_step(S, op)
            ops.append(op)
            got = [list(x) for x in R]
            if any(len(set(g)) != len(g) for g in got):
                raise HarnessError("oset iterates a key twice")
            exp.append("0x%x" % fingerprint([int(ok_i), int(res_i)] + [v for g in got for v in [len(g)] + g]))
            ctx.bump("oset:" + op[0])
            arity = len(op[-1]) if isinstance(op[-1], list) and op[0] not in ("ONew",) else None
            ctx.count(("oset", cid, step), arity is not None and arity >= 2)
            if (ok_i, res_i, got) != (ok_r, res_r, S):
                key = "oset:" + op[0] + (":nary" if arity is not None and arity >= 2 else "")
                ctx.violation(key, f"oset {op[0]} with {arity} argument(s): implementation gives ok={ok_i} result={res_i} "
                                   f"{got}, ordered-set reference gives ok={ok_r} result={res_r} {S}"[:400],
                              {"stream": "oset", "ops": jsonable_ops(ops), "spelling": sp})
                break
        info[cid] = {"ops": ops}
        cases.append((cid, "(ocheck [" + "; ".join(oop_coq(o) for o in ops) + "]%nat [" + "; ".join(exp) + "]%Z)"))
    return cases, info


def compress1d_stream(ctx):
    """in-place 1D compression rebuilds the network through remove_all_tensors(): the tensors it dropped (kept alive
    by a view / a user reference) must stop notifying it; afterwards labels / tags are changed through them"""
    import quimb.tensor as qtn

    rng = ctx.rng
    methods = ["dm", "zipup", "zipup-first", "fit", "src", "direct"]
    for it in range(ctx.n(12, 60)):
        L = rng.randint(3, 5)
        method = methods[it % len(methods)]
        kind = rng.randrange(2)
        seed = rng.randrange(10**6)
        try:
            tn = qtn.MPS_rand_state(L, 4, seed=seed) if kind == 0 else qtn.MPO_rand_herm(L, 3, seed=seed)
            old = list(tn.tensor_map.values())
            how = rng.randrange(3)
            view = tn.copy(virtual=True) if how == 0 else (tn.select(tn.site_tag(0), virtual=True) if how == 1 else None)
            qtn.tensor_network_1d_compress(tn, max_bond=2, method=method, inplace=True)
        except Exception as e:
            ctx.bump("compress1d_raised:" + method + ":" + type(e).__name__)
            continue
        ctx.bump("compress1d:" + method)
        ctx.count(("compress1d", it, method, kind, how), True)
        stages = [("after the in-place compression", None)]
        t_old = old[rng.randrange(len(old))] if how != 1 else old[0]
        stages.append(("after renaming a label of a tensor the network dropped", lambda: t_old.reindex_({t_old.inds[-1]: "zz_renamed"})))
        stages.append(("after retagging a tensor the network dropped", lambda: t_old.retag_({next(iter(t_old.tags)): "ZZ"})))
        for label, thunk in stages:
            if thunk is not None:
                thunk()
            bad = [("compressed network", p) for p in net_problems(tn)]
            held = {id(t) for t in tn.tensor_map.values()}
            for t in old:
                if id(t) not in held and any(ref() is tn for ref, _ in t._owners.values()):
                    bad.append(("compressed network", "owners"))
                    break
            if view is not None:
                bad += [("view", p) for p in net_problems(view, view=True)]
            if bad:
                where, what = bad[0]
                ctx.violation(f"compress1d_inplace:{what.split(':')[0]}",
                              f"tensor_network_1d_compress(method={method!r}, inplace=True) on a {'MPS' if kind == 0 else 'MPO'} "
                              f"with its old tensors kept alive: {label} the {where}'s {what} disagrees with a fresh scan",
                              {"stream": "compress1d", "L": L, "method": method, "kind": kind, "view": how, "seed": seed})
                break

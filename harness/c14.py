"""C14 - belief propagation is exact on trees and its marginals are consistent.

Proof part (coq/C14): combine_local_contractions' mantissa/exponent bookkeeping
over any field; sum-product BP on rooted tensor trees over any commutative ring:
exact messages, Bethe identity for any normalisation scalars, index / tensor
marginals, schedule independence for every fair schedule, damping-invariant
fixed point, hyper-index = copy tensor, forests, Bethe through combine.
Tie (H): the model is evaluated inside Coq (vm_compute, K = Z) on the trees the
implementation ran on: exact contraction value; D1BP / HD1BP run with the
identity as normalisation give exact integer messages which must EQUAL the
model's exact messages (converged) and raw update (one parallel round, one
sequential round in the recorded order, HD1BP's two half steps) ; normalised
runs (L1/L2/Linf, damping, schedules) are compared inside Coq by integer
cross-multiplication at relative 1e-9 (float division is unavoidable);
combine_local_contractions is compared exactly on +-10^k inputs; the two factors
D2BP.gauge_insert builds from a boundary message (sqrt factor, its inverse; smudge,
power) are compared entrywise with coq/C14/GaugeModel.v at 1e-9 on real and complex
messages (proved: inverse . sqrt = 1 for every unitary W and spectrum, gate_ +
un-gate_ = identity on every fibre, the gauged patch sees the identity environment).
Oracle (tests / searcher, tolerance 1e-8 relative + 1e-10 of the absolute
scale): every flavour on random acyclic geometries against an independent
numpy einsum reference; the temporary BP gauge (gauge_insert raw / inverse,
gauge_temp, TensorNetwork.gauge_insert(bp), gate_ without truncation + re-run) on
random real / complex tree states.
"""

import math
import warnings
from fractions import Fraction

import numpy as np

from harness.common import natlist, natlit, zlist, zlit

RULE = (
    "random acyclic factor graphs: 1-9 tensors, 1-3 components, bond sizes 1-3, optional hyper-edges (index on "
    ">=3 tensors), dangling indices and rank-0 tensors; data: positive integers (exact streams), positive / signed "
    "/ complex floats (oracle); options: update in {parallel, sequential}, damping in {0, 0.3}, local_convergence, "
    "normalize in {L1, L2, Linf, identity}, random initial messages. Temporary BP gauge: random tree / forest states (2-7 "
    "sites, bonds 1-3, physical 2-3, extra output indices; complex / signed / positive-integer data), random patch "
    "(connected or not), return_gauges in {raw, inverse}, smudge in {0, 1e-12, 1e-3}, power in {1, 2, 0.5}, entry in "
    "{D2BP.gauge_insert, TensorNetwork.gauge_insert}, gauge_temp(ungauge_outer), up to two gate_ calls (one- / two-site, either "
    "site order, non-unitary G) with BP re-run in between. Non-trivial: >= 3 tensors and some bond > 1."
)

IDENT = lambda x: x  # noqa: E731  normalisation that keeps integer messages exact


# ----------------------------------------------------------------------------
# geometry / data generators (everything from one numpy Generator per case)


def gen_struct(rng, ntens, hyper=False, dangling=0, ncomp=1, dims=(1, 2, 3), uniform=None, scalars=0, min_rank1=False):
    tens, dim, nix = [], {}, [0]

    def newix():
        nm = f"b{nix[0]}"
        nix[0] += 1
        dim[nm] = uniform if uniform else int(rng.choice(dims))
        return nm

    ncomp = max(1, min(ncomp, ntens))
    sizes = [1] * ncomp
    for _ in range(ntens - ncomp):
        sizes[int(rng.integers(0, ncomp))] += 1
    for sz in sizes:
        mem = [len(tens)]
        tens.append([])
        for _ in range(sz - 1):
            p = mem[int(rng.integers(0, len(mem)))]
            new = len(tens)
            tens.append([])
            if hyper and tens[p] and rng.random() < 0.4:
                ix = tens[p][int(rng.integers(0, len(tens[p])))]
            else:
                ix = newix()
                tens[p].append(ix)
            tens[new].append(ix)
            mem.append(new)
    for _ in range(dangling):
        t = int(rng.integers(0, len(tens)))
        tens[t].append(newix())
    if min_rank1:
        for t in tens:
            if not t:
                t.append(newix())
    for _ in range(scalars):
        tens.append([])
    for t in tens:
        rng.shuffle(t)
    return tens, dim


def gen_data(rng, shape, kind):
    if kind == "posint":
        return rng.integers(1, 4, size=shape).astype(float)
    if kind == "pos":
        return rng.uniform(0.2, 1.5, size=shape)
    if kind == "signed":
        return rng.normal(size=shape)
    if kind == "complex":
        return rng.normal(size=shape) + 1j * rng.normal(size=shape)
    raise ValueError(kind)


def build_tn(tens, datas, tags=None):
    import quimb.tensor as qtn

    ts = []
    for i, (ix, d) in enumerate(zip(tens, datas)):
        ts.append(qtn.Tensor(np.array(d), tuple(ix), tags=[tags[i]] if tags else [f"I{i}"]))
    return qtn.TensorNetwork(ts)


def einsum_ref(tens, dim, datas, out=()):
    """independent reference: plain numpy einsum over integer labels"""
    names = sorted(dim)
    lab = {n: i for i, n in enumerate(names)}
    ops = []
    for ix, d in zip(tens, datas):
        ops += [np.asarray(d), [lab[n] for n in ix]]
    return np.einsum(*ops, [lab[n] for n in out], optimize="greedy")


def close(v, ex, scale, rt=1e-8):
    try:
        v = complex(v)
    except Exception:
        return False
    if not (math.isfinite(v.real) and math.isfinite(v.imag)):
        return False
    return abs(v - ex) <= rt * abs(ex) + 1e-10 * scale


def nontrivial(tens, dim):
    return len(tens) >= 3 and any(d > 1 for d in dim.values())


def tids_of(tn):
    """tensor ids in the order the tensors were supplied (tag I<k>)"""
    out = {}
    for tid, t in tn.tensor_map.items():
        (tag,) = [g for g in t.tags if g.startswith("I")]
        out[int(tag[1:])] = tid
    return out


# ----------------------------------------------------------------------------
# rooted tree for the Coq model


class RNode:
    __slots__ = ("key", "kind", "d", "dims", "data", "children", "path", "edge", "parent")


def root_component(nodes, root, rng):
    """nodes: key -> (kind, legs [(edge, neighbour key, dim)] in array-axis order, data or None).
    Returns the rooted tree (RNode) with legs [parent; children...]; the root gets a dummy top leg of size 1."""

    def rec(key, parent_edge, parent_key, path):
        kind, legs, data = nodes[key]
        n = RNode()
        n.key, n.kind, n.path, n.edge, n.parent = key, kind, path, parent_edge, parent_key
        ch = [(i, l) for i, l in enumerate(legs) if l[0] != parent_edge]
        order = list(range(len(ch)))
        rng.shuffle(order)
        ch = [ch[i] for i in order]
        if parent_edge is None:
            n.d = 1
            axes = [i for i, _ in ch]
            n.dims = [1] + [l[2] for _, l in ch]
            if data is not None:
                n.data = np.transpose(np.asarray(data), axes).reshape(n.dims)
        else:
            (pi,) = [i for i, l in enumerate(legs) if l[0] == parent_edge]
            n.d = legs[pi][2]
            axes = [pi] + [i for i, _ in ch]
            n.dims = [legs[i][2] for i in axes]
            if data is not None:
                n.data = np.transpose(np.asarray(data), axes)
        if data is None:
            n.data = None
        n.children = [rec(l[1], l[0], key, path + [j]) for j, (_, l) in enumerate(ch)]
        return n

    return rec(root, None, None, [])


def preorder(n):
    out = [n]
    for c in n.children:
        out += preorder(c)
    return out


def coq_tree(n):
    if n.kind == "copy":
        T = "ZdeltaT"
    else:
        flat = [int(x) for x in np.asarray(n.data).reshape(-1)]
        T = f"(tensor_of {natlist(n.dims)} {zlist(flat)})"
    cs = "FNil"
    for c in reversed(n.children):
        cs = f"(FCons {coq_tree(c)} {cs})"
    return f"(Node {natlit(n.d)} {T} {cs})"


def components(tens):
    """connected components of the tensor/index incidence graph (lists of tensor numbers)"""
    owner = {}
    comp = list(range(len(tens)))

    def find(a):
        while comp[a] != a:
            comp[a] = comp[comp[a]]
            a = comp[a]
        return a

    for i, ix in enumerate(tens):
        for n in ix:
            if n in owner:
                comp[find(i)] = find(owner[n])
            else:
                owner[n] = i
    groups = {}
    for i in range(len(tens)):
        groups.setdefault(find(i), []).append(i)
    return list(groups.values())


def plain_nodes(tens, dim, datas, members):
    """tensor-only node graph of one component of a network without hyper / dangling indices"""
    nodes = {}
    for i in members:
        legs = []
        for n in tens[i]:
            (other,) = [j for j in members if j != i and n in tens[j]]
            legs.append((n, other, dim[n]))
        nodes[i] = ("tensor", legs, datas[i])
    return nodes


def factor_nodes(tens, dim, datas, members):
    """tensor nodes + one copy node per index (hyper graph as factor graph)"""
    nodes = {}
    inds = []
    for i in members:
        for n in tens[i]:
            if n not in inds:
                inds.append(n)
    for i in members:
        nodes[("t", i)] = ("tensor", [((i, n), ("x", n), dim[n]) for n in tens[i]], datas[i])
    for n in inds:
        nodes[("x", n)] = ("copy", [((i, n), ("t", i), dim[n]) for i in members if n in tens[i]], None)
    return nodes


HEADER = r"""
From Coq Require Import ZArith List Bool QArith Qabs.
From QV Require Import C14.GaugeModel.
From QV Require Import C14.Model.
Import ListNotations.
Close Scope Q_scope.
Open Scope Z_scope.
Definition row := (list nat * list Z * list Z)%type.
Definition mid := (list nat * bool)%type.
Fixpoint zl_eqb (a b : list Z) : bool := match a, b with [], [] => true | x :: a', y :: b' => (x =? y) && zl_eqb a' b' | _, _ => false end.
Fixpoint nl_eqb (a b : list nat) : bool := match a, b with [], [] => true | x :: a', y :: b' => Nat.eqb x y && nl_eqb a' b' | _, _ => false end.
Fixpoint tbl_eqb (a b : list row) : bool :=
  match a, b with
  | [], [] => true
  | (p, u, d) :: a', (p', u', d') :: b' => nl_eqb p p' && zl_eqb u u' && zl_eqb d d' && tbl_eqb a' b'
  | _, _ => false
  end.
Fixpoint argmax (v : list Z) (i best : nat) (bv : Z) : nat :=
  match v with [] => best | x :: r => if bv <? Z.abs x then argmax r (S i) i (Z.abs x) else argmax r (S i) best bv end.
(* M (implementation, scaled to integers) is proportional to v (model) at relative 1e-9 *)
Definition prop9 (v M : list Z) : bool :=
  Nat.eqb (length v) (length M) &&
  (let r := argmax v 0%nat 0%nat (-1) in
   let vr := nth r v 0 in let Mr := nth r M 0 in
   negb (vr =? 0) && negb (Mr =? 0) &&
   forallb (fun k => Z.abs (nth k M 0 * vr - Mr * nth k v 0) * 1000000000 <=? Z.abs (Mr * vr)) (seq 0 (length v))).
Fixpoint tbl_prop9 (a b : list row) : bool :=
  match a, b with
  | [], [] => true
  | (p, u, d) :: a', (p', u', d') :: b' => nl_eqb p p' && prop9 u u' && prop9 d d' && tbl_prop9 a' b'
  | _, _ => false
  end.
(* num/den = V at relative 1e-9 *)
Definition close9 (num den V : Z) : bool := Z.abs (num - V * den) * 1000000000 <=? Z.abs (V * den).
Fixpoint assoc_or (l : list (mid * list Z)) (s : list nat -> bool -> nat -> Z) (q : list nat) (b : bool) : nat -> Z :=
  match l with
  | [] => s q b
  | ((q', b'), m) :: r => if path_eqb q q' && Bool.eqb b b' then vec_of m else assoc_or r s q b
  end.
Definition state_of (tb : list row) : list nat -> bool -> nat -> Z :=
  assoc_or (flat_map (fun r : row => let '(p, u, d) := r in [((p, true), u); ((p, false), d)]) tb) (fun _ _ _ => 0).
Definition bd (t : ttree Z) (q : list nat) : nat := match Zsub t q with Some c => ndim Z c | None => 0%nat end.
(* one step: the messages `ids` are recomputed together from the state s *)
Definition step_set (t : ttree Z) (s : list nat -> bool -> nat -> Z) (ids : list mid) : list nat -> bool -> nat -> Z :=
  let new := map (fun id : mid => (id, tab (bd t (fst id)) (Zraw t s (fst id) (snd id)))) ids in
  assoc_or new s.
Definition tbl_of (t : ttree Z) (s : list nat -> bool -> nat -> Z) : list row :=
  map (fun qc => (fst qc, tab (ndim Z (snd qc)) (s (fst qc) true), tab (ndim Z (snd qc)) (s (fst qc) false))) (tl (nodesT [] t)).
Definition run_steps (t : ttree Z) (s : list nat -> bool -> nat -> Z) (steps : list (list mid)) := fold_left (step_set t) steps s.
(* exact marginals *)
Definition bond_marg_exact (t : ttree Z) (q : list nat) : list Z :=
  match Zsub t q with Some c => tab (ndim Z c) (fun x => ZupT c x * ZdnT t q x) | None => [] end.
(* p_k = P_k / den must equal e_k / V at relative 1e-9 of each entry *)
Definition marg9 (e P : list Z) (den V : Z) : bool :=
  Nat.eqb (length e) (length P) &&
  forallb (fun k => Z.abs (nth k P 0 * V - nth k e 0 * den) * 1000000000 <=? Z.abs (nth k e 0 * den)) (seq 0 (length e)).
Definition node_marg_exact (t : ttree Z) (q : list nat) (idx : list nat) : Z :=
  match Zsub t q with Some c => node_marg Z 1 Z.mul (Zexact t) q c idx | None => 0 end.
(* combine_local_contractions over Q, exponents in Z *)
Definition qpow10 (e : Z) : Q := Qpower (10 # 1)%Q e.
Fixpoint qlog10_search (x : Q) (k : Z) (fuel : nat) : Z :=
  match fuel with O => 0%Z | S f => if Qeq_bool (qpow10 k) x then k else qlog10_search x (k + 1)%Z f end.
Definition qlog10 (x : Q) : Z := qlog10_search x (-12)%Z 25%nat.
Definition qcombine := combine Q 0%Q 1%Q Qmult Qdiv Qinv Qabs Qeq_bool Z Z.add Z.mul qlog10.
Definition cres_is (r : cres Q Z) (kind : Z) (m : Q) (e : Z) : bool :=
  match r with
  | CZero _ _ => (kind =? 0)%Z
  | CNaN _ _ => (kind =? 2)%Z
  | CVal _ _ m' e' => (kind =? 1)%Z && Qeq_bool m m' && (e =? e')%Z
  end.
"""


def tbl_lit(rows):
    return "[" + "; ".join(f"({natlist(p)}, {zlist(u)}, {zlist(d)})" for p, u, d in rows) + "]"


def ids_lit(ids):
    return "[" + "; ".join(f"({natlist(p)}, {'true' if b else 'false'})" for p, b in ids) + "]"


def as_int_vec(v):
    """exact integer vector of a float array holding integers (None if not integral / too large)"""
    a = np.asarray(v, dtype=float).reshape(-1)
    out = []
    for x in a:
        if not math.isfinite(x) or x != math.floor(x) or abs(x) >= 2**53:
            return None
        out.append(int(x))
    return out


def scaled_int_vec(v):
    """float vector -> integer vector proportional to it, exactly (common power-of-two denominator)"""
    fr = [Fraction(float(x)) for x in np.asarray(v, dtype=float).reshape(-1)]
    den = 1
    for f in fr:
        den = den * f.denominator // math.gcd(den, f.denominator)
    return [int(f * den) for f in fr]


# ----------------------------------------------------------------------------
# message tables of the implementation in the model's bond order


def d1_table(root, msgs, tid, conv):
    rows = []
    for n in preorder(root)[1:]:
        up = conv(msgs[n.edge, tid[n.parent]])
        dn = conv(msgs[n.edge, tid[n.key]])
        if up is None or dn is None:
            return None
        rows.append((n.path, up, dn))
    return rows


def hd_keys(n, tid):
    """(key of the up message, key of the down message) of the bond above factor-graph node n"""
    i, ix = n.edge
    if n.kind == "tensor":  # parent is the copy node of ix
        return (tid[i], ix), (ix, tid[i])
    return (ix, tid[i]), (tid[i], ix)


def hd_table(root, msgs, tid, conv):
    rows = []
    for n in preorder(root)[1:]:
        ku, kd = hd_keys(n, tid)
        up, dn = conv(msgs[ku]), conv(msgs[kd])
        if up is None or dn is None:
            return None
        rows.append((n.path, up, dn))
    return rows


# ----------------------------------------------------------------------------
# correspondence streams (evaluated inside Coq)


def corr_d1bp(ctx):
    """D1BP on forests of positive-integer tensor trees vs the tree model."""
    import quimb.tensor.belief_propagation.d1bp as d1mod
    from quimb.tensor.belief_propagation import D1BP

    cases, info = [], {}
    N = ctx.n(60, 1200)
    for it in range(N):
        seed = ctx.seed * 7919 + 14000 + it
        rng = np.random.default_rng(seed)
        n = int(rng.integers(1, 10))
        tens, dim = gen_struct(rng, n, ncomp=int(rng.integers(1, 4)))
        datas = [gen_data(rng, [dim[i] for i in ix], "posint") for ix in tens]
        tn = build_tn(tens, datas)
        tid = tids_of(tn)
        comps = components(tens)
        roots = []
        for mem in comps:
            nodes = plain_nodes(tens, dim, datas, mem)
            roots.append(root_component(nodes, mem[int(rng.integers(0, len(mem)))], rng))
        ctx.count(("d1corr", str(tens), str(sorted(dim.items()))), nontrivial(tens, dim))
        ctx.bump("corr_d1bp")
        V = as_int_vec([float(tn.contract(all, output_inds=()))])
        height = max(len(nd.path) for r in roots for nd in preorder(r))
        R = 2 * height + 2
        desc = {"stream": "corr_d1bp", "case_seed": seed, "tens": tens, "dim": dim}
        if it < 2:
            ctx.sample(desc)
        exprs = []
        trees = [coq_tree(r) for r in roots]
        # (i) exact value of the whole forest
        exprs.append("(" + " * ".join(f"Zvalue t{k}" for k in range(len(roots))) + f" =? {zlit(V[0])})")
        # (ii) identity-normalised runs converge to the exact messages, whatever the schedule
        upd = ["parallel", "sequential"][it % 2]
        lc = bool((it // 2) % 2)
        bp = D1BP(tn, normalize=IDENT, update=upd, local_convergence=lc)
        bp.run(max_iterations=R, tol=0.0)
        for k, r in enumerate(roots):
            tb = d1_table(r, bp.messages, tid, as_int_vec)
            if tb is None:
                ctx.bump("corr_skipped_not_integral")
                continue
            exprs.append(f"tbl_eqb (exact_table t{k}) {tbl_lit(tb)}")
        # (iii) one round from random integer messages: parallel = one step with all messages,
        #       sequential = one step per tensor (its outgoing messages), in the implementation's order
        init = {key: rng.integers(1, 4, size=np.shape(m)).astype(float) for key, m in bp.messages.items()}
        for mode in ("parallel", "sequential"):
            msgs = {k2: v.copy() for k2, v in init.items()}
            bq = D1BP(tn, messages=msgs, normalize=IDENT, update=mode, local_convergence=False)
            order = []
            real = d1mod.compute_all_tensor_messages_tree

            def spy(x, ms, backend=None, _order=order, _bq=bq):
                for tt, t in _bq.tn.tensor_map.items():
                    if t.data is x:
                        _order.append(tt)
                return real(x, ms, backend)

            d1mod.compute_all_tensor_messages_tree = spy
            try:
                bq.iterate(tol=0.0)
            finally:
                d1mod.compute_all_tensor_messages_tree = real
            inv = {v: k2 for k2, v in tid.items()}
            for k, r in enumerate(roots):
                nodes_r = preorder(r)
                t0 = d1_table(r, init, tid, as_int_vec)
                t1 = d1_table(r, bq.messages, tid, as_int_vec)
                if t1 is None or len(nodes_r) < 2:
                    continue
                bykey = {nd.key: nd for nd in nodes_r}
                if mode == "parallel":
                    steps = [[(nd.path, b) for nd in nodes_r[1:] for b in (True, False)]]
                else:
                    steps = []
                    for tt in order:
                        nd = bykey.get(inv[tt])
                        if nd is None:
                            continue
                        ids = ([(nd.path, True)] if nd.path else []) + [(c.path, False) for c in nd.children]
                        steps.append(ids)
                slit = "[" + "; ".join(ids_lit(s) for s in steps) + "]"
                exprs.append(f"tbl_eqb (tbl_of t{k} (run_steps t{k} (state_of {tbl_lit(t0)}) {slit})) {tbl_lit(t1)}")
        # (iv) normalised runs: messages proportional to the exact ones, value = exact value (1e-9)
        norm = ["L2", "L1", "Linf"][it % 3]
        damp = [0.0, 0.3][(it // 3) % 2]
        bn = D1BP(tn, normalize=norm, update=upd, local_convergence=lc, damping=damp)
        bn.run(max_iterations=90 if damp else R, tol=0.0)
        for k, r in enumerate(roots):
            tb = d1_table(r, bn.messages, tid, scaled_int_vec)
            exprs.append(f"tbl_prop9 (exact_table t{k}) {tbl_lit(tb)}")
        val = Fraction(float(bn.contract()))
        exprs.append(
            f"close9 {zlit(val.numerator)} {zlit(val.denominator)} ("
            + " * ".join(f"Zvalue t{k}" for k in range(len(roots)))
            + ")"
        )
        body = " && ".join(f"({e})" for e in exprs)
        lets = "".join(f"let t{k} := {tr} in " for k, tr in enumerate(trees))
        cid = it + 1
        info[cid] = desc
        cases.append((cid, lets + body))
    return cases, info


def corr_hd1bp(ctx):
    """HD1BP (hyper-edges, dangling indices) vs the model with one copy tensor per index."""
    from quimb.tensor.belief_propagation import HD1BP
    from quimb.tensor.belief_propagation.bp_common import (
        compute_all_index_marginals_from_messages,
        compute_tensor_marginal,
    )

    cases, info = [], {}
    N = ctx.n(40, 800)
    for it in range(N):
        seed = ctx.seed * 7919 + 24000 + it
        rng = np.random.default_rng(seed)
        n = int(rng.integers(1, ctx.n(7, 8)))
        tens, dim = gen_struct(rng, n, hyper=True, dangling=int(rng.integers(0, 3)), ncomp=int(rng.integers(1, 3)),
                               min_rank1=True)
        datas = [gen_data(rng, [dim[i] for i in ix], "posint") for ix in tens]
        tn = build_tn(tens, datas)
        tid = tids_of(tn)
        comps = components(tens)
        roots = []
        for mem in comps:
            nodes = factor_nodes(tens, dim, datas, mem)
            keys = [k2 for k2 in nodes if k2[0] == "t"]  # root at a tensor (the dummy top leg is not a copy leg)
            roots.append(root_component(nodes, keys[int(rng.integers(0, len(keys)))], rng))
        ctx.count(("hdcorr", str(tens), str(sorted(dim.items()))), nontrivial(tens, dim))
        ctx.bump("corr_hd1bp")
        V = as_int_vec([float(einsum_ref(tens, dim, datas))])
        desc = {"stream": "corr_hd1bp", "case_seed": seed, "tens": tens, "dim": dim}
        if it < 2:
            ctx.sample(desc)
        trees = [coq_tree(r) for r in roots]
        exprs = ["(" + " * ".join(f"Zvalue t{k}" for k in range(len(roots))) + f" =? {zlit(V[0])})"]
        # one iterate from random integer messages = two half steps (index messages, then tensor messages)
        keys = [(tid[i], ix) for i, t in enumerate(tens) for ix in t] + [(ix, tid[i]) for i, t in enumerate(tens) for ix in t]
        init = {k2: rng.integers(1, 4, size=(dim[k2[0]] if isinstance(k2[0], str) else dim[k2[1]],)).astype(float) for k2 in keys}
        upd = ["parallel", "sequential"][it % 2]
        bq = HD1BP(tn, messages={k2: v.copy() for k2, v in init.items()}, normalize=IDENT, update=upd, smudge_factor=0.0)
        bq.iterate()
        for k, r in enumerate(roots):
            nodes_r = preorder(r)
            if len(nodes_r) < 2:
                continue
            t0 = hd_table(r, init, tid, as_int_vec)
            t1 = hd_table(r, bq.messages, tid, as_int_vec)
            if t1 is None:
                ctx.bump("corr_skipped_not_integral")
                continue
            # a message goes index -> tensor iff its sender is a copy node
            from_copy = [(nd.path, True) for nd in nodes_r[1:] if nd.kind == "copy"] + \
                        [(nd.path, False) for nd in nodes_r[1:] if nd.kind == "tensor"]
            from_tensor = [(nd.path, True) for nd in nodes_r[1:] if nd.kind == "tensor"] + \
                          [(nd.path, False) for nd in nodes_r[1:] if nd.kind == "copy"]
            slit = "[" + ids_lit(from_copy) + "; " + ids_lit(from_tensor) + "]"
            exprs.append(f"tbl_eqb (tbl_of t{k} (run_steps t{k} (state_of {tbl_lit(t0)}) {slit})) {tbl_lit(t1)}")
        # converged, normalised: messages, value, index and tensor marginals
        norm = ["L2", "L1", "Linf"][it % 3]
        damp = [0.0, 0.3][(it // 3) % 2]
        bn = HD1BP(tn, normalize=norm, update=upd, damping=damp)
        bn.run(max_iterations=100 if damp else 40, tol=0.0)
        for k, r in enumerate(roots):
            if len(preorder(r)) < 2:
                continue
            exprs.append(f"tbl_prop9 (exact_table t{k}) {tbl_lit(hd_table(r, bn.messages, tid, scaled_int_vec))}")
        val = Fraction(float(bn.contract()))
        allv = "(" + " * ".join(f"Zvalue t{k}" for k in range(len(roots))) + ")"
        exprs.append(f"close9 {zlit(val.numerator)} {zlit(val.denominator)} {allv}")
        marg = compute_all_index_marginals_from_messages(bn.tn, bn.messages)
        for k, r in enumerate(roots):
            for nd in preorder(r)[1:]:
                # the bond above nd belongs to index nd.edge[1]; its marginal is up*down
                if rng.random() < 0.5:
                    continue
                p = np.asarray(marg[nd.edge[1]], dtype=float)
                fr = [Fraction(float(x)) for x in p]
                den = 1
                for f in fr:
                    den = den * f.denominator // math.gcd(den, f.denominator)
                P = [int(f * den) for f in fr]
                exprs.append(f"marg9 (bond_marg_exact t{k} {natlist(nd.path)}) {zlist(P)} {zlit(den)} (Zvalue t{k})")
            # one tensor marginal per component
            # (compute_tensor_marginal is only defined when every index of the tensor has another tensor)
            tnodes = [nd for nd in preorder(r) if nd.kind == "tensor"
                      and all(sum(ix in t2 for t2 in tens) >= 2 for ix in tens[nd.key[1]])]
            if tnodes:
                nd = tnodes[int(rng.integers(0, len(tnodes)))]
                i = nd.key[1]
                m = np.asarray(compute_tensor_marginal(bn.tn, tid[i], bn.messages), dtype=float)
                # model index assignment is in the rooted leg order [parent; children...]
                legs_model = ([nd.edge] if nd.edge is not None else [None]) + [c.edge for c in nd.children]
                for _ in range(2):
                    idx_impl = [int(rng.integers(0, s)) for s in m.shape]
                    pos = {ix: a for ix, a in zip(tens[i], idx_impl)}
                    idx_model = [0 if e is None else pos[e[1]] for e in legs_model]
                    f = Fraction(float(m[tuple(idx_impl)])) if m.shape else Fraction(float(m))
                    exprs.append(
                        f"marg9 [node_marg_exact t{k} {natlist(nd.path)} {natlist(idx_model)}] [{zlit(f.numerator)}] "
                        f"{zlit(f.denominator)} (Zvalue t{k})"
                    )
        body = " && ".join(f"({e})" for e in exprs)
        lets = "".join(f"let t{k} := {tr} in " for k, tr in enumerate(trees))
        cid = it + 1
        info[cid] = desc
        cases.append((cid, lets + body))
    return cases, info


def corr_combine(ctx):
    """combine_local_contractions on +-10^k values: mantissa and exponent must match the model exactly."""
    from quimb.tensor.belief_propagation import combine_local_contractions

    rng = np.random.default_rng(ctx.seed * 7919 + 34000)
    cases, info = [], {}
    for cid in range(1, ctx.n(200, 3000) + 1):
        nv = int(rng.integers(0, 7))
        vals = []
        for _ in range(nv):
            if rng.random() < 0.08:
                x, k, sgn = 0.0, None, 0
            else:
                k = int(rng.integers(-3, 4))
                sgn = int(rng.choice([-1, 1]))
                x = sgn * float(10.0**k) if k >= 0 else sgn / float(10.0 ** (-k))
            p = int(rng.choice([1, -1, 1, -1, 2, -2]))
            vals.append((x, p, k, sgn))
        cz = bool(rng.integers(0, 2))
        power = int(rng.choice([1, 1, 2, -1]))
        m0 = float(rng.choice([1.0, -1.0]))
        e0 = int(rng.integers(-2, 3))
        ctx.count(("combine", str(vals), cz, power, m0, e0), nv >= 2)
        ctx.bump("corr_combine")
        with warnings.catch_warnings(), np.errstate(all="ignore"):
            warnings.simplefilter("ignore")
            try:
                got = combine_local_contractions([(np.float64(x), p) for x, p, _, _ in vals], backend="numpy",
                                                 strip_exponent=True, check_zero=cz, mantissa=m0, exponent=float(e0),
                                                 power=float(power))
                m, e = float(got[0]), float(got[1])
            except Exception as ex:
                ctx.violation("combine_local_contractions:raised", f"raised {type(ex).__name__}",
                              {"stream": "corr_combine", "values": [(x, p) for x, p, _, _ in vals], "check_zero": cz})
                continue
        if math.isnan(m) or math.isnan(e) or math.isinf(e):
            kind, mq, eq = 2, "0%Q", 0
        elif m == 0.0 and e == 0.0 and any(x == 0.0 for x, _, _, _ in vals):
            kind, mq, eq = 0, "0%Q", 0
        else:
            if m not in (1.0, -1.0) or e != math.floor(e):
                ctx.broken_obligation("correspondence:combine:not_exact", {"values": [(x, p) for x, p, _, _ in vals], "got": [m, e]})
                continue
            kind, mq, eq = 1, f"({int(m)} # 1)%Q", int(e)
        qv = "[" + "; ".join(
            ("(0%Q, " if k is None else f"(Qmult ({sgn} # 1)%Q (qpow10 {zlit(k)}), ") + f"{zlit(p)})" for _, p, k, sgn in vals
        ) + "]"
        info[cid] = {"values": [(x, p) for x, p, _, _ in vals], "check_zero": cz, "power": power, "mantissa": m0,
                     "exponent": e0, "impl": [m, e]}
        cases.append((cid, f"cres_is (qcombine {'true' if cz else 'false'} {qv} ({int(m0)} # 1)%Q {zlit(e0)} {zlit(power)}) "
                           f"{zlit(kind)} {mq} {zlit(eq)}"))
    return cases, info


# ----------------------------------------------------------------------------
# oracle streams (tests; tolerance declared in close())


def opts_of(rng, flavour):
    o = {
        "update": str(rng.choice(["parallel", "sequential"])),
        "damping": float(rng.choice([0.0, 0.3])),
        "local_convergence": bool(rng.integers(0, 2)),
    }
    if flavour in ("hd1bp", "hv1bp"):
        o.pop("local_convergence")
    if flavour == "hv1bp":
        o["update"] = "parallel"
    return o


def iters(o, slow=False):
    if o.get("damping"):
        return 260 if slow else 100
    return 40


def case_1norm(ctx, flavour, seed):
    """one random acyclic network through one 1-norm flavour; returns nothing, reports violations"""
    import quimb.tensor as qtn
    import quimb.tensor.belief_propagation as bpm
    from quimb.tensor.belief_propagation.bp_common import (
        compute_all_index_marginals_from_messages,
        compute_tensor_marginal,
    )

    rng = np.random.default_rng(seed)
    n = int(rng.integers(1, 10))
    kind = str(rng.choice(["posint", "pos", "signed", "complex"]))
    ncomp = int(rng.integers(1, 4))
    hyper = flavour in ("hd1bp", "hv1bp")
    uniform = int(rng.choice([1, 2, 3])) if flavour == "hv1bp" else None
    scalars = int(rng.random() < 0.12) if flavour in ("hd1bp", "hv1bp", "d1bp", "l1bp") else 0
    tens, dim = gen_struct(rng, n, hyper=hyper, dangling=int(rng.integers(0, 3)) if hyper else 0, ncomp=ncomp,
                           uniform=uniform, scalars=scalars)
    datas = [gen_data(rng, [dim[i] for i in ix], kind) for ix in tens]
    o = opts_of(rng, flavour)
    e0 = float(rng.choice([0.0, 0.0, 0.0, 1.0, -1.0]))  # exponent stored on the network

    def mk(tags=None):
        tn_ = build_tn(tens, datas, tags)
        tn_.exponent = e0
        return tn_

    ex = complex(einsum_ref(tens, dim, datas)) * 10**e0
    scale = abs(complex(einsum_ref(tens, dim, [np.abs(d) for d in datas]))) * 10**e0
    has_scalar = any(len(t) == 0 for t in tens)
    desc = {"stream": "oracle_1norm", "flavour": flavour, "case_seed": seed, "kind": kind, "tens": tens, "dim": dim, "opts": o,
            "tn_exponent": e0}
    ctx.count((flavour, str(tens), str(sorted(dim.items())), kind, str(sorted(o.items()))), nontrivial(tens, dim))
    ctx.bump("oracle_" + flavour)
    ctx.bump("data_" + kind)
    cls = ""
    if flavour == "hv1bp" and has_scalar:
        cls = ":scalar_tensor" if any(len(t) > 0 for t in tens) else ":only_scalar_tensors"
    positive = kind in ("posint", "pos")
    smudge = 1e-12 if positive else 0.0
    init = rng.random() < 0.3  # random initial messages
    if init and kind == "complex":  # initial messages must have the dtype of the network (HV1BP updates in place)
        fill = lambda shape: np.random.default_rng(seed + 1).uniform(0.5, 1.5, size=shape) * np.exp(  # noqa: E731
            1j * np.random.default_rng(seed + 2).uniform(-0.5, 0.5, size=shape))
    elif init:
        fill = lambda shape: np.asarray(np.random.default_rng(seed + 1).uniform(0.5, 1.5, size=shape))  # noqa: E731
    else:
        fill = None
    desc["random_init"] = bool(init)
    try:
        with warnings.catch_warnings():
            warnings.simplefilter("ignore")
            if flavour == "d1bp":
                site = None
                bp = bpm.D1BP(mk(), messages=fill, **o)
                bp.run(max_iterations=iters(o), tol=0.0)
                v = bp.contract()
                v2 = bpm.contract_d1bp(mk(), tol=1e-13, max_iterations=600, **o)
            elif flavour == "hd1bp":
                bp = bpm.HD1BP(mk(), messages=fill, smudge_factor=smudge, **o)
                bp.run(max_iterations=iters(o), tol=0.0)
                v = bp.contract()
                v2 = bpm.contract_hd1bp(mk(), tol=1e-13, max_iterations=600, smudge_factor=smudge, **o)
            elif flavour == "hv1bp":
                bp = bpm.HV1BP(mk(), messages=fill, smudge_factor=smudge,
                               normalize=str(rng.choice(["L1", "L2", "Linf"])), **o)
                bp.run(max_iterations=iters(o), tol=0.0)
                v = bp.contract()
                v2 = bp.contract_dense() if not has_scalar or True else v
            elif flavour == "l1bp":
                # group tensors joined by a plain bond into lazy sites (keeps the site graph acyclic)
                site = list(range(len(tens)))
                for ix in dim:
                    mem = [i for i, t in enumerate(tens) if ix in t]
                    if len(mem) == 2 and rng.random() < 0.3:
                        a, b = site[mem[0]], site[mem[1]]
                        site = [a if s == b else s for s in site]
                tags = [f"S{s}" for s in site]
                stags = sorted(set(tags))
                desc["sites"] = site
                bp = bpm.L1BP(mk(tags), site_tags=stags, message_init_function=fill, **o)
                bp.run(max_iterations=iters(o, slow=True), tol=0.0)
                v = bp.contract()
                v2 = bpm.contract_l1bp(mk(tags), site_tags=stags, tol=1e-13, max_iterations=900, **o)
            else:
                raise ValueError(flavour)
    except Exception as e:
        ctx.violation(f"{flavour}:raised{cls}", f"{flavour} raised {type(e).__name__}: {str(e)[:120]} on an acyclic network",
                      desc)
        return
    # message-keyed local convergence + damping (L1BP here; D2BP / L2BP below) is a known defect class
    dlc = ":damped_local_convergence" if (flavour == "l1bp" and o["damping"] and o["local_convergence"]) else ""
    if not close(v, ex, scale):
        ctx.violation(f"{flavour}:contract:value{cls}{dlc}", f"{flavour} converged value {v} != exact contraction {ex}", desc)
    if not close(v2, ex, scale):
        ctx.violation(f"{flavour}:contract_fn:value" + ("" if flavour != "hv1bp" else ":dense") + dlc,
                      f"contract_{flavour} / dense route value {v2} != exact contraction {ex}", desc)
    # strip_exponent route must agree
    try:
        if flavour == "hv1bp":
            m, e = bp.contract(strip_exponent=True)
        else:
            m, e = bp.contract(strip_exponent=True)
        if not close(complex(m) * 10 ** float(np.real(e)), ex, scale) and not cls:
            ctx.violation(f"{flavour}:contract:strip_exponent{dlc}", "mantissa * 10**exponent != exact contraction", desc)
    except Exception as e2:
        ctx.violation(f"{flavour}:contract:strip_exponent:raised", f"raised {type(e2).__name__}", desc)
    # marginals (positive data: genuine probability distributions)
    if flavour in ("hd1bp", "hv1bp") and positive and dim:
        msgs = bp.messages if flavour == "hd1bp" else bp.get_messages_dense()
        try:
            marg = compute_all_index_marginals_from_messages(bp.tn, msgs)
            for ix in dim:
                pe = np.real(einsum_ref(tens, dim, datas, out=(ix,)))
                pe = pe / pe.sum()
                if not np.allclose(np.asarray(marg[ix]), pe, rtol=1e-8, atol=1e-12):
                    ctx.violation(f"{flavour}:marginal:index", f"index marginal of {ix} differs from the exact marginal",
                                  {**desc, "ind": ix})
                    break
            for tt, t in bp.tn.tensor_map.items():
                if t.ndim == 0 or len(set(t.inds)) != t.ndim:
                    continue
                pe = np.real(einsum_ref(tens, dim, datas, out=t.inds))
                pe = pe / pe.sum()
                try:
                    pm = np.asarray(compute_tensor_marginal(bp.tn, tt, msgs))
                except Exception as e6:
                    dang = any(len(bp.tn.ind_map[ix]) == 1 for ix in t.inds)
                    ctx.violation("compute_tensor_marginal:raised" + (":dangling_index" if dang else ""),
                                  f"compute_tensor_marginal raised {type(e6).__name__}: {str(e6)[:80]}", {**desc, "tid": tt})
                    continue
                if not np.allclose(pm, pe, rtol=1e-8, atol=1e-12):
                    ctx.violation(f"{flavour}:marginal:tensor", "tensor marginal differs from the exact marginal", {**desc, "tid": tt})
                    break
            ctx.bump("marginals_checked")
        except Exception as e3:
            ctx.violation(f"{flavour}:marginal:raised", f"raised {type(e3).__name__}: {str(e3)[:100]}", desc)
    # D1BP extras: the normalisation bookkeeping and the cluster / loop expansions reduce to BP on a tree
    if flavour == "d1bp":
        phase = "" if positive else ":signed_or_complex"
        for name in ("normalize_then_contract", "contract_gloop_expand", "contract_loop_series_expansion", "contract_with_loops"):
            try:
                with warnings.catch_warnings():
                    warnings.simplefilter("ignore")
                    b2 = bpm.D1BP(mk(), **o)
                    b2.run(max_iterations=iters(o), tol=0.0)
                    if name == "normalize_then_contract":
                        b2.normalize_message_pairs()
                        b2.normalize_tensors()
                        w = b2.contract()
                        key = "d1bp:normalize_then_contract"
                    else:
                        w = getattr(b2, name)()
                        key = f"d1bp:{name}{phase}"
                if not close(w, ex, scale):
                    ctx.violation(key, f"D1BP.{name} on a tree gives {w}, exact contraction is {ex}", {**desc, "method": name})
            except Exception as e4:
                ctx.violation(f"d1bp:{name}:raised", f"raised {type(e4).__name__}: {str(e4)[:100]}", {**desc, "method": name})
    if flavour == "hd1bp" and positive:
        # initialize_hyper_messages = one round of BP from uniform messages
        try:
            tn0 = mk()
            m0 = bpm.initialize_hyper_messages(tn0)
            for tt, t in tn0.tensor_map.items():
                for ax, ix in enumerate(t.inds):
                    if len(set(t.inds)) != t.ndim:
                        continue
                    ref = np.asarray(t.data).sum(axis=tuple(a for a in range(t.ndim) if a != ax))
                    if not np.allclose(np.asarray(m0[tt, ix]), ref / ref.sum(), rtol=1e-9):
                        ctx.violation("initialize_hyper_messages:tensor_message", "initial tensor message is not the normalised leg sum", desc)
            for ix, tts in tn0.ind_map.items():
                for tt in tts:
                    ref = np.prod([np.asarray(m0[o2, ix]) for o2 in tts if o2 != tt] + [np.ones(dim[ix])], axis=0)
                    if not np.allclose(np.asarray(m0[ix, tt]), ref / ref.sum(), rtol=1e-8):
                        ctx.violation("initialize_hyper_messages:index_message", "initial index message is not the product of the others", desc)
        except Exception as e5:
            ctx.violation("initialize_hyper_messages:raised", f"raised {type(e5).__name__}", desc)


def case_2norm(ctx, flavour, seed):
    import quimb.tensor.belief_propagation as bpm

    rng = np.random.default_rng(seed)
    n = int(rng.integers(1, 9))
    kind = str(rng.choice(["posint", "pos", "signed", "complex"]))
    tens, dim = gen_struct(rng, n, ncomp=int(rng.integers(1, 3)), dangling=int(rng.integers(0, 4)))
    datas = [gen_data(rng, [dim[i] for i in ix], kind) for ix in tens]
    o = opts_of(rng, flavour)
    outs = tuple(sorted(ix for ix in dim if sum(ix in t for t in tens) == 1))
    e0 = float(rng.choice([0.0, 0.0, 0.0, 1.0, -1.0]))  # exponent stored on the network

    def mk(tags=None):
        tn_ = build_tn(tens, datas, tags)
        tn_.exponent = e0
        return tn_

    psi = np.asarray(einsum_ref(tens, dim, datas, out=outs)) * 10**e0
    ex = float(np.sum(np.abs(psi) ** 2))
    amax = float(np.abs(psi).max())
    desc = {"stream": "oracle_2norm", "flavour": flavour, "case_seed": seed, "kind": kind, "tens": tens, "dim": dim, "opts": o,
            "tn_exponent": e0}
    ctx.count((flavour, str(tens), str(sorted(dim.items())), kind, str(sorted(o.items()))), nontrivial(tens, dim))
    ctx.bump("oracle_" + flavour)
    ctx.bump("data_" + kind)

    def dense(tn):
        t = tn.contract(all, output_inds=outs)
        return np.asarray(t.data if hasattr(t, "data") else t)

    try:
        with warnings.catch_warnings():
            warnings.simplefilter("ignore")
            if flavour == "d2bp":
                bp = bpm.D2BP(mk(), **o)
                bp.run(max_iterations=iters(o), tol=0.0)
                v = bp.contract()
                v2 = bpm.contract_d2bp(mk(), tol=1e-13, max_iterations=600, **o)
            else:
                site = list(range(len(tens)))
                for ix in dim:
                    mem = [i for i, t in enumerate(tens) if ix in t]
                    if len(mem) == 2 and rng.random() < 0.3:
                        a, b = site[mem[0]], site[mem[1]]
                        site = [a if s == b else s for s in site]
                tags = [f"S{s}" for s in site]
                stags = sorted(set(tags))
                desc["sites"] = site
                bp = bpm.L2BP(mk(tags), site_tags=stags, **o)
                bp.run(max_iterations=iters(o, slow=True), tol=0.0)
                v = bp.contract()
                v2 = bpm.contract_l2bp(mk(tags), site_tags=stags, tol=1e-13, max_iterations=900, **o)
    except Exception as e:
        ctx.violation(f"{flavour}:raised", f"{flavour} raised {type(e).__name__}: {str(e)[:120]} on an acyclic network", desc)
        return
    dlc = ":damped_local_convergence" if (o["damping"] and o["local_convergence"]) else ""
    if not close(v, ex, ex):
        ctx.violation(f"{flavour}:contract:norm{dlc}", f"{flavour} converged norm^2 {v} != exact {ex}", desc)
    if not close(v2, ex, ex):
        ctx.violation(f"{flavour}:contract_fn:norm{dlc}", f"contract_{flavour} norm^2 {v2} != exact {ex}", desc)
    try:
        with warnings.catch_warnings():
            warnings.simplefilter("ignore")
            if flavour == "d2bp":
                for ix in outs:
                    ax = outs.index(ix)
                    pe = np.sum(np.abs(psi) ** 2, axis=tuple(a for a in range(len(outs)) if a != ax))
                    pe = pe / pe.sum()
                    if not np.allclose(np.asarray(bp.compute_marginal(ix)), pe, rtol=1e-8, atol=1e-10):
                        ctx.violation("d2bp:marginal:index" + dlc, f"compute_marginal({ix}) differs from the exact marginal", {**desc, "ind": ix})
                        break
                routes = [
                    ("compress_d2bp", lambda: bpm.compress_d2bp(mk(), None, cutoff=0.0, tol=0.0, max_iterations=40)),
                    ("gauge_d2bp", lambda: bpm.gauge_d2bp(mk(), tol=0.0, max_iterations=40)),
                    ("gauge_all_belief_propagation", lambda: mk().gauge_all_belief_propagation(max_iterations=40)),
                    ("D2BP.compress", lambda: bp.compress(None, cutoff=0.0)),
                    ("D2BP.gauge_symmetric", lambda: bp.gauge_symmetric()),
                ]
                name, f = routes[int(rng.integers(0, len(routes)))]
                tn2 = f()
                if not np.allclose(dense(tn2), psi, rtol=1e-8, atol=1e-8 * amax):
                    ctx.violation(f"d2bp:{name}:dense_changed", f"{name} with cutoff 0 changed to_dense", {**desc, "route": name})
                # exponent / sign bookkeeping: the expansions reduce to BP on a tree
                for name in ("normalize_then_contract", "contract_gloop_expand", "contract_loop_series_expansion"):
                    if dlc:
                        break
                    b2 = bpm.D2BP(mk(), **o)
                    b2.run(max_iterations=iters(o), tol=0.0)
                    if name == "normalize_then_contract":
                        b2.normalize_message_pairs()
                        b2.normalize_tensors()
                        w = b2.contract()
                        key = "d2bp:normalize_tensors_then_contract"
                    else:
                        w = getattr(b2, name)()
                        key = f"d2bp:{name}" + (":stored_exponent" if e0 else "")
                    if not close(w, ex, ex):
                        ctx.violation(key, f"D2BP.{name} on a tree gives {w}, exact norm^2 is {ex}", {**desc, "method": name})
            else:
                tn2 = bpm.compress_l2bp(mk(tags), None, cutoff=0.0, site_tags=stags, tol=0.0, max_iterations=40)
                if not np.allclose(dense(tn2), psi, rtol=1e-8, atol=1e-8 * amax):
                    ctx.violation("l2bp:compress_l2bp:dense_changed", "compress_l2bp with cutoff 0 changed to_dense", desc)
    except Exception as e:
        ctx.violation(f"{flavour}:extras:raised", f"raised {type(e).__name__}: {str(e)[:160]}", desc)


def ref_tensor_out(T, inds, incoming, skip):
    """numpy reference: tensor T contracted with incoming[ix] on every leg except leg number `skip`"""
    ops = [np.asarray(T), list(range(len(inds)))]
    for a, ix in enumerate(inds):
        if a != skip:
            ops += [np.asarray(incoming[ix]), [a]]
    return np.einsum(*ops, [skip])


def case_messages(ctx, flavour, seed):
    """direct oracle on the message level (identity normalisation, positive-integer data, so everything is exact):
    one parallel round from random integer messages equals an independent numpy sum-product round, and the converged
    messages do not depend on the schedule.  This is the searcher behind the Coq correspondence."""
    import quimb.tensor.belief_propagation as bpm

    rng = np.random.default_rng(seed)
    n = int(rng.integers(1, 8))
    hyper = flavour == "hd1bp"
    tens, dim = gen_struct(rng, n, hyper=hyper, dangling=int(rng.integers(0, 3)) if hyper else 0,
                           ncomp=int(rng.integers(1, 3)), min_rank1=hyper)
    datas = [gen_data(rng, [dim[i] for i in ix], "posint") for ix in tens]
    desc = {"stream": "oracle_messages", "flavour": flavour, "case_seed": seed, "tens": tens, "dim": dim}
    ctx.count(("msg", flavour, str(tens), str(sorted(dim.items()))), nontrivial(tens, dim))
    ctx.bump("oracle_messages_" + flavour)
    tn = build_tn(tens, datas)
    tid = tids_of(tn)
    try:
        if flavour == "d1bp":
            other = {(ix, i): [j for j, t in enumerate(tens) if ix in t and j != i][0] for i, t in enumerate(tens) for ix in t}
            init = {(ix, tid[i]): rng.integers(1, 4, size=(dim[ix],)).astype(float) for i, t in enumerate(tens) for ix in t}
            bq = bpm.D1BP(tn, messages={k: v.copy() for k, v in init.items()}, normalize=IDENT, update="parallel",
                          local_convergence=False)
            bq.iterate(tol=0.0)
            for i, t in enumerate(tens):
                inc = {ix: init[ix, tid[i]] for ix in t}
                for a, ix in enumerate(t):
                    want = ref_tensor_out(datas[i], t, inc, a)
                    got = np.asarray(bq.messages[ix, tid[other[ix, i]]])
                    if got.shape != want.shape or not np.array_equal(got, want):
                        ctx.violation("d1bp:iterate:parallel_round",
                                      "one parallel D1BP round (identity normalisation) differs from the sum-product update "
                                      "computed from the OLD messages", {**desc, "tensor": i, "ind": ix})
                        return
            finals = []
            for upd in ("parallel", "sequential"):
                for lc in (False, True):
                    b = bpm.D1BP(build_tn(tens, datas), normalize=IDENT, update=upd, local_convergence=lc)
                    b.run(max_iterations=2 * len(tens) + 2, tol=0.0)
                    finals.append({k: np.asarray(v) for k, v in b.messages.items()})
            for f in finals[1:]:
                if any(not np.array_equal(f[k], finals[0][k]) for k in finals[0]):
                    ctx.violation("d1bp:messages:schedule_dependent", "converged identity-normalised messages depend on the schedule", desc)
                    return
        else:
            keys_t = [(tid[i], ix) for i, t in enumerate(tens) for ix in t]
            keys_i = [(ix, tid[i]) for i, t in enumerate(tens) for ix in t]
            init = {k: rng.integers(1, 4, size=(dim[k[1]] if isinstance(k[1], str) else dim[k[0]],)).astype(float)
                    for k in keys_t + keys_i}
            upd = str(rng.choice(["parallel", "sequential"]))
            bq = bpm.HD1BP(tn, messages={k: v.copy() for k, v in init.items()}, normalize=IDENT, update=upd, smudge_factor=0.0)
            bq.iterate()
            # index messages from the OLD tensor messages; tensor messages from the NEW index messages
            mid_ = {}
            for ix in dim:
                mem = [i for i, t in enumerate(tens) if ix in t]
                for i in mem:
                    mid_[ix, tid[i]] = np.prod([init[tid[j], ix] for j in mem if j != i] + [np.ones(dim[ix])], axis=0)
            for k, want in mid_.items():
                if not np.array_equal(np.asarray(bq.messages[k]), want):
                    ctx.violation("hd1bp:iterate:index_messages", "index -> tensor messages after one iterate differ from the "
                                  "product of the other incoming messages", {**desc, "key": [str(x) for x in k]})
                    return
            for i, t in enumerate(tens):
                inc = {ix: mid_[ix, tid[i]] for ix in t}
                for a, ix in enumerate(t):
                    want = ref_tensor_out(datas[i], t, inc, a)
                    if not np.array_equal(np.asarray(bq.messages[tid[i], ix]), want):
                        ctx.violation("hd1bp:iterate:tensor_messages", "tensor -> index messages after one iterate differ from "
                                      "the sum-product update", {**desc, "tensor": i, "ind": ix})
                        return
    except Exception as e:
        ctx.violation(f"{flavour}:messages:raised", f"raised {type(e).__name__}: {str(e)[:120]}", desc)



# ----------------------------------------------------------------------------
# D2BP message gauges: gauge_insert (raw / inverse factors, smudge, power), gauge_temp, TensorNetwork.gauge_insert(bp),
# gate_ in the BP gauge.  Everything numerical here is a TEST against independent numpy references (not a theorem);
# the index / conjugation rule of the two factors is additionally tied to coq/C14/GaugeModel.v (corr_gauge below).


def gen_state(rng, n, ncomp=1):
    """random tree / forest STATE: site i carries the bonds to its tree neighbours (sizes 1-3), one physical index
    k<i> (size 2-3) and sometimes a second output index x<i>; index order on every tensor is shuffled"""
    tens = [[] for _ in range(n)]
    dim = {}
    split = int(rng.integers(1, n)) if (ncomp > 1 and n > 1) else None
    for i in range(1, n):
        if i == split:
            continue
        lo = split if (split is not None and i > split) else 0
        p = int(rng.integers(lo, i))
        b = f"b{i}"
        dim[b] = int(rng.choice([1, 2, 2, 3]))
        tens[p].append(b)
        tens[i].append(b)
    for i in range(n):
        dim[f"k{i}"] = int(rng.choice([2, 2, 3]))
        tens[i].append(f"k{i}")
        if rng.random() < 0.15:
            dim[f"x{i}"] = 2
            tens[i].append(f"x{i}")
    for t in tens:
        rng.shuffle(t)
    return tens, dim


def build_state(tens, datas, e0=0.0):
    import quimb.tensor as qtn

    tn = build_tn(tens, datas)
    tn.view_as_(qtn.TensorNetworkGenVector, sites=list(range(len(tens))), site_tag_id="I{}", site_ind_id="k{}")
    tn.exponent = e0
    return tn


def dense_of(tn, outs):
    t = tn.contract(all, output_inds=tuple(outs))
    return np.asarray(t.data if hasattr(t, "data") else t)


def rdm_of(arr, nkeep):
    """normalised Gram matrix of an array over its first nkeep axes (the rest is traced)"""
    a = np.asarray(arr)
    d = int(np.prod(a.shape[:nkeep], dtype=int))
    m = a.reshape(d, -1)
    rho = m @ m.conj().T
    return rho / np.trace(rho)


def sqrt_spectrum(m, smudge, power):
    """independent reference for the spectrum of the inserted factor: (sqrt(max(eig, 0)) + smudge * largest) ** power"""
    ev = np.linalg.eigvalsh(np.asarray(m))
    s = np.sqrt(np.clip(ev, 0.0, None))
    return np.sort((s + smudge * s.max()) ** power)


def gint_mat(a):
    """complex / real float matrix -> (rows of exact Gaussian integers, common power-of-two denominator)"""
    a = np.asarray(a)
    fr = [[(Fraction(float(np.real(x))), Fraction(float(np.imag(x)))) for x in row] for row in a]
    den = 1
    for row in fr:
        for re, im in row:
            for f in (re, im):
                den = den * f.denominator // math.gcd(den, f.denominator)
    return [[(int(re * den), int(im * den)) for re, im in row] for row in fr], den


def gmat_lit(rows):
    return "[" + "; ".join("[" + "; ".join(f"({zlit(re)}, {zlit(im)})" for re, im in r) + "]" for r in rows) + "]"


def case_gauge(ctx, seed, coq_out=None):
    """one random tree state, converged D2BP, then the whole temporary-gauge family on a random patch; reports violations.
    If coq_out is a list, the observed (message eigen-decomposition, raw factor, inverse factor) triples are appended
    to it for the correspondence with the Coq model of the factor rule."""
    import quimb.tensor.belief_propagation as bpm

    rng = np.random.default_rng(seed)
    n = int(rng.integers(2, 8))
    kind = str(rng.choice(["complex", "complex", "signed", "posint"]))
    tens, dim = gen_state(rng, n, ncomp=int(rng.integers(1, 3)))
    datas = [gen_data(rng, [dim[i] for i in ix], kind) for ix in tens]
    o = opts_of(rng, "d2bp")
    e0 = float(rng.choice([0.0, 0.0, 1.0, -1.0]))
    smudge = float(rng.choice([0.0, 0.0, 1e-12, 1e-3]))
    power = float(rng.choice([1.0, 1.0, 2.0, 0.5]))
    entry = str(rng.choice(["D2BP.gauge_insert", "TensorNetwork.gauge_insert"]))
    outs = tuple(sorted(ix for ix in dim if sum(ix in t for t in tens) == 1))
    psi = np.asarray(einsum_ref(tens, dim, datas, out=outs)) * 10**e0
    amax = float(np.abs(psi).max())
    cplx = ":complex" if kind == "complex" else ""
    desc = {"stream": "oracle_gauge", "case_seed": seed, "kind": kind, "tens": tens, "dim": dim, "opts": o, "tn_exponent": e0,
            "smudge": smudge, "power": power, "entry": entry}
    ctx.count(("gauge", str(tens), str(sorted(dim.items())), kind, str(sorted(o.items())), smudge, power, entry),
              nontrivial(tens, dim))
    ctx.bump("oracle_gauge")
    ctx.bump("gauge_data_" + kind)

    # the patch: a random non-empty proper subset of the sites
    k = int(rng.integers(1, n))
    members = sorted(int(x) for x in rng.choice(n, size=k, replace=False))
    desc["patch"] = members
    cut = [(ix, i) for i in members for ix in tens[i]
           if ix not in outs and not all(j in members for j in range(n) if ix in tens[j])]
    pouts = [ix for ix in outs if any(ix in tens[i] for i in members)]
    perm = [outs.index(ix) for ix in pouts] + [a for a, ix in enumerate(outs) if ix not in pouts]
    rho_exact = rdm_of(np.transpose(psi, perm), len(pouts))
    # the product of the boundary messages is the exact environment of the patch iff no two of its bonds lead into the
    # same outside subtree, i.e. iff the patch is connected inside every tree of the forest
    inner = [[i for i in members if ix in tens[i]] for ix in dim if ix not in outs]
    link = {i: i for i in members}

    def _find(a):
        while link[a] != a:
            a = link[a]
        return a

    for pr in inner:
        if len(pr) == 2:
            link[_find(pr[0])] = _find(pr[1])
    whole = components(tens)
    connected = all(len({_find(i) for i in members if i in comp}) <= 1 for comp in whole)
    desc["patch_connected"] = connected

    def insert(bp_, tn_, **kw):
        if entry == "D2BP.gauge_insert":
            return bp_.gauge_insert(tn_, **kw)
        return tn_.gauge_insert(bp_, **kw)

    try:
        with warnings.catch_warnings(), np.errstate(all="ignore"):
            warnings.simplefilter("ignore")
            bp = bpm.D2BP(build_state(tens, datas, e0), **o)
            bp.run(max_iterations=iters(o), tol=0.0)
            tid = tids_of(bp.tn)
            ptids = [tid[i] for i in members]
            msgs = {(ix, i): np.asarray(bp.messages[ix, tid[i]]) for ix, i in cut}
            # the documented conditioning of the inserted spectrum; well conditioned <=> the inverse factors are
            # numerically meaningful on the patch itself (rank-deficient messages: only the whole network is compared)
            # (judged on the un-powered spectrum: an eigenvalue that is pure rounding noise must not pass after a power < 1)
            def conditioned(sm, pw):
                for m in msgs.values():
                    sp = sqrt_spectrum(m, sm, 1.0)
                    r = sp.min() / sp.max()
                    if not (r > 1e-4 and r**pw > 1e-5):
                        return False
                return True

            wellc = conditioned(smudge, power)
            wellc_t = conditioned(1e-12, 1.0)
            ctx.bump("gauge_well_conditioned" if wellc else "gauge_rank_deficient_message")

            # (1) forward factors
            full = bp.tn.copy()
            patch = full._select_tids(ptids, virtual=True)
            raw = insert(bp, patch, smudge=smudge, power=power, return_gauges="raw")
            got = sorted((ix, [i for i in members if ix in tens[i]][0]) for _, ix, _ in raw)
            if got != sorted(cut):
                ctx.violation("d2bp:gauge_insert:boundary_set", f"{entry} gauged the indices {got}, the bonds leaving the patch "
                              f"are {sorted(cut)}", desc)
                return
            rawf = {}
            for t, ix, g in raw:
                (i,) = [i for i in members if ix in tens[i]]
                g = np.asarray(g)
                rawf[ix, i] = g
                # compared before the power is applied (a power < 1 blows the rounding noise of a zero eigenvalue up)
                sv = np.sort(np.linalg.svd(g, compute_uv=False)) ** (1.0 / power)
                sp1 = sqrt_spectrum(msgs[ix, i], smudge, 1.0)
                if g.shape != msgs[ix, i].shape or not np.allclose(sv, sp1, rtol=1e-8, atol=1e-7 * sp1.max()):
                    ctx.violation("d2bp:gauge_insert:raw:spectrum" + (":smudge" if smudge else "") + (":power" if power != 1.0 else ""),
                                  f"singular values**(1/power) {sv} of the inserted factor on {ix} are not sqrt(eig) + smudge*max = "
                                  f"{sp1}", {**desc, "ind": ix})
                    return
            if smudge <= 1e-12 and power == 1.0 and connected:
                # the environment of the gauged patch is the identity: its own Gram matrix is the exact reduced density matrix
                cix = [ix for ix, _ in cut]
                rho = rdm_of(dense_of(patch, pouts + cix), len(pouts))
                if not np.allclose(rho, rho_exact, rtol=0, atol=1e-8):
                    ctx.violation("d2bp:gauge_insert:raw:environment_not_identity" + cplx,
                                  f"{entry}: patch gauged with the sqrt of converged messages: its Gram matrix over the patch's "
                                  f"output indices differs from the exact reduced density matrix by "
                                  f"{float(np.abs(rho - rho_exact).max()):.2e}", desc)
            gauged = dense_of(patch, pouts + [ix for ix, _ in cut])

            # (2) inverse factors: same call with return_gauges='inverse', then apply them
            full2 = bp.tn.copy()
            patch2 = full2._select_tids(ptids, virtual=True)
            ref_patch = dense_of(patch2, pouts + [ix for ix, _ in cut])
            inv = insert(bp, patch2, smudge=smudge, power=power, return_gauges="inverse")
            invf = {}
            for t, ix, gi in inv:
                (i,) = [i for i in members if ix in tens[i]]
                invf[ix, i] = np.asarray(gi)
            if sorted(invf) != sorted(cut):
                ctx.violation("d2bp:gauge_insert:boundary_set", f"{entry}(return_gauges='inverse') returned factors for "
                              f"{sorted(invf)}, the bonds leaving the patch are {sorted(cut)}", desc)
                return
            if wellc:
                for key in sorted(invf):
                    prod = invf[key] @ rawf[key]
                    if not np.allclose(prod, np.eye(len(prod)), rtol=0, atol=1e-8):
                        ctx.violation("d2bp:gauge_insert:inverse:not_inverse_of_raw" + cplx,
                                      f"{entry}: factor returned with return_gauges='inverse' times the factor returned with 'raw' "
                                      f"for the same message on {key[0]} is not the identity (max deviation "
                                      f"{float(np.abs(prod - np.eye(len(prod))).max()):.2e})", {**desc, "ind": key[0]})
                        break
            for t, ix, gi in inv:
                t.gate_(gi, ix)
            if wellc:
                back = dense_of(patch2, pouts + [ix for ix, _ in cut])
                if not np.allclose(back, ref_patch, rtol=1e-8, atol=1e-8 * np.abs(ref_patch).max()):
                    ctx.violation("d2bp:gauge_insert:inverse:round_trip" + cplx,
                                  f"{entry}: inserting the sqrt-messages and applying the returned inverses changed the patch by "
                                  f"{float(np.abs(back - ref_patch).max()):.2e}", desc)
            if (wellc or smudge >= 1e-12) and not np.allclose(dense_of(full2, outs), psi, rtol=1e-7, atol=1e-7 * amax):
                ctx.violation("d2bp:gauge_insert:inverse:dense_changed" + cplx,
                              f"{entry}: gauging a patch and un-gauging it with the returned inverses changed to_dense of the "
                              f"whole network", desc)
            if coq_out is not None and power in (1.0, 2.0):
                for key in sorted(cut)[:3]:
                    s2, W = np.linalg.eigh(msgs[key])
                    coq_out.append({"ind": key[0], "W": W, "s": np.sqrt(np.clip(s2, 0.0, None)), "smudge": smudge,
                                    "power": int(power), "raw": rawf[key], "inv": invf[key] if wellc else None})

            # (3) gauge_temp (default smudge 1e-12), with and without the automatic un-gauging
            full3 = bp.tn.copy()
            patch3 = full3._select_tids(ptids, virtual=True)
            auto = bool(rng.integers(0, 2))
            desc["ungauge_outer"] = auto
            with bp.gauge_temp(patch3, ungauge_outer=auto) as outer:
                inside = dense_of(patch3, pouts + [ix for ix, _ in cut])
            if not auto:
                for t, ix, gi in outer:
                    t.gate_(gi, ix)
            if sorted(ix for _, ix, _ in outer) != sorted(ix for ix, _ in cut):
                ctx.violation("d2bp:gauge_temp:boundary_set", "gauge_temp gauged other indices than the bonds leaving the patch", desc)
            if cut and wellc_t and smudge <= 1e-12 and power == 1.0 and not np.allclose(
                    inside, gauged, rtol=1e-7, atol=1e-7 * np.abs(gauged).max()):
                ctx.violation("d2bp:gauge_temp:inside_not_gauged", "inside gauge_temp the patch is not the patch with the sqrt-messages "
                              "inserted", desc)
            if wellc_t:
                back = dense_of(patch3, pouts + [ix for ix, _ in cut])
                if not np.allclose(back, ref_patch, rtol=1e-8, atol=1e-8 * np.abs(ref_patch).max()):
                    ctx.violation("d2bp:gauge_temp:round_trip" + cplx,
                                  f"gauge_temp(ungauge_outer={auto}) with nothing done inside changed the patch by "
                                  f"{float(np.abs(back - ref_patch).max()):.2e}", desc)
            if not np.allclose(dense_of(full3, outs), psi, rtol=1e-7, atol=1e-7 * amax):
                ctx.violation("d2bp:gauge_temp:dense_changed" + cplx, "gauge_temp with nothing done inside changed to_dense", desc)

            # (3b) oblique compressor between two neighbouring sites built in the BP gauge (D2BP passed as `gauges`), nothing cut off
            bonds_ = [(ix, [i for i in range(n) if ix in tens[i]]) for ix in dim if ix not in outs]
            if bonds_ and rng.random() < 0.5:
                _, (ia, ib) = bonds_[int(rng.integers(0, len(bonds_)))]
                tn2 = bp.tn.insert_compressor_between_regions([f"I{ia}"], [f"I{ib}"], max_bond=None, cutoff=0.0, gauges=bp,
                                                              gauge_smudge=float(rng.choice([0.0, 1e-12])))
                if not np.allclose(dense_of(tn2, outs), psi, rtol=1e-7, atol=1e-7 * amax):
                    ctx.violation("tn:insert_compressor_between_regions:d2bp_gauges:dense_changed" + cplx,
                                  "insert_compressor_between_regions(gauges=converged D2BP, cutoff=0, max_bond=None) changed to_dense",
                                  {**desc, "sites": [ia, ib]})

            # (4) gates in the BP gauge without truncation: the exactly gated state, messages of the gated bond exact,
            #     and BP re-run from the touched sites gives the exact norm; a second gate after the re-run
            cur = psi
            for rep in range(2):
                if bonds_ and rng.random() < 0.85:
                    _, where = bonds_[int(rng.integers(0, len(bonds_)))]
                    if rng.random() < 0.5:
                        where = where[::-1]
                else:
                    where = [int(rng.integers(0, n))]
                ds = [dim[f"k{i}"] for i in where]
                D = int(np.prod(ds))
                G = gen_data(rng, (D, D), "complex" if kind == "complex" else "signed")
                desc["gates"] = desc.get("gates", []) + [list(where)]
                # numpy reference: G[(out), (in)] acting on the physical indices of `where`
                axes = [outs.index(f"k{i}") for i in where]
                Gt = G.reshape(ds + ds)
                cur = np.moveaxis(np.tensordot(Gt, cur, axes=(list(range(len(ds), 2 * len(ds))), axes)), list(range(len(ds))), axes)
                # un-gauging multiplies the null directions of a rank-deficient outside message by ~1e12 (default smudge):
                # the gated STATE is still right (checked below), but its tensors are then so badly scaled that any
                # later floating-point contraction of them (BP included) is meaningless - outside the numerical domain
                tid = tids_of(bp.tn)
                env_ok = True
                if len(where) == 2:
                    for i in where:
                        for ix in tens[i]:
                            if ix not in outs and not all(ix in tens[j] for j in where):
                                sp = sqrt_spectrum(np.asarray(bp.messages[ix, tid[i]]), 1e-12, 1.0)
                                env_ok = env_ok and bool(sp.min() > 1e-4 * sp.max())
                bp.gate_(G, tuple(where), max_bond=None, cutoff=0.0)
                two = ":two_site" if len(where) == 2 else ":one_site"
                cmax = float(np.abs(cur).max())
                rt = 1e-7 if env_ok else 1e-4  # rank-deficient environment: see above (errors of the split are blown up by 1e12)
                if not np.allclose(dense_of(bp.tn, outs), cur, rtol=rt, atol=rt * cmax):
                    ctx.violation("d2bp:gate_:state" + two + cplx, f"bp.gate_(G, {where}) without truncation is not the exactly gated "
                                  f"state (max deviation {float(np.abs(dense_of(bp.tn, outs) - cur).max()):.2e} of {cmax:.2e})",
                                  {**desc, "gate_number": rep})
                    return
                if not env_ok:
                    ctx.bump("gauge_gate_rank_deficient_environment")
                    break
                if len(where) == 2:
                    # probe the two messages gate_ has written: gauge each gated site on its own with the CURRENT messages
                    tid = tids_of(bp.tn)
                    for i in where:
                        so = [ix for ix in outs if ix in tens[i]]
                        pm = [outs.index(ix) for ix in so] + [a for a, ix in enumerate(outs) if ix not in so]
                        rex = rdm_of(np.transpose(cur, pm), len(so))
                        one = bp.tn._select_tids([tid[i]], virtual=False)
                        bp.gauge_insert(one, smudge=0.0, return_gauges=None)
                        rest = [ix for ix in one.outer_inds() if ix not in so]
                        rg = rdm_of(dense_of(one, so + rest), len(so))
                        if not np.allclose(rg, rex, rtol=0, atol=1e-7):
                            ctx.violation("d2bp:gate_:messages_of_gated_bond" + cplx,
                                          f"after bp.gate_(G, {where}) the messages into site {i} do not give its exact reduced "
                                          f"density matrix (max deviation {float(np.abs(rg - rex).max()):.2e})",
                                          {**desc, "gate_number": rep, "site": i})
                            return
                bp.run(max_iterations=iters(o), tol=0.0)
                v = bp.contract()
                ex = float(np.sum(np.abs(cur) ** 2))
                if not close(v, ex, ex):
                    ctx.violation("d2bp:gate_:norm_after_rerun" + two, f"after bp.gate_(G, {where}) and bp.run() the BP norm^2 {v} "
                                  f"is not the exact norm^2 {ex} of the gated tree state", {**desc, "gate_number": rep})
                    return
    except Exception as e:
        import traceback

        ctx.violation("d2bp:gauge:raised", f"raised {type(e).__name__}: {str(e)[:160]}", {**desc, "tb": traceback.format_exc()[-600:]})


def frac_vec(v):
    """real float vector -> (exact integers, common denominator)"""
    fr = [Fraction(float(x)) for x in np.asarray(v, dtype=float).reshape(-1)]
    den = 1
    for f in fr:
        den = den * f.denominator // math.gcd(den, f.denominator)
    return [int(f * den) for f in fr], den


def corr_gauge(ctx):
    """D2BP.gauge_insert factor rule vs coq/C14/GaugeModel.v.  The stage runs the gauge oracle (case_gauge: tests) on
    its cases and, for up to three boundary bonds of each, hands the eigen-decomposition (W, s) of the message
    (numpy.linalg.eigh, the call gauge_insert itself makes) and the factors the implementation returned to Coq:
        raw factor     == msqrt (smudged / powered s) W     = s_i * conj(W[j][i])
        inverse factor == minv  (smudged / powered s) W     = W[i][j] / s_j       (cross-multiplied by s_j)
    entrywise at 1e-9 of the Frobenius norm, in exact integer arithmetic (one float rounding per entry separates the
    implementation from the exact model value, so the comparison cannot be an equality)."""
    cases, info = [], {}
    N = ctx.n(60, 900)
    cid = 0
    for it in range(N):
        seed = ctx.seed * 7919 + 130000 + it
        out = []
        case_gauge(ctx, seed, coq_out=out)
        exprs = []
        for tr in out:
            n = len(tr["s"])
            W, dw = gint_mat(tr["W"])
            sv, ds = frac_vec(tr["s"])
            sm = Fraction(float(tr["smudge"]))
            graw, dg = gint_mat(tr["raw"])
            args = f"{natlit(n)} {gmat_lit(W)} {zlit(dw)} {zlist(sv)} {zlit(ds)} {zlit(sm.numerator)} {zlit(sm.denominator)} " \
                   f"{natlit(tr['power'])}"
            exprs.append(f"raw_matches {args} {gmat_lit(graw)} {zlit(dg)}")
            if tr["inv"] is not None and np.all(np.isfinite(tr["inv"])):
                ginv, dh = gint_mat(tr["inv"])
                exprs.append(f"inv_matches {args} {gmat_lit(ginv)} {zlit(dh)}")
                ctx.bump("corr_gauge_inverse_factors")
            ctx.bump("corr_gauge_raw_factors")
        if not exprs:
            continue
        cid += 1
        info[cid] = {"stream": "corr_gauge", "case_seed": seed, "bonds": [tr["ind"] for tr in out]}
        cases.append((cid, " && ".join(f"({e})" for e in exprs)))
    return cases, info


def corpus_stream(ctx):
    """minimised past failures (corpus/C14/*.json): explicit networks, run first"""
    import glob
    import json
    import os

    import quimb.tensor.belief_propagation as bpm
    from quimb.tensor.belief_propagation.bp_common import compute_tensor_marginal

    from harness.common import VERIF

    for path in sorted(glob.glob(os.path.join(VERIF, "corpus", "C14", "*.json"))):
        with open(path) as f:
            c = json.load(f)
        tens, dim = c["tens"], c["dim"]
        datas = [np.asarray(d, dtype=float) for d in c["datas"]]
        ex = complex(einsum_ref(tens, dim, datas))
        tags = [f"I{i}" for i in range(len(tens))]
        desc = {"stream": "corpus", "file": os.path.basename(path), "tens": tens, "dim": dim, "datas": c["datas"], "opts": c["opts"]}
        ctx.bump("corpus")
        ctx.count(("corpus", c["name"]), True)
        try:
            with warnings.catch_warnings():
                warnings.simplefilter("ignore")
                tn = build_tn(tens, datas)
                if c["call"] == "compute_tensor_marginal":
                    bp = bpm.HD1BP(tn)
                    bp.run(max_iterations=40, tol=0.0)
                    for tt, t in bp.tn.tensor_map.items():
                        if t.ndim:
                            pe = np.real(einsum_ref(tens, dim, datas, out=t.inds))
                            pm = np.asarray(compute_tensor_marginal(bp.tn, tt, bp.messages))
                            if not np.allclose(pm, pe / pe.sum(), rtol=1e-8):
                                ctx.violation(c["key"], "tensor marginal differs from the exact marginal", desc)
                    continue
                kw = dict(c["opts"])
                if c["flavour"] in ("l1bp", "l2bp"):
                    kw["site_tags"] = tags
                v = getattr(bpm, c["call"])(tn, **kw)
            if not close(v, ex, abs(ex)):
                ctx.violation(c["key"], f"{c['call']} returns {v}, exact contraction is {ex}", desc)
        except Exception as e:
            ctx.violation(c["key"], f"{c['call']} raised {type(e).__name__}: {str(e)[:100]}", desc)



def oracle_stream(ctx):
    budget = {"d1bp": ctx.n(110, 1500), "hd1bp": ctx.n(90, 1200), "hv1bp": ctx.n(90, 1200), "l1bp": ctx.n(45, 500),
              "d2bp": ctx.n(45, 500), "l2bp": ctx.n(22, 300)}
    for k, (flavour, N) in enumerate(budget.items()):
        for it in range(N):
            seed = ctx.seed * 7919 + 50000 + 10000 * k + it
            if flavour in ("d2bp", "l2bp"):
                case_2norm(ctx, flavour, seed)
            else:
                case_1norm(ctx, flavour, seed)
    for it in range(ctx.n(40, 600)):
        case_messages(ctx, ["d1bp", "hd1bp"][it % 2], ctx.seed * 7919 + 120000 + it)


def domain_stream(ctx):
    """inputs outside a flavour's domain must be rejected (or still be right), never silently wrong"""
    import quimb.tensor.belief_propagation as bpm

    for it in range(ctx.n(30, 200)):
        seed = ctx.seed * 7919 + 90000 + it
        rng = np.random.default_rng(seed)
        n = int(rng.integers(2, 8))
        desc = {"stream": "domain", "case_seed": seed}
        ctx.bump("domain")
        with warnings.catch_warnings():
            warnings.simplefilter("ignore")
            # HV1BP: sequential update is not supported
            tens, dim = gen_struct(rng, n, uniform=2)
            datas = [gen_data(rng, [dim[i] for i in ix], "pos") for ix in tens]
            try:
                bpm.HV1BP(build_tn(tens, datas), update="sequential")
                ctx.violation("hv1bp:domain:sequential_accepted", "HV1BP accepted update='sequential'", desc)
            except ValueError:
                pass
            try:
                b = bpm.HV1BP(build_tn(tens, datas))
                b.run(max_iterations=5, tol=0.0)
                b.contract(check_zero=True)
                ctx.violation("hv1bp:domain:check_zero_accepted", "HV1BP.contract accepted check_zero=True", desc)
            except NotImplementedError:
                pass
            # HV1BP with mixed bond sizes, D1BP with dangling / hyper indices, L1BP without site tags:
            # a raised exception is a clean rejection; a returned value must be the exact one
            tens, dim = gen_struct(rng, n, dims=(2, 3))
            datas = [gen_data(rng, [dim[i] for i in ix], "pos") for ix in tens]
            ex = complex(einsum_ref(tens, dim, datas))
            try:
                v = bpm.contract_hv1bp(build_tn(tens, datas), tol=0.0, max_iterations=40)
                if not close(v, ex, abs(ex)):
                    ctx.violation("hv1bp:domain:mixed_shapes_wrong_value", f"non-uniform bond sizes accepted, value {v} != {ex}", desc)
            except Exception:
                ctx.bump("domain_rejected")
            tens, dim = gen_struct(rng, n, hyper=bool(it % 2), dangling=1 + it % 2)
            datas = [gen_data(rng, [dim[i] for i in ix], "pos") for ix in tens]
            ex = complex(einsum_ref(tens, dim, datas))
            try:
                v = bpm.contract_d1bp(build_tn(tens, datas), tol=0.0, max_iterations=40)
                if not close(v, ex, abs(ex)):
                    ctx.violation("d1bp:domain:dangling_or_hyper_wrong_value", f"dangling/hyper index accepted, value {v} != {ex}",
                                  {**desc, "tens": tens, "dim": dim})
            except Exception:
                ctx.bump("domain_rejected")
            try:
                v = bpm.contract_l1bp(build_tn(tens, datas), tol=0.0, max_iterations=40)
                if not close(v, ex, abs(ex)):
                    ctx.violation("l1bp:domain:no_site_tags_wrong_value", f"no site tags, value {v} != {ex}", desc)
            except Exception:
                ctx.bump("domain_rejected")


def combine_oracle(ctx):
    from quimb.tensor.belief_propagation import combine_local_contractions

    rng = np.random.default_rng(ctx.seed * 7919 + 95000)
    for it in range(ctx.n(300, 4000)):
        nv = int(rng.integers(0, 8))
        cplx = bool(rng.integers(0, 2))
        vals = []
        for _ in range(nv):
            x = rng.normal() * 10 ** rng.uniform(-3, 3)
            if cplx:
                x = x * np.exp(1j * rng.uniform(0, 2 * np.pi))
            vals.append((x, int(rng.choice([1, -1, 2, -2]))))
        power = float(rng.choice([1.0, 1.0, 2.0, 0.5])) if not cplx else float(rng.choice([1.0, 2.0]))
        m0 = float(rng.choice([1.0, -1.0])) if power != 0.5 else 1.0
        e0 = float(rng.integers(-2, 3))
        strip = bool(rng.integers(0, 2))
        ctx.count(("combine_oracle", it), nv >= 2)
        ctx.bump("oracle_combine")
        want = m0 * 10**e0
        for x, p in vals:
            want = want * x**p
        if power == 0.5:
            if complex(want).real < 0 or abs(complex(want).imag) > 0:
                continue
            want = abs(want) ** 0.5
        else:
            want = want**power
        got = combine_local_contractions(vals, backend="numpy", strip_exponent=strip, check_zero=True, mantissa=m0, exponent=e0, power=power)
        if strip:
            got = got[0] * 10 ** got[1]
        if not abs(got - want) <= 1e-10 * abs(want):
            ctx.violation("combine_local_contractions:value", f"combined value {got} != prod x^p = {want}",
                          {"stream": "combine_oracle", "values": [(complex(x), p) for x, p in vals], "power": power,
                           "mantissa": m0, "exponent": e0, "strip_exponent": strip})
        # zero short-circuit
        if vals and rng.random() < 0.2:
            z = list(vals)
            z[int(rng.integers(0, len(z)))] = (0.0, 1)
            g = combine_local_contractions(z, backend="numpy", strip_exponent=strip, check_zero=True)
            if (g != (0.0, 0.0)) if strip else (g != 0.0):
                ctx.violation("combine_local_contractions:zero", "zero value with check_zero did not return zero",
                              {"stream": "combine_oracle", "values": [(complex(x), p) for x, p in z]})


def correspondence(ctx):
    """build the cases of the three correspondence streams, evaluate them all inside Coq in balanced shards"""
    import time

    streams = []
    for name, fn in (("d1bp", corr_d1bp), ("hd1bp", corr_hd1bp), ("combine", corr_combine), ("gauge", corr_gauge)):
        t0 = time.time()
        cases, info = fn(ctx)
        ctx.extra.setdefault("stage_wall_s", {})["impl_side_" + name] = round(time.time() - t0, 1)
        streams.append((name, cases, info))
    nshards = ctx.n(3, 24)  # coqc start-up dominates: few, balanced shards
    merged, back = [], {}
    gid = 0
    for b in range(nshards):
        for name, cases, info in streams:
            lo, hi = (len(cases) * b) // nshards, (len(cases) * (b + 1)) // nshards
            for cid, expr in cases[lo:hi]:
                gid += 1
                back[gid] = (name, info[cid])
                merged.append((gid, expr))
    # shard boundaries follow the balanced blocks
    per = -(-len(merged) // nshards)
    t0 = time.time()
    failed, errors = ctx.coq_cases("corr", HEADER, merged, shard=per, jobs=ctx.n(8, 16))
    ctx.extra["stage_wall_s"]["coq_correspondence"] = round(time.time() - t0, 1)
    for path, err in errors:
        ctx.broken_obligation("correspondence:" + path.split("/")[-1], err)
    out = []
    for g in failed:
        name, d = back[g]
        if len(out) < 6:
            ctx.broken_obligation(f"correspondence:{name}_model_vs_impl", d)
        if name == "combine":
            ctx.violation("combine_local_contractions:mantissa_exponent",
                          "combine_local_contractions(strip_exponent=True) differs from the mantissa / exponent of prod x^p",
                          {"stream": "corr_combine", **d})
        else:
            out.append(d)
    return out


def search_after_mismatch(ctx, failed_descs):
    """a correspondence case failed: run the direct oracle on those seeds (and neighbours) to get a concrete input"""
    for d in failed_descs[:6]:
        if d.get("stream") == "corr_gauge":
            for k in range(24):
                case_gauge(ctx, int(d["case_seed"]) * 31 + k)
            continue
        flav = "d1bp" if d.get("stream") == "corr_d1bp" else "hd1bp"
        for k in range(12):
            case_messages(ctx, flav, int(d["case_seed"]) * 31 + k)
            case_1norm(ctx, flav, int(d["case_seed"]) * 31 + k)


def run(ctx):
    ctx.extra["rule"] = RULE
    ctx.trusted_base += [
        "hand-written model coq/C14/Model.v (combine_local_contractions loop; tensor contracted with messages on all / "
        "all-but-one legs; rooted tensor trees; raw BP update; Bethe local contractions; copy tensor of a hyper-index); "
        "tie = evaluation inside Coq on the trees the implementation ran on: identity-normalised D1BP / HD1BP runs are "
        "compared EXACTLY (converged messages, one parallel round, one sequential round in the observed order, HD1BP half "
        "steps), normalised runs by integer cross-multiplication at relative 1e-9 (float division is unavoidable)",
        "harness: rooting of the implementation's network into the model's tree (leg order [parent; children]), message-key "
        "mapping, float -> exact rational conversion (Fraction), module-global rebinding of "
        "d1bp.compute_all_tensor_messages_tree to observe the sequential order",
        "modelled, not verified: numpy / cotengra contractions; the pairwise 'tree' halving inside "
        "compute_all_tensor_messages_tree (modelled by its result, the all-but-one contraction); L2 / L2phased / Linf "
        "normalisation (any non-zero scalar in the model); 2-norm flavours (D2BP, L2BP), lazy site grouping (L1BP), "
        "HV1BP batching, gauging / compression, DIIS, local_convergence bookkeeping: oracle stream only (tests at 1e-8)",
        "D2BP.gauge_insert factors: hand model coq/C14/GaugeModel.v (msqrt = ldmul(s, dag(W)), minv = rddiv(W, s), smudged / "
        "powered spectrum, Tensor.gate_ on one fibre); tie = entrywise comparison inside Coq (exact Gaussian-integer "
        "arithmetic, 1e-9 of the Frobenius norm: one float rounding per entry) of the factors the implementation returned with "
        "the model evaluated on numpy.linalg.eigh of the same message (trusted: eigh, sqrt / clip, that eigh is reproducible); "
        "that the messages are the exact environments, gauge_temp / gate_ / the re-run norm: tests against numpy references",
    ]
    ctx.assumptions += [
        "theorems quantify over rooted trees; a network is mapped to a tree by the harness (checked per case: the model's "
        "value equals the implementation's exact contraction)",
        "schedule theorem covers undamped fair schedules; damping is covered by fixed-point invariance + stability, the "
        "asymptotic convergence under damping is tested, not proved",
    ]
    ctx.check_props(["Base/Sums.vo", "C14/Model.vo", "C14/Combine.vo", "C14/Contract.vo", "C14/Sched.vo", "C14/Tree.vo",
                     "C14/Final.vo", "C14/GaugeModel.vo", "C14/Gauge.vo", "C14/Props.v"])
    import time

    def timed(fn, *a):
        t0 = time.time()
        r = ctx.stage(fn, *a)
        ctx.extra.setdefault("stage_wall_s", {})[fn.__name__] = round(time.time() - t0, 1)
        return r

    timed(corpus_stream)
    f1 = timed(correspondence) or []
    f2 = []
    timed(oracle_stream)
    timed(domain_stream)
    timed(combine_oracle)
    if f1 or f2:
        ctx.stage(search_after_mismatch, f1 + f2)


def replay(ctx, path):
    import json

    with open(path) as f:
        d = json.load(f)
    r = d.get("replay", {})
    st = r.get("stream")
    if st == "oracle_1norm":
        case_1norm(ctx, r["flavour"], int(r["case_seed"]))
    elif st == "oracle_2norm":
        case_2norm(ctx, r["flavour"], int(r["case_seed"]))
    elif st == "oracle_messages":
        case_messages(ctx, r["flavour"], int(r["case_seed"]))
    elif st == "oracle_gauge":
        case_gauge(ctx, int(r["case_seed"]))
    else:
        run(ctx)

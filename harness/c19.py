"""C19 - all representations of one Hamiltonian denote the same operator.

Proof part (coq/C19): every configuration-ranking kernel is a bijection
[0, sector size) <-> sector configurations, sizes 2^n / prod / 2^(n-1) /
C(n,k) / C(na,ka)C(nb,kb)  (hand model of quimb/operator/configcore.py).
Tie (H): exhaustive correspondence - the numba kernels and the HilbertSpace
API against the model, evaluated in Coq with vm_compute for every rank of
every sector up to a size bound.
Representation part (exact oracle on the implementation, labelled test /
searcher): random term lists with small Gaussian-integer coefficients through
every representation vs an independent numpy reference (ordered product of
embedded named 2x2 operators, explicit Jordan-Wigner strings, sector
projection by lexicographic enumeration).
Spin-chain MPO (coq/C19/SpinHam.v, SpinHamProofs.v): hand model of the array
spin_ham_mpo_tensor writes and of SpinHam1D.build_mpo's per-site term lookup;
theorems: over every non-commutative semiring the open / periodic chain of
these tensors denotes sum f A_i + sum f A_i B_{i+1} (A on the left site).
Tie: exact layout correspondence in Coq on Gaussian-integer operator arrays;
the dense values of build_mpo / build_sparse / build_local_ham are compared
with an explicit numpy sum (test stream).
"""

import itertools
import math
import time

import numpy as np

from harness.common import natlit, zlist, zlit

RULE = (
    "ranks: exhaustive over all ranks of all (symmetry, n, sector) up to the size bound, impl kernels vs "
    "Coq model (both directions); representations: random term lists (locality 1-4, repeated same-site "
    "operators, Gaussian-integer coefficients, JW / Pauli rewrites, site relabelling) through dense, sparse "
    "(4 formats), matvec serial/parallel, linear operator, local terms, ikron, MPO, and symmetry sectors; "
    "SpinHam1D: random default + site / bond specific term lists whose two-site operator pairs are drawn "
    "independently (asymmetric terms), spin 1/2 and 1, named operators / qarrays / ndarrays, open and periodic, "
    "through build_mpo, build_sparse, build_local_ham vs an explicit numpy sum, with the site tensors of "
    "build_mpo and every (|one|, |two|, |left|, which, cyclic) of spin_ham_mpo_tensor compared exactly with the "
    "Coq layout model on Gaussian-integer operators. "
    "Non-trivial: sector size > 1 for ranks; term list with >= 2 terms or a same-site product for representations; "
    "at least one two-site term for SpinHam1D."
)

OPS = {
    "I": np.array([[1, 0], [0, 1]], dtype=complex),
    "x": np.array([[0, 1], [1, 0]], dtype=complex),
    "y": np.array([[0, -1j], [1j, 0]], dtype=complex),
    "z": np.array([[1, 0], [0, -1]], dtype=complex),
    "sx": np.array([[0, 0.5], [0.5, 0]], dtype=complex),
    "sy": np.array([[0, -0.5j], [0.5j, 0]], dtype=complex),
    "sz": np.array([[0.5, 0], [0, -0.5]], dtype=complex),
    "+": np.array([[0, 0], [1, 0]], dtype=complex),  # |1><0|
    "-": np.array([[0, 1], [0, 0]], dtype=complex),  # |0><1|
    "n": np.array([[0, 0], [0, 1]], dtype=complex),
    "sn": np.array([[-0.5, 0], [0, 0.5]], dtype=complex),
    "h": np.array([[1, 0], [0, 0]], dtype=complex),
    "\u2d35": np.array([[0, 1], [-1, 0]], dtype=complex),  # ZX = iY ("real Y"), only appears in processed terms
}


def embed(mat, reg, n):
    out = np.array([[1.0 + 0j]])
    for r in range(n):
        out = np.kron(out, mat if r == reg else OPS["I"])
    return out


def embed_multi(hk, regs, n):
    """k-site matrix hk (row/col index = the listed registers, first most
    significant) embedded into n qubits - plain numpy, independent of quimb."""
    k = len(regs)
    if k == 0:
        return complex(np.asarray(hk).reshape(-1)[0]) * np.eye(2**n, dtype=complex)
    T = np.asarray(hk, dtype=complex).reshape([2] * (2 * k))
    rest = [r for r in range(n) if r not in regs]
    full = np.einsum(T, list(range(2 * k)))
    for _ in rest:
        full = np.multiply.outer(full, np.eye(2, dtype=complex))
    # axes now: out(regs), in(regs), then (out,in) pairs for rest
    order_out = list(regs) + rest
    cur_out = list(range(k)) + [2 * k + 2 * i for i in range(len(rest))]
    cur_in = list(range(k, 2 * k)) + [2 * k + 2 * i + 1 for i in range(len(rest))]
    perm_out = [cur_out[order_out.index(r)] for r in range(n)]
    perm_in = [cur_in[order_out.index(r)] for r in range(n)]
    return full.transpose(perm_out + perm_in).reshape(2**n, 2**n)


def ref_matrix(terms, regs_of, n, jw=False):
    """sum_t coeff_t * ordered product of embedded single-site operators."""
    D = 2**n
    H = np.zeros((D, D), dtype=complex)
    for coeff, ops in terms:
        M = np.eye(D, dtype=complex)
        for op, site in ops:
            reg = regs_of[site]
            if jw and op in ("+", "-"):
                for r in range(reg):
                    M = M @ embed(OPS["z"], r, n)
            M = M @ embed(OPS[op], reg, n)
        H += coeff * M
    return H


# ----------------------------------------------------------------------------
# ranks


def lex_configs(n, pred):
    return [c for c in itertools.product((0, 1), repeat=n) if pred(c)]


def rank_correspondence(ctx):
    from quimb.operator import configcore as cc

    nmax = ctx.n(9, 13)
    cases = []
    info = {}
    cid = 0

    def add(desc, expr):
        nonlocal cid
        cid += 1
        info[cid] = desc
        cases.append((cid, expr))

    def cfgs_lit(cfgs):
        return "[" + "; ".join(zlist(c) for c in cfgs) + "]"

    # nosymm
    for n in range(1, nmax + 1):
        D = 2**n
        if D > 2048:
            break
        impl = [list(map(int, cc.rank_to_flatconfig_nosymm(r, n))) for r in range(D)]
        ranks = [int(cc.flatconfig_to_rank_nosymm(np.array(c, dtype=np.uint8))) for c in impl]
        ctx.count(("nosymm", n), D > 1, n=D)
        ctx.bump("nosymm", D)
        add({"sym": "nosymm", "n": n, "impl_first": impl[:4]},
            f"check_unrank (fun r => unrank_nosymm r {natlit(n)}) rank_nosymm {cfgs_lit(impl)} {zlist(ranks)}")
        if sorted(map(tuple, impl)) != lex_configs(n, lambda c: True) or ranks != list(range(D)):
            report_rank(ctx, "nosymm", {"n": n}, impl, ranks)
    # mixed radix
    rng = ctx.rng
    size_lists = [[2, 3], [3, 2], [3, 3, 2], [2, 1, 3], [4, 2, 3], [2, 2, 5, 2], [3, 1, 1, 2], [5], [2, 3, 4, 2]]
    for _ in range(ctx.n(6, 40)):
        size_lists.append([rng.randint(1, 4) for _ in range(rng.randint(1, 5))])
    for sizes in size_lists:
        D = int(np.prod(sizes))
        if D > 600:
            continue
        sz = np.array(sizes, dtype=np.uint8)
        st = cc.calculate_strides(sz)
        impl, ranks = [], []
        for r in range(D):
            c = cc.rank_to_flatconfig_mixed_radix_nosymm(np.uint64(r), sz, st)
            impl.append(list(map(int, c)))
            ranks.append(int(cc.flatconfig_to_rank_mixed_radix_nosymm(c, st)))
        ctx.count(("mixed", tuple(sizes)), D > 1, n=D)
        ctx.bump("mixed", D)
        add({"sym": "mixed", "sizes": sizes},
            f"check_unrank (fun r => unrank_mixed r {zlist(sizes)} (strides {zlist(sizes)})) "
            f"(fun c => rank_mixed c (strides {zlist(sizes)})) {cfgs_lit(impl)} {zlist(ranks)} "
            f"&& list_eqb (strides {zlist(sizes)}) {zlist([int(x) for x in st])}")
        want = [list(c) for c in itertools.product(*[range(d) for d in sizes])]
        if impl != want or ranks != list(range(D)):
            report_rank(ctx, "mixed", {"sizes": sizes}, impl, ranks)
    # z2
    for n in range(1, nmax + 1):
        for p in (0, 1):
            D = 2 ** (n - 1)
            if D > 2048:
                continue
            impl = [list(map(int, cc.rank_to_flatconfig_z2(r, n, p))) for r in range(D)]
            ranks = [int(cc.flatconfig_to_rank_z2(np.array(c, dtype=np.uint8))) for c in impl]
            ctx.count(("z2", n, p), D > 1, n=D)
            ctx.bump("z2", D)
            add({"sym": "z2", "n": n, "p": p},
                f"check_unrank (fun r => unrank_z2 r {natlit(n)} {zlit(p)}) rank_z2 {cfgs_lit(impl)} {zlist(ranks)}")
            want = [list(c) for c in lex_configs(n, lambda c: sum(c) % 2 == p)]
            if impl != want or ranks != list(range(D)):
                report_rank(ctx, "z2", {"n": n, "p": p}, impl, ranks)
    # u1
    for n in range(1, nmax + 1):
        pt = cc.build_pascal_table(n)
        ptl = [[int(x) for x in row] for row in pt]
        add({"sym": "pascal", "n": n},
            "forallb (fun nk => binom (fst (fst nk)) (snd (fst nk)) =? snd nk) ["
            + "; ".join(f"({natlit(a)}, {natlit(b)}, {zlit(ptl[a][b])})" for a in range(n + 1) for b in range(n + 1))
            + "]")
        for k in range(0, n + 1):
            D = math.comb(n, k)
            if D > 2048:
                continue
            impl = [list(map(int, cc.rank_to_flatconfig_u1_pascal(r, n, k, pt))) for r in range(D)]
            ranks = [int(cc.flatconfig_to_rank_u1_pascal(np.array(c, dtype=np.uint8), n, k, pt)) for c in impl]
            ctx.count(("u1", n, k), D > 1, n=D)
            ctx.bump("u1", D)
            add({"sym": "u1", "n": n, "k": k},
                f"check_unrank (fun r => unrank_u1 {natlit(n)} r {natlit(k)}) (fun c => rank_u1 c {natlit(k)}) "
                f"{cfgs_lit(impl)} {zlist(ranks)}")
            want = [list(c) for c in lex_configs(n, lambda c: sum(c) == k)]
            if impl != want or ranks != list(range(D)):
                report_rank(ctx, "u1", {"n": n, "k": k}, impl, ranks)
    # u1u1
    half = ctx.n(4, 6)
    for na, nb in itertools.product(range(1, half + 1), repeat=2):
        pt = cc.build_pascal_table(max(na, nb))
        for ka, kb in itertools.product(range(na + 1), range(nb + 1)):
            D = math.comb(na, ka) * math.comb(nb, kb)
            if D > 1200:
                continue
            impl = [list(map(int, cc.rank_to_flatconfig_u1u1_pascal(r, na, ka, nb, kb, pt))) for r in range(D)]
            ranks = [int(cc.flatconfig_to_rank_u1u1_pascal(np.array(c, dtype=np.uint8), na, ka, nb, kb, pt)) for c in impl]
            ctx.count(("u1u1", na, ka, nb, kb), D > 1, n=D)
            ctx.bump("u1u1", D)
            add({"sym": "u1u1", "sector": [na, ka, nb, kb]},
                f"check_unrank (fun r => unrank_u1u1 r {natlit(na)} {natlit(ka)} {natlit(nb)} {natlit(kb)}) "
                f"(fun c => rank_u1u1 c {natlit(na)} {natlit(ka)} {natlit(nb)} {natlit(kb)}) "
                f"{cfgs_lit(impl)} {zlist(ranks)}")
            want = [list(a + b) for a in lex_configs(na, lambda c: sum(c) == ka)
                    for b in lex_configs(nb, lambda c: sum(c) == kb)]
            if impl != want or ranks != list(range(D)):
                report_rank(ctx, "u1u1", {"sector": [na, ka, nb, kb]}, impl, ranks)
    header = (
        "From Coq Require Import ZArith List Bool.\nFrom QV Require Import C19.Model.\n"
        "Import ListNotations.\nOpen Scope Z_scope.\n"
        "Fixpoint list_eqb (a b : list Z) : bool := match a, b with [], [] => true "
        "| x :: a', y :: b' => (x =? y) && list_eqb a' b' | _, _ => false end.\n"
        "(* impl configs listed for r = 0,1,2,...; impl ranks of those configs *)\n"
        "Fixpoint check_from (un : Z -> list Z) (rk : list Z -> Z) (r : Z) (cfgs : list (list Z)) (ranks : list Z) : bool :=\n"
        "  match cfgs, ranks with [], [] => true\n"
        "  | c :: cfgs', k :: ranks' => list_eqb (un r) c && (rk c =? k) && (k =? r) && check_from un rk (r + 1) cfgs' ranks'\n"
        "  | _, _ => false end.\n"
        "Definition check_unrank un rk cfgs ranks := check_from un rk 0 cfgs ranks.\n"
    )
    failed, errors = ctx.coq_cases("ranks", header, cases, shard=12)
    for path, err in errors:
        ctx.broken_obligation("correspondence:ranks:" + path.split("/")[-1], err)
    for c in failed[:6]:
        ctx.broken_obligation("correspondence:rank_model_vs_impl", info[c])
    ctx.sample({"sym": "u1", "n": 4, "k": 2, "impl_configs_by_rank":
                [list(map(int, cc.rank_to_flatconfig_u1_pascal(r, 4, 2, cc.build_pascal_table(4)))) for r in range(6)]})


def report_rank(ctx, sym, params, impl, ranks):
    ctx.violation(
        f"rank:{sym}",
        f"{sym} ranking is not the lexicographic bijection onto [0, size) for {params}",
        {"call": f"rank_to_flatconfig_{sym} / flatconfig_to_rank_{sym}", "params": params,
         "configs_by_rank": impl[:40], "ranks_of_those": ranks[:40]},
    )


def hilbert_api(ctx):
    """HilbertSpace public API: sizes and round trips for arbitrary labels / orderings."""
    from quimb.operator import HilbertSpace

    rng = ctx.rng
    for _ in range(ctx.n(60, 600)):
        n = rng.randint(1, 6)
        labels = rng.sample([("a", i) for i in range(4)] + [("b", i) for i in range(4)] + list("pqrs"), n) \
            if rng.random() < 0.5 else list(range(n))
        kind = rng.choice(["none", "Z2", "U1", "U1U1", "mixed"])
        try:
            if kind == "none":
                hs = HilbertSpace(labels, order=rng.choice([None, True]) if all(isinstance(x, int) for x in labels) else None)
                want = 2**n
            elif kind == "Z2":
                p = rng.randint(0, 1)
                hs = HilbertSpace(labels, symmetry="Z2", sector=p)
                want = 2 ** (n - 1)
            elif kind == "U1":
                k = rng.randint(0, n)
                hs = HilbertSpace(labels, symmetry="U1", sector=k)
                want = math.comb(n, k)
            elif kind == "U1U1":
                na = rng.randint(1, max(1, n - 1)) if n > 1 else 1
                nb = n - na
                if nb < 1:
                    continue
                ka, kb = rng.randint(0, na), rng.randint(0, nb)
                hs = HilbertSpace(labels, symmetry="U1U1", sector=((na, ka), (nb, kb)))
                want = math.comb(na, ka) * math.comb(nb, kb)
            else:
                dims = [rng.randint(1, 4) for _ in range(n)]
                hs = HilbertSpace(labels, dims=dims)
                want = int(np.prod(dims))
        except Exception as e:  # rejected configuration
            ctx.bump("hilbert_rejected")
            continue
        ctx.count(("hs", kind, n, str(labels)), want > 1)
        ok = int(hs.size) == want
        seen = set()
        for r in range(min(want, 300)):
            cfg = hs.rank_to_config(r)
            r2 = int(hs.config_to_rank(cfg))
            fc = tuple(int(x) for x in hs.rank_to_flatconfig(r))
            seen.add(fc)
            if r2 != r or set(cfg) != set(labels):
                ok = False
        if len(seen) != min(want, 300):
            ok = False
        if not ok:
            ctx.violation(
                f"hilbertspace:{kind}",
                f"HilbertSpace({kind}) size / rank<->config round trip fails",
                {"call": "HilbertSpace", "labels": [str(x) for x in labels], "kind": kind, "size": int(hs.size), "want": want},
            )


# ----------------------------------------------------------------------------
# representations


def rand_terms(rng, n, sites, fermionic):
    nterms = rng.randint(1, 5)
    names = ["x", "y", "z", "sx", "sy", "sz", "+", "-", "n", "sn", "h"]
    terms = []
    for _ in range(nterms):
        loc = rng.randint(1, min(4, n + 1))
        ops = []
        for _ in range(loc):
            s = rng.choice(sites)
            if fermionic and rng.random() < 0.6:
                op = rng.choice(["+", "-", "n"])
            else:
                op = rng.choice(names)
            ops.append((op, s))
        re, im = rng.randint(-3, 3), rng.choice([0, 0, 0, 1, -2])
        if re == 0 and im == 0:
            re = 1
        terms.append((complex(re, im) if im else float(re), tuple(ops)))
    return terms


def representations(ctx):
    import quimb as qu
    import quimb.operator as qop

    rng = ctx.rng
    N = ctx.n(120, 1500)
    have_nx = True
    try:
        import networkx  # noqa
    except ImportError:
        have_nx = False
    ctx.extra["networkx_available_for_mpo"] = have_nx
    for it in range(N):
        n = rng.randint(1, 4)
        relabel = rng.random() < 0.4
        sites = [("s", i * 3 % 7, i) for i in range(n)] if relabel else list(range(n))
        fermionic = rng.random() < 0.4
        jw = fermionic and rng.random() < 0.7
        pd = rng.choice([False, False, True, "zx"])
        terms = rand_terms(rng, n, sites, fermionic)
        hs = qop.HilbertSpace(sites)
        regs_of = {s: hs.site_to_reg(s) for s in sites}
        ref = ref_matrix(terms, regs_of, n, jw=jw)
        same_site = any(len({s for _, s in ops}) < len(ops) for _, ops in terms)
        desc = {"n": n, "sites": [str(s) for s in sites], "terms": [(str(c), [(o, str(s)) for o, s in ops]) for c, ops in terms],
                "jordan_wigner": jw, "pauli_decompose": pd}
        ctx.count(desc, len(terms) >= 2 or same_site)
        ctx.bump("same_site_product" if same_site else "distinct_sites")
        ctx.bump("jw" if jw else "no_jw")
        if it < 3:
            ctx.sample(desc)

        def fail(what, got=None):
            ctx.violation(
                f"repr:{what}",
                f"{what} differs from the reference operator (sum of ordered products of embedded named operators)",
                {"case": desc, "representation": what,
                 "got": None if got is None else np.asarray(got).round(6).tolist()[:8],
                 "want": ref.round(6).tolist()[:8]},
            )

        def close(a, b):
            a = np.asarray(a)
            return a.shape == np.shape(b) and np.allclose(a, b, atol=1e-9, rtol=0)

        try:
            H = qop.SparseOperatorBuilder(hilbert_space=hs, jordan_wigner=jw, pauli_decompose=pd)
            for coeff, ops in terms:
                H += (coeff, *ops)
            A = H.build_dense()
        except Exception as e:
            fail("build_dense:raised:" + type(e).__name__)
            continue
        if not close(A, ref):
            fail("build_dense", A)
            continue
        for stype in ("csr", "csc", "coo", "bsr"):
            S = H.build_sparse_matrix(stype=stype)
            if S.format != stype or not close(S.toarray(), ref):
                fail(f"build_sparse_matrix[{stype}]", S.toarray())
        x = np.array([complex(rng.randint(-2, 2), rng.randint(-2, 2)) for _ in range(2**n)])
        xr = x.real.copy()
        for par in (False, 2, 3):
            try:
                y = H.matvec(x, parallel=par)
                if not close(y, ref @ x):
                    fail(f"matvec[parallel={par}]", y)
            except Exception as e:
                fail(f"matvec[parallel={par}]:raised:{type(e).__name__}")
        try:
            lo = H.aslinearoperator()
            if not close(lo @ x, ref @ x):
                fail("aslinearoperator@complex", lo @ x)
            if not close(lo @ xr, ref @ xr):
                fail("aslinearoperator@real", lo @ xr)
        except Exception as e:
            fail("aslinearoperator:raised:" + type(e).__name__)
        empty = len(H.terms) == 0  # every term was null: the zero operator
        if empty:
            ctx.bump("all_terms_null")
            continue
        try:
            K = H.build_matrix_ikron()
            K = K.toarray() if hasattr(K, "toarray") else np.asarray(K)
            if not close(K, ref):
                fail("build_matrix_ikron", K)
        except Exception as e:
            fail("build_matrix_ikron:raised:" + type(e).__name__)
        try:
            Hk = H.build_local_terms()
            tot = np.zeros_like(ref)
            for ss, hk in Hk.items():
                # local matrix acts on the listed sites in that order
                tot += embed_multi(hk, [regs_of[s] for s in ss], n)
            if not close(tot, ref):
                fail("build_local_terms", tot)
        except Exception as e:
            fail("build_local_terms:raised:" + type(e).__name__)
        if have_nx and n >= 1:
            try:
                mpo = H.build_mpo()
                M = np.asarray(mpo.to_dense())
                if not close(M, ref):
                    fail("build_mpo", M)
            except Exception as e:
                fail("build_mpo:raised:" + type(e).__name__)
        # symmetry sectors: the sector matrix is the full matrix between sector basis states
        cfgs_all = list(itertools.product((0, 1), repeat=n))
        comm_par = np.allclose(ref @ np.diag([(-1) ** sum(c) for c in cfgs_all]),
                               np.diag([(-1) ** sum(c) for c in cfgs_all]) @ ref)
        Nop = np.diag([float(sum(c)) for c in cfgs_all])
        comm_num = np.allclose(ref @ Nop, Nop @ ref)
        # the builder works term by term: the documented domain of a sector build is a list whose
        # processed terms each conserve the symmetry (a Pauli-decomposed hopping term does not)
        Par = np.diag([(-1.0) ** sum(c) for c in cfgs_all])
        for fcoeff, fops in H.terms:
            Mt = ref_matrix([(fcoeff, fops)], regs_of, n, jw=False)
            comm_par = comm_par and np.allclose(Mt @ Par, Par @ Mt)
            comm_num = comm_num and np.allclose(Mt @ Nop, Nop @ Mt)
        if comm_par:
            for p in (0, 1):
                idx = [i for i, c in enumerate(cfgs_all) if sum(c) % 2 == p]
                try:
                    Sp = H.build_dense(symmetry="Z2", sector=p)
                    if not close(Sp, ref[np.ix_(idx, idx)]):
                        fail(f"sector[Z2,{p}]", Sp)
                    ctx.bump("z2_sector_checked")
                except Exception as e:
                    fail(f"sector[Z2,{p}]:raised:{type(e).__name__}")
        if comm_num:
            for k in range(n + 1):
                idx = [i for i, c in enumerate(cfgs_all) if sum(c) == k]
                try:
                    Sk = H.build_dense(symmetry="U1", sector=k)
                    if not close(Sk, ref[np.ix_(idx, idx)]):
                        fail(f"sector[U1,{k}]", Sk)
                    ctx.bump("u1_sector_checked")
                except Exception as e:
                    fail(f"sector[U1,{k}]:raised:{type(e).__name__}")


def model_builders(ctx):
    """spin-chain MPO builders vs matrix-side generators for the same model, and the MPO_ham_* / ham_1d_*
    families (open and periodic, spin 1/2 and 1) vs the explicit sum of embedded spin operators."""
    import quimb as qu
    import quimb.tensor as qtn

    for L in ctx.n([2, 3, 4], [2, 3, 4, 5, 6]):
        pairs = [
            ("heis", lambda: qtn.MPO_ham_heis(L, j=(1.0, 2.0, -1.0), bz=0.5), lambda: qu.ham_heis(L, j=(1.0, 2.0, -1.0), b=0.5, cyclic=False)),
            ("ising", lambda: qtn.MPO_ham_ising(L, j=2.0, bx=0.5), lambda: qu.ham_ising(L, jz=2.0, bx=0.5, cyclic=False)),
            ("XY", lambda: qtn.MPO_ham_XY(L, j=(1.0, 0.5), bz=0.25), lambda: qu.ham_heis(L, j=(1.0, 0.5, 0.0), b=(0.0, 0.0, 0.25), cyclic=False)),
        ]
        if L >= 3:  # a periodic chain of 2 sites is a double bond: convention, not tested
            pairs += [
                ("heis:cyclic", lambda: qtn.MPO_ham_heis(L, j=(1.0, 2.0, -1.0), bz=0.5, cyclic=True), lambda: qu.ham_heis(L, j=(1.0, 2.0, -1.0), b=0.5, cyclic=True)),
                ("ising:cyclic", lambda: qtn.MPO_ham_ising(L, j=2.0, bx=0.5, cyclic=True), lambda: qu.ham_ising(L, jz=2.0, bx=0.5, cyclic=True)),
                ("XXZ:cyclic", lambda: qtn.tensor_builder.MPO_ham_XXZ(L, 0.5, jxy=2.0, cyclic=True), lambda: qu.ham_XXZ(L, 0.5, jxy=2.0, cyclic=True)),
            ]
        for name, fm, fd in pairs:
            ctx.count(("model", name, L), True)
            try:
                A = np.asarray(fm().to_dense())
                B = np.asarray(fd())
            except Exception as e:
                ctx.violation(f"models:{name}:raised", f"MPO_ham_{name} / ham_{name} raised {type(e).__name__}: {e}",
                              {"model": name, "L": L})
                continue
            if A.shape != B.shape or not np.allclose(A, B, atol=1e-10):
                ctx.violation(f"models:{name}", f"MPO_ham_{name}({L}) differs from ham_{name}({L})",
                              {"model": name, "L": L, "max_abs_diff": float(np.max(np.abs(A - B)))})
    # MPO_ham_* and ham_1d_* (LocalHam1D) vs the explicit sum, random couplings, spin 1/2 and 1
    rng = ctx.rng
    vals = [0.5, 1.0, 1.5, 2.0, -1.0, 0.25, -0.5]
    for _ in range(ctx.n(12, 100)):
        S = rng.choice([0.5, 1.0])
        D = int(2 * S + 1)
        cyc = rng.random() < 0.4
        L = rng.randint(3 if cyc else 2, 4 if D == 3 else 5)
        tab = spin_table(S)
        bonds = [(i, i + 1) for i in range(L - 1)] + ([(L - 1, 0)] if cyc else [])
        jx, jy, jz, bf = (rng.choice(vals) for _ in range(4))
        if rng.random() < 0.3:
            jy = jx

        def explicit(coup, field):
            H = np.zeros((D**L, D**L), dtype=complex)
            for (u, v) in bonds:
                for c, a in coup:
                    H += c * embed_sites([tab[a], tab[a]], [u, v], L, D)
            for i in range(L):
                for c, a in field:
                    H += c * embed_sites([tab[a]], [i], L, D)
            return H

        fam = [
            ("heis", dict(j=(jx, jy, jz), bz=bf), explicit([(jx, "X"), (jy, "Y"), (jz, "Z")], [(-bf, "Z")])),
            ("ising", dict(j=jz, bx=bf), explicit([(jz, "Z")], [(-bf, "X")])),
            ("XY", dict(j=(jx, jy), bz=bf), explicit([(jx, "X"), (jy, "Y")], [(-bf, "Z")])),
        ]
        for name, kw, want in fam:
            ctx.count(("family", name, S, L, cyc, repr(kw)), True)
            ctx.bump(f"family:{name}:{'cyclic' if cyc else 'open'}:S={S}")
            params = dict(L=L, S=S, cyclic=cyc, **kw)
            try:
                got = np.asarray(getattr(qtn, "MPO_ham_" + name)(L, S=S, cyclic=cyc, **kw).to_dense())
                if got.shape != want.shape or not np.allclose(got, want, atol=1e-10):
                    ctx.violation(f"models:MPO_ham_{name}:explicit_sum", f"MPO_ham_{name} differs from the explicit sum of embedded spin operators",
                                  {"params": repr(params), "max_abs_diff": float(np.max(np.abs(got - want))) if got.shape == want.shape else None})
                lh = getattr(qtn, "ham_1d_" + name)(L, S=S, cyclic=cyc, **kw)
                tot = np.zeros_like(want)
                for (a, b), h in lh.terms.items():
                    tot += embed_pair(np.asarray(h), a, b, L, D)
                if not np.allclose(tot, want, atol=1e-10):
                    ctx.violation(f"models:ham_1d_{name}:explicit_sum", f"the terms of ham_1d_{name} do not sum to the explicit sum of embedded spin operators",
                                  {"params": repr(params), "max_abs_diff": float(np.max(np.abs(tot - want)))})
            except Exception as e:
                ctx.violation(f"models:{name}:family:raised:{type(e).__name__}", f"MPO_ham_{name} / ham_1d_{name} raised {e}", {"params": repr(params)})


# ----------------------------------------------------------------------------
# SpinHam1D / spin_ham_mpo_tensor: term list -> MPO, sparse matrix, local terms


def spin_table(S):
    """spin-S operators in the basis m = S, S-1, ..., -S, from the textbook ladder formula
    (independent of quimb.spin_operator)."""
    D = int(round(2 * S + 1))
    ms = [S - k for k in range(D)]
    Sp = np.zeros((D, D), dtype=complex)
    for k in range(1, D):  # S+ |m> = sqrt(S(S+1) - m(m+1)) |m+1>
        m = ms[k]
        Sp[k - 1, k] = math.sqrt(S * (S + 1) - m * (m + 1))
    Sm = Sp.conj().T
    return {"X": (Sp + Sm) / 2, "Y": (Sp - Sm) / 2j, "Z": np.diag(ms).astype(complex),
            "+": Sp, "-": Sm, "I": np.eye(D, dtype=complex)}


def embed_sites(mats, sites, L, D):
    """kron of the given D x D matrices at the given (distinct) sites of an L-site chain, identity elsewhere."""
    at = dict(zip(sites, mats))
    out = np.array([[1.0 + 0j]])
    for i in range(L):
        out = np.kron(out, at.get(i, np.eye(D)))
    return out


def embed_pair(h, a, b, L, D):
    """(D^2 x D^2) matrix h acting on the ordered pair of sites (a, b), a != b, not necessarily adjacent."""
    T = np.asarray(h, dtype=complex).reshape(D, D, D, D)  # (out_a, out_b, in_a, in_b)
    rest = [r for r in range(L) if r not in (a, b)]
    full = T
    for _ in rest:
        full = np.multiply.outer(full, np.eye(D, dtype=complex))
    pos_out = {a: 0, b: 1}
    pos_in = {a: 2, b: 3}
    for k, r in enumerate(rest):
        pos_out[r] = 4 + 2 * k
        pos_in[r] = 5 + 2 * k
    perm = [pos_out[r] for r in range(L)] + [pos_in[r] for r in range(L)]
    return full.transpose(perm).reshape(D**L, D**L)


def glit(z):
    z = complex(z)
    return f"({zlit(round(z.real))}, {zlit(round(z.imag))})"


def gmlit(M):
    return "[" + "; ".join(glit(x) for x in np.asarray(M, dtype=complex).reshape(-1)) + "]"


def is_gauss_int(A):
    A = np.asarray(A, dtype=complex)
    return bool(np.all(A.real == np.round(A.real)) and np.all(A.imag == np.round(A.imag)))


def t1_lit(terms, mat):
    return "[" + "; ".join(f"({glit(f)}, {gmlit(mat(a))})" for f, a in terms) + "]"


def t2_lit(terms, mat):
    return "[" + "; ".join(f"({glit(f)}, {gmlit(mat(a))}, {gmlit(mat(b))})" for f, a, b in terms) + "]"


def row_lit(arr):  # (B, D, D)
    return "[" + "; ".join(gmlit(x) for x in arr) + "]"


def mat_lit(arr):  # (BL, B, D, D)
    return "[" + "; ".join(row_lit(r) for r in arr) + "]"


SPINHAM_HEADER = (
    "From Coq Require Import ZArith List Bool.\nFrom QV Require Import C19.SpinHam.\n"
    "Import ListNotations.\nOpen Scope Z_scope.\n"
)


def int_matrix_pool(rng, D):
    """Gaussian-integer D x D operators: 2 * spin operators where integral, ladder / projector units, random."""
    pool = []
    if D == 2:
        pool += [np.array([[0, 1], [1, 0]]), np.array([[0, -1j], [1j, 0]]), np.array([[1, 0], [0, -1]]),
                 np.array([[0, 1], [0, 0]]), np.array([[0, 0], [1, 0]]), np.array([[0, 0], [0, 1]])]
    else:
        pool += [np.diag([1, 0, -1]), np.diag([1, 1], 1), np.diag([1, 1], -1), np.diag([1, 0, 0])]
    for _ in range(3):
        M = np.array([[rng.choice([0, 0, 1, -1, 2]) for _ in range(D)] for _ in range(D)], dtype=complex)
        if rng.random() < 0.3:
            M[rng.randrange(D), rng.randrange(D)] += 1j * rng.choice([1, -2])
        pool.append(M)
    return [np.asarray(M, dtype=complex) for M in pool]


def spinham_case(rng, quick):
    """one random SpinHam1D: default + site / bond specific terms; the two operators of a two-site term are
    drawn independently (so most terms are NOT mirror symmetric)."""
    S = rng.choice([0.5, 0.5, 0.5, 1.0])
    D = int(2 * S + 1)
    mode = rng.choice(["named", "named", "qarray", "qarray", "ndarray"])
    cyclic = rng.random() < 0.3
    L = rng.randint(3 if cyclic else 2, (4 if D == 3 else 5))
    if mode == "named":
        names = list("XYZ+-") + (["I"] if rng.random() < 0.2 else [])
        tab = spin_table(S)
        ops = {k: tab[k] for k in names}
        fpool = [0.5, -1.0, 2.0, 0.25, 1.5, -0.75, 1.0, 0.5j, -1.0 + 0.5j]
    else:
        ops = {f"M{k}": M for k, M in enumerate(int_matrix_pool(rng, D))}
        names = list(ops)
        fpool = [1, -1, 2, -2, 3, 1j, -2j, 1 + 1j, 2 - 1j]

    def fac():
        f = rng.choice(fpool)
        return f if isinstance(f, complex) and f.imag else float(f.real if isinstance(f, complex) else f)

    def t1():
        return (fac(), rng.choice(names))

    def t2():
        a = rng.choice(names)
        b = rng.choice(names) if rng.random() < 0.85 else a
        return (fac(), a, b)

    one = [t1() for _ in range(rng.choice([0, 1, 1, 2, 3]))]
    two = [t2() for _ in range(rng.choice([0, 1, 1, 2, 2, 3, 4]))]
    if not one and not two:  # the empty Hamiltonian is not a documented input (build_sparse returns the int 0)
        two = [t2()]
    var1, var2 = {}, {}
    if rng.random() < 0.5:
        for i in rng.sample(range(L), rng.randint(1, min(2, L))):
            var1[i] = [t1() for _ in range(rng.randint(1, 2))]
    if rng.random() < 0.5:
        for i in rng.sample(range(L - 1), rng.randint(1, min(2, L - 1))):
            var2[(i, i + 1)] = [t2() for _ in range(rng.randint(1, 3))]
    return {"S": S, "D": D, "mode": mode, "cyclic": cyclic, "L": L, "ops": ops, "one": one, "two": two,
            "var1": var1, "var2": var2, "style": rng.randint(0, 3)}


def spinham_desc(case):
    d = {k: case[k] for k in ("S", "mode", "cyclic", "L", "style")}
    d["one_site_terms"] = [(str(f), a) for f, a in case["one"]]
    d["two_site_terms"] = [(str(f), a, b) for f, a, b in case["two"]]
    d["site_specific"] = {str(k): [(str(f), a) for f, a in v] for k, v in case["var1"].items()}
    d["bond_specific"] = {str(k): [(str(f), a, b) for f, a, b in v] for k, v in case["var2"].items()}
    if case["mode"] != "named":
        d["operators"] = {k: [[str(x) for x in row] for row in M.tolist()] for k, M in case["ops"].items()}
    return d


def spinham_build(case):
    import quimb as qu
    import quimb.tensor as qtn

    mode = case["mode"]

    def op(a):
        if mode == "named":
            return a
        if mode == "qarray":
            return qu.qarray(case["ops"][a].copy())
        return case["ops"][a].copy()

    B = qtn.SpinHam1D(S=case["S"], cyclic=case["cyclic"])
    style = case["style"]
    for k, (f, a, b) in enumerate(case["two"]):
        if style == 1 and k % 2:
            B -= (-f, op(a), op(b))
        elif style == 2:
            B.add_term(f, op(a), op(b))
        else:
            B += (f, op(a), op(b))
    if style == 3:
        B += (0.0, op(next(iter(case["ops"]))), op(next(iter(case["ops"]))))  # a zero term is dropped
    for f, a in case["one"]:
        if style == 1:
            B -= (-f, op(a))
        else:
            B += (f, op(a))
    for i, ts in case["var1"].items():
        if style == 2:
            B[i] = [(f, op(a)) for f, a in ts]
        else:
            for f, a in ts:
                B[i] += (f, op(a))
    for bond, ts in case["var2"].items():
        if style == 2:
            B[bond] = [(f, op(a), op(b)) for f, a, b in ts]
        else:
            for f, a, b in ts:
                B[bond] += (f, op(a), op(b))
    return B


def spinham_reference(case, drop_closing_second=False):
    """H = sum_i sum_(f,A) f A_i + sum_bonds sum_(f,A,B) f A_i B_{i+1}; the bond (L-1, 0) of a periodic chain
    has A on site L-1 and B on site 0 and carries the default terms."""
    L, D, ops = case["L"], case["D"], case["ops"]
    H = np.zeros((D**L, D**L), dtype=complex)
    for i in range(L):
        for f, a in case["var1"].get(i, case["one"]):
            H += f * embed_sites([ops[a]], [i], L, D)
    for i in range(L - 1):
        for f, a, b in case["var2"].get((i, i + 1), case["two"]):
            H += f * embed_sites([ops[a], ops[b]], [i, i + 1], L, D)
    if case["cyclic"]:
        for f, a, b in case["two"]:
            if drop_closing_second:
                H += f * embed_sites([ops[a]], [L - 1], L, D)
            else:
                H += f * embed_sites([ops[a], ops[b]], [L - 1, 0], L, D)
    return H


def to_dense_any(x):
    if hasattr(x, "toarray"):
        x = x.toarray()
    elif hasattr(x, "todense"):
        x = x.todense()
    return np.asarray(x)


def mpo_site_arrays(mpo, L, cyclic):
    """site tensors of an MPO as (left bond, right bond, ket, bra) arrays (ends of an open chain: one bond)"""
    out = []
    for i in range(L):
        t = mpo[i]
        k, b = mpo.upper_ind(i), mpo.lower_ind(i)
        inds = []
        if cyclic or i > 0:
            inds.append(mpo.bond((i - 1) % L, i))
        if cyclic or i < L - 1:
            inds.append(mpo.bond(i, (i + 1) % L))
        out.append(np.asarray(t.transpose(*inds, k, b).data, dtype=complex))
    return out


def spinham_stream(ctx):
    """SpinHam1D term lists (asymmetric two-site terms, site / bond specific terms, spin 1/2 and 1, named
    operators / qarrays / ndarrays, open and periodic) through build_mpo, build_sparse and build_local_ham
    against an independent numpy sum of embedded operators: a TEST stream (tolerance 1e-10), not a theorem.
    For Gaussian-integer operator arrays the site tensors of build_mpo are compared EXACTLY, inside Coq, with
    the layout model C19/SpinHam.v (site_tensor / tensor_L / tensor_R / tensor_L_cyclic) whose meaning is
    theorem C19_spinham_mpo_denotes_hamiltonian."""
    rng = ctx.rng
    cases, info = [], {}
    for it in range(ctx.n(140, 1400)):
        case = spinham_case(rng, ctx.quick)
        desc = spinham_desc(case)
        L, D, cyclic, mode = case["L"], case["D"], case["cyclic"], case["mode"]
        bc = "cyclic" if cyclic else "open"
        cls = "site_specific" if (case["var1"] or case["var2"]) else "uniform"
        asym = any(a != b for _, a, b in case["two"] + [t for v in case["var2"].values() for t in v])
        ctx.count(("spinham", it, desc), bool(case["two"] or case["var2"]))
        ctx.bump(f"spinham:{bc}:{mode}:S={case['S']}")
        ctx.bump("spinham:asymmetric_two_site_term" if asym else "spinham:mirror_symmetric_terms")
        if it < 2:
            ctx.sample(desc)
        ref = spinham_reference(case)

        def fail(key, what, **more):
            ctx.violation(key, what, dict(case=desc, **more))

        try:
            B = spinham_build(case)
        except Exception as e:
            fail(f"spinham1d:add_term:raised:{type(e).__name__}", f"adding the terms raised {e}")
            continue
        # ---- MPO
        mpo = None
        try:
            mpo = B.build_mpo(L)
            M = np.asarray(mpo.to_dense())
            if M.shape != ref.shape or not np.allclose(M, ref, atol=1e-10, rtol=0):
                fail(f"spinham1d:build_mpo:{bc}:{cls}",
                     "SpinHam1D.build_mpo(L).to_dense() differs from sum f A_i + sum f A_i B_{i+1} of its term list",
                     representation="build_mpo", max_abs_diff=float(np.max(np.abs(M - ref))) if M.shape == ref.shape else None)
        except Exception as e:
            fail(f"spinham1d:build_mpo:{bc}:raised:{type(e).__name__}", f"build_mpo raised {e}")
        # ---- sparse matrix
        try:
            Sp = to_dense_any(B.build_sparse(L))
            if Sp.shape != ref.shape or not np.allclose(Sp, ref, atol=1e-10, rtol=0):
                if cyclic and np.allclose(Sp, spinham_reference(case, drop_closing_second=True), atol=1e-10, rtol=0):
                    key = "spinham1d:build_sparse:cyclic:closing_bond_second_operator_dropped"
                else:
                    key = f"spinham1d:build_sparse:{bc}:{cls}"
                fail(key, "SpinHam1D.build_sparse(L) differs from sum f A_i + sum f A_i B_{i+1} of its term list",
                     representation="build_sparse", max_abs_diff=float(np.max(np.abs(Sp - ref))) if Sp.shape == ref.shape else None)
        except Exception as e:
            fail(f"spinham1d:build_sparse:{bc}:raised:{type(e).__name__}", f"build_sparse raised {e}")
        # ---- local terms (LocalHam1D needs a two-site term covering every site)
        if case["two"]:
            try:
                lh = B.build_local_ham(L)
                tot = np.zeros_like(ref)
                for (a, b), h in lh.terms.items():
                    tot += embed_pair(np.asarray(h), a, b, L, D)
                if not np.allclose(tot, ref, atol=1e-10, rtol=0):
                    fail(f"spinham1d:build_local_ham:{bc}:{cls}",
                         "the terms of SpinHam1D.build_local_ham(L), each embedded on its ordered site pair, do not sum to the Hamiltonian of the term list",
                         representation="build_local_ham", max_abs_diff=float(np.max(np.abs(tot - ref))))
            except Exception as e:
                if mode == "ndarray" and isinstance(e, TypeError):
                    key = "spinham1d:build_local_ham:ndarray_operators:raised:TypeError"
                else:
                    key = f"spinham1d:build_local_ham:{bc}:raised:{type(e).__name__}"
                fail(key, f"build_local_ham raised {type(e).__name__}: {e}", representation="build_local_ham")
        # ---- exact layout correspondence (Gaussian-integer operator arrays)
        if mode == "named" or mpo is None:
            continue
        try:
            arrs = mpo_site_arrays(mpo, L, cyclic)
        except Exception as e:
            ctx.broken_obligation("correspondence:spinham_layout:site_arrays", f"{type(e).__name__}: {e}")
            continue
        if not all(is_gauss_int(a) for a in arrs):
            ctx.broken_obligation("correspondence:spinham_layout:non_integer_entries", desc)
            continue
        mat = lambda a: case["ops"][a]
        d = natlit(D)
        v1 = "[" + "; ".join(f"({natlit(i)}, {t1_lit(ts, mat)})" for i, ts in case["var1"].items()) + "]"
        v2 = "[" + "; ".join(f"({natlit(i)}, {t2_lit(ts, mat)})" for (i, _), ts in case["var2"].items()) + "]"
        st = lambda i: f"(G_site_tensor {d} one two v1 v2 {natlit(i)})"
        checks = []
        for i, a in enumerate(arrs):
            if cyclic:
                checks.append(f"mat_eqb (G_L_cyclic {d} {st(i)}) {mat_lit(a)}" if i == 0 else f"mat_eqb {st(i)} {mat_lit(a)}")
            elif i == 0:
                checks.append(f"row_eqb (G_L {d} {st(i)}) {row_lit(a)}")
            elif i == L - 1:
                checks.append(f"row_eqb (G_R {d} {st(i)}) {row_lit(a)}")
            else:
                checks.append(f"mat_eqb {st(i)} {mat_lit(a)}")
        cid = len(cases) + 1
        info[cid] = desc
        cases.append((cid, f"(let one : list (G * GM) := {t1_lit(case['one'], mat)} in "
                           f"let two : list (G * GM * GM) := {t2_lit(case['two'], mat)} in "
                           f"let v1 : list (nat * list (G * GM)) := {v1} in "
                           f"let v2 : list (nat * list (G * GM * GM)) := {v2} in "
                           + " && ".join(checks) + ")"))
    failed, errors = ctx.coq_cases("spinham_sites", SPINHAM_HEADER, cases, shard=40)
    for path, err in errors:
        ctx.broken_obligation("correspondence:spinham_layout:" + path.split("/")[-1], err)
    for c in failed[:6]:
        ctx.broken_obligation("correspondence:spinham_layout:build_mpo_site_tensors_vs_model", info[c])
    ctx.extra["spinham_layout_cases"] = len(cases)


def spinham_tensor_stream(ctx):
    """spin_ham_mpo_tensor called directly: every (|one|, |two|, |left|) up to a bound incl. left_two_site_terms
    of a different length / None, which = None / 'M' / 'L' / 'R' / 'A', cyclic False / True.  Exact layout
    correspondence with C19/SpinHam.v in Coq, plus a numerical test of what a 3-site chain made of these
    tensors denotes (open: bonds `left` then `two`; periodic: uniform ring)."""
    import quimb.tensor as qtn

    smt = qtn.tensor_builder.spin_ham_mpo_tensor
    rng = ctx.rng
    cases, info = [], {}
    for n1, n2, nl in itertools.product(range(3), range(4), [None, 0, 1, 2, 3]):
        for rep in range(ctx.n(1, 4)):
            D = rng.choice([2, 2, 3])
            S = (D - 1) / 2
            pool = int_matrix_pool(rng, D)
            gf = lambda: complex(rng.choice([1, -1, 2, -2, 3]), rng.choice([0, 0, 0, 1, -2]))
            rop = lambda: rng.choice(pool)
            one = [(gf(), rop()) for _ in range(n1)]
            two = [(gf(), rop(), rop()) for _ in range(n2)]
            left = None if nl is None else [(gf(), rop(), rop()) for _ in range(nl)]
            desc = {"S": S, "one": [(str(f), a.tolist()) for f, a in one], "two": [(str(f), a.tolist(), b.tolist()) for f, a, b in two],
                    "left_two_site_terms": None if left is None else [(str(f), a.tolist(), b.tolist()) for f, a, b in left]}
            desc = json_safe(desc)
            ctx.count(("smt", n1, n2, nl, rep, D), n2 > 0 or bool(nl))
            ctx.bump("spin_ham_mpo_tensor:direct")
            try:
                kw = dict(S=S, left_two_site_terms=left)
                H = np.asarray(smt(one, two, **kw), dtype=complex)
                HM = np.asarray(smt(one, two, which="M", **kw), dtype=complex)
                HL = np.asarray(smt(one, two, which="L", **kw), dtype=complex)
                HR = np.asarray(smt(one, two, which="R", **kw), dtype=complex)
                A = [np.asarray(x, dtype=complex) for x in smt(one, two, which="A", **kw)]
                HLc = np.asarray(smt(one, two, which="L", cyclic=True, **kw), dtype=complex)
                HRc = np.asarray(smt(one, two, which="R", cyclic=True, **kw), dtype=complex)
                Ac = [np.asarray(x, dtype=complex) for x in smt(one, two, which="A", cyclic=True, **kw)]
            except Exception as e:
                ctx.violation(f"spinham1d:spin_ham_mpo_tensor:raised:{type(e).__name__}", f"spin_ham_mpo_tensor raised {e}", desc)
                continue
            ident = lambda a: a
            lt = two if left is None else left
            tens = f"(G_tensor {natlit(D)} {t1_lit(one, ident)} {t2_lit(two, ident)} {t2_lit(lt, ident)})"
            d = natlit(D)
            checks = [f"mat_eqb {tens} {mat_lit(H)}", f"mat_eqb {tens} {mat_lit(HM)}", f"mat_eqb {tens} {mat_lit(A[1])}",
                      f"mat_eqb {tens} {mat_lit(Ac[1])}", f"mat_eqb {tens} {mat_lit(HRc)}", f"mat_eqb {tens} {mat_lit(Ac[2])}",
                      f"row_eqb (G_L {d} {tens}) {row_lit(HL)}", f"row_eqb (G_L {d} {tens}) {row_lit(A[0])}",
                      f"row_eqb (G_R {d} {tens}) {row_lit(HR)}", f"row_eqb (G_R {d} {tens}) {row_lit(A[2])}",
                      f"mat_eqb (G_L_cyclic {d} {tens}) {mat_lit(HLc)}", f"mat_eqb (G_L_cyclic {d} {tens}) {mat_lit(Ac[0])}"]
            cid = len(cases) + 1
            info[cid] = desc
            cases.append((cid, " && ".join(checks)))
            # what a 3-site chain of these tensors denotes (numerical test)
            emb = lambda mats, sites: embed_sites(mats, sites, 3, D)
            try:
                T0 = np.asarray(smt(one, lt, S=S, which="L"), dtype=complex)          # right bond carries `left`
                T1 = H                                                                   # left bond `left`, right bond `two`
                T2 = np.asarray(smt(one, [], S=S, left_two_site_terms=two, which="R"), dtype=complex)
                got = np.einsum("aij,abkl,bmn->ikmjln", T0, T1, T2).reshape(D**3, D**3)
                want = sum((f * emb([a], [i]) for f, a in one for i in range(3)), np.zeros((D**3, D**3), dtype=complex))
                want = want + sum((f * emb([a, b], [0, 1]) for f, a, b in lt), 0) + sum((f * emb([a, b], [1, 2]) for f, a, b in two), 0)
                if not np.allclose(got, want, atol=1e-10, rtol=0):
                    ctx.violation("spinham1d:spin_ham_mpo_tensor:open_chain_value",
                                  "the 3-site open chain contracted from spin_ham_mpo_tensor's L / middle / R tensors is not the Hamiltonian of its term lists",
                                  dict(desc, max_abs_diff=float(np.max(np.abs(got - want)))))
                if left is None:
                    got = np.einsum("caij,abkl,bcmn->ikmjln", Ac[0], Ac[1], Ac[2]).reshape(D**3, D**3)
                    want = sum((f * emb([a], [i]) for f, a in one for i in range(3)), np.zeros((D**3, D**3), dtype=complex))
                    for (u, v) in ((0, 1), (1, 2), (2, 0)):
                        want = want + sum((f * emb([a, b], [u, v]) for f, a, b in two), 0)
                    if not np.allclose(got, want, atol=1e-10, rtol=0):
                        ctx.violation("spinham1d:spin_ham_mpo_tensor:periodic_chain_value",
                                      "the 3-site periodic chain contracted from spin_ham_mpo_tensor(which='A', cyclic=True) is not the Hamiltonian of its term list",
                                      dict(desc, max_abs_diff=float(np.max(np.abs(got - want)))))
            except Exception as e:
                ctx.violation(f"spinham1d:spin_ham_mpo_tensor:chain:raised:{type(e).__name__}", f"contracting the chain raised {e}", desc)
    failed, errors = ctx.coq_cases("spinham_tensor", SPINHAM_HEADER, cases, shard=30)
    for path, err in errors:
        ctx.broken_obligation("correspondence:spinham_tensor:" + path.split("/")[-1], err)
    for c in failed[:6]:
        ctx.broken_obligation("correspondence:spinham_tensor:spin_ham_mpo_tensor_vs_model", info[c])
    ctx.extra["spinham_tensor_cases"] = len(cases)


def json_safe(x):
    if isinstance(x, dict):
        return {str(k): json_safe(v) for k, v in x.items()}
    if isinstance(x, (list, tuple)):
        return [json_safe(v) for v in x]
    if isinstance(x, complex):
        return str(x)
    return x


def ref_sum(n, terms):
    """sum of coeff * product of embedded named operators (site = register)"""
    return ref_matrix(terms, {i: i for i in range(n)}, n)


def matrix_generators(ctx):
    """matrix-side Hamiltonian generators vs the explicit sum of embedded spin / boson operators."""
    import quimb as qu

    rng = ctx.rng
    vals = [0.5, 1.0, 1.5, 2.0, -1.0, 0.25, -0.5]

    def dense(x):
        return np.asarray(x.toarray() if hasattr(x, "toarray") else x)

    def compare(name, params, got, want):
        ctx.count((name, repr(params)), True)
        ctx.bump("gen:" + name)
        got = dense(got)
        if got.shape != want.shape or not np.allclose(got, want, atol=1e-10):
            ctx.violation(f"generator:{name}", f"{name}{params} differs from the explicit sum of embedded operators",
                          {"call": name, "params": repr(params), "max_abs_diff": float(np.max(np.abs(got - want))) if got.shape == want.shape else None})

    for _ in range(ctx.n(25, 250)):
        n = rng.randint(2, 5)
        cyc = rng.random() < 0.5 and n >= 3  # a periodic chain of 2 sites is a double bond: convention, not tested
        bonds = [(i, i + 1) for i in range(n - 1)] + ([(n - 1, 0)] if cyc else [])
        # heisenberg family
        j = tuple(rng.choice(vals) for _ in range(3))
        b = tuple(rng.choice(vals + [0.0]) for _ in range(3))
        terms = []
        for (u, v) in bonds:
            for c, a in zip(j, ("sx", "sy", "sz")):
                terms.append((c, ((a, u), (a, v))))
        for i in range(n):
            for c, a in zip(b, ("sx", "sy", "sz")):
                terms.append((-c, ((a, i),)))
        try:
            compare("ham_heis", dict(n=n, j=j, b=b, cyclic=cyc), qu.ham_heis(n, j=j, b=b, cyclic=cyc), ref_sum(n, terms))
        except Exception as e:
            ctx.violation("generator:ham_heis:raised", f"ham_heis raised {type(e).__name__}: {e}", {"n": n, "j": j, "b": b, "cyclic": cyc})
        # j1-j2
        j1, j2, bz = rng.choice(vals), rng.choice(vals), rng.choice(vals + [0.0])
        nn = [(i, i + 1) for i in range(n - 1)] + ([(n - 1, 0)] if cyc and n > 2 else [])
        nnn = [(i, i + 2) for i in range(n - 2)] + ([(n - 2, 0), (n - 1, 1)] if cyc and n > 4 else [])
        terms = []
        for c, prs in ((j1, nn), (j2, nnn)):
            for (u, v) in prs:
                for a in ("sx", "sy", "sz"):
                    terms.append((c, ((a, u), (a, v))))
        for i in range(n):
            terms.append((bz, (("sz", i),)))
        if not cyc or n > 4:
            try:
                compare("ham_j1j2", dict(n=n, j1=j1, j2=j2, bz=bz, cyclic=cyc), qu.ham_j1j2(n, j1=j1, j2=j2, bz=bz, cyclic=cyc), ref_sum(n, terms))
            except Exception as e:
                ctx.violation("generator:ham_j1j2:raised", f"ham_j1j2 raised {type(e).__name__}: {e}", {"n": n, "cyclic": cyc})
        # hardcore bosons
        t, V, mu = rng.choice(vals), rng.choice(vals), rng.choice(vals)
        terms = []
        for (u, v) in bonds:
            terms.append((-t, (("+", u), ("-", v))))
            terms.append((-t, (("-", u), ("+", v))))
            terms.append((V, (("n", u), ("n", v))))
        for i in range(n):
            terms.append((-mu, (("n", i),)))
        try:
            compare("ham_hubbard_hardcore", dict(n=n, t=t, V=V, mu=mu, cyclic=cyc),
                    qu.ham_hubbard_hardcore(n, t=t, V=V, mu=mu, cyclic=cyc), ref_sum(n, terms))
        except Exception as e:
            ctx.violation("generator:ham_hubbard_hardcore:raised", f"ham_hubbard_hardcore raised {type(e).__name__}: {e}", {"n": n, "cyclic": cyc})
    # 2D heisenberg
    for (nx, ny) in ctx.n([(2, 2), (2, 3)], [(2, 2), (2, 3), (3, 2), (3, 3)]):
        for cyc in (False, True):
            if cyc and min(nx, ny) < 3:
                continue  # periodic direction of length 2 = double bond (convention)
            jj = tuple(rng.choice(vals) for _ in range(3))
            bz = rng.choice(vals)
            idx = lambda x, y: x * ny + y
            prs = set()
            for x in range(nx):
                for y in range(ny):
                    for dx, dy in ((1, 0), (0, 1)):
                        x2, y2 = x + dx, y + dy
                        if cyc:
                            x2 %= nx
                            y2 %= ny
                        if x2 < nx and y2 < ny and (x2, y2) != (x, y):
                            prs.add(tuple(sorted((idx(x, y), idx(x2, y2)))))
            terms = []
            for (u, v) in sorted(prs):
                for c, a in zip(jj, ("sx", "sy", "sz")):
                    terms.append((c, ((a, u), (a, v))))
            for i in range(nx * ny):
                terms.append((bz, (("sz", i),)))  # the 2D generator adds +bz * Sz (its docstring fixes no sign)
            try:
                compare("ham_heis_2D", dict(n=nx, m=ny, j=jj, bz=bz, cyclic=cyc), qu.ham_heis_2D(nx, ny, j=jj, bz=bz, cyclic=cyc), ref_sum(nx * ny, terms))
            except Exception as e:
                ctx.violation("generator:ham_heis_2D:raised", f"ham_heis_2D raised {type(e).__name__}: {e}", {"n": nx, "m": ny, "cyclic": cyc})


def history_stream(ctx):
    """representations must follow the CURRENT processing flags: build, toggle a rewrite, add a term, build again."""
    import quimb.operator as qop

    rng = ctx.rng
    for it in range(ctx.n(40, 400)):
        n = rng.randint(2, 4)
        sites = list(range(n))
        hs = qop.HilbertSpace(sites)
        regs_of = {s: s for s in sites}
        terms = rand_terms(rng, n, sites, fermionic=True)
        H = qop.SparseOperatorBuilder(hilbert_space=hs)
        for coeff, ops in terms:
            H += (coeff, *ops)
        jw = False
        steps = []
        ok = True
        for step in range(rng.randint(2, 4)):
            action = rng.choice(["build", "toggle_jw", "toggle_pd", "add", "build"])
            steps.append(action)
            try:
                if action == "toggle_jw":
                    H.jordan_wigner_transform()  # toggles
                    jw = not jw
                elif action == "toggle_pd":
                    H.pauli_decompose()
                elif action == "add":
                    t = rand_terms(rng, n, sites, fermionic=True)[0]
                    terms.append(t)
                    H += (t[0], *t[1])
                A = np.asarray(H.build_dense())
                y = None
                x = np.arange(1, 2**n + 1, dtype=complex)
                y = np.asarray(H.matvec(x))
            except Exception as e:
                ctx.violation("history:raised", f"builder raised {type(e).__name__} after {steps}", {"n": n, "steps": steps, "error": str(e)[:150]})
                ok = False
                break
            ref = ref_matrix(terms, regs_of, n, jw=jw)
            ctx.count(("history", it, step, action), action != "build")
            ctx.bump("history:" + action)
            if not np.allclose(A, ref, atol=1e-9) or not np.allclose(y, ref @ x, atol=1e-9):
                ctx.violation("history:stale_representation",
                              f"after {steps} the built operator no longer equals the operator defined by the current terms and flags",
                              {"n": n, "steps": steps, "jordan_wigner_now": jw,
                               "terms": [(str(c), [(o, s) for o, s in ops]) for c, ops in terms]})
                break


def ordering_stream(ctx):
    """HilbertSpace reordering keeps symmetry, sector, size and the rank bijection."""
    from quimb.operator import HilbertSpace

    rng = ctx.rng
    for it in range(ctx.n(60, 500)):
        n = rng.randint(2, 6)
        sites = list(range(n))
        kind = rng.choice(["none", "Z2", "U1", "U1U1"])
        kw = {}
        if kind == "Z2":
            kw = dict(symmetry="Z2", sector=rng.randint(0, 1))
            want = 2 ** (n - 1)
        elif kind == "U1":
            k = rng.randint(0, n)
            kw = dict(symmetry="U1", sector=k)
            want = math.comb(n, k)
        elif kind == "U1U1":
            na = rng.randint(1, n - 1)
            nb = n - na
            ka, kb = rng.randint(0, na), rng.randint(0, nb)
            kw = dict(symmetry="U1U1", sector=((na, ka), (nb, kb)))
            want = math.comb(na, ka) * math.comb(nb, kb)
        else:
            want = 2**n
        try:
            hs = HilbertSpace(sites, **kw)
            order = sites[:]
            rng.shuffle(order)
            hs2 = hs.with_ordering(order)
        except Exception as e:
            ctx.bump("ordering_rejected")
            continue
        ctx.count(("ordering", kind, n, tuple(order), repr(kw)), want > 1)
        ok = hs2.symmetry == hs.symmetry and hs2.sector == hs.sector and int(hs2.size) == want == int(hs.size)
        if ok:
            seen = set()
            for r in range(min(want, 200)):
                cfg = hs2.rank_to_config(r)
                if int(hs2.config_to_rank(cfg)) != r:
                    ok = False
                seen.add(tuple(sorted(cfg.items())))
                tot = sum(cfg.values())
                if kind == "Z2" and tot % 2 != kw["sector"]:
                    ok = False
                if kind == "U1" and tot != kw["sector"]:
                    ok = False
            if len(seen) != min(want, 200):
                ok = False
        if not ok:
            ctx.violation(f"hilbertspace:with_ordering:{kind}", f"with_ordering changed the {kind} sector / size / rank bijection",
                          {"n": n, "kind": kind, "kw": repr(kw), "order": order, "size_before": int(hs.size), "size_after": int(hs2.size),
                           "symmetry_after": str(hs2.symmetry), "sector_after": repr(hs2.sector)})


def run(ctx):
    ctx.extra["rule"] = RULE
    ctx.trusted_base += [
        "hand-written model coq/C19/Model.v of the ranking kernels (same loop structure); tie = exhaustive "
        "correspondence of every rank of every sector up to the bound, evaluated in Coq (vm_compute)",
        "modelled, not verified: numba int64/uint64 arithmetic (unbounded Z in the model; C(n,k) < 2^63 assumed), "
        "HilbertSpace site<->register maps, the builder's term processing and every matrix representation "
        "(those are exercised by the exact oracle stream only - a test, not a theorem)",
        "hand-written model coq/C19/SpinHam.v of spin_ham_mpo_tensor's array layout, the which / cyclic end tensors "
        "and build_mpo's per-site term lookup; tie = exact comparison in Coq with the arrays the code builds for "
        "Gaussian-integer operator arrays; that an MPO denotes the product of its operator-valued site matrices "
        "(trace for a periodic chain) is the reading of the MPO, checked numerically through to_dense()",
    ]
    ctx.assumptions += ["term-list semantics reference: ordered product of embedded named 2x2 operators with the "
                        "library's documented operator names; Jordan-Wigner string = Z on all lower registers"]
    ctx.check_props(["C19/Model.vo", "C19/Proofs.vo", "C19/SpinHam.vo", "C19/SpinHamProofs.vo", "C19/Props.v"])
    for fn in (rank_correspondence, hilbert_api, representations, model_builders, spinham_tensor_stream,
               spinham_stream, matrix_generators, history_stream, ordering_stream):
        t0 = time.time()
        ctx.stage(fn)
        ctx.extra.setdefault("stage_seconds", {})[fn.__name__] = round(time.time() - t0, 1)


def replay(ctx, path):
    run(ctx)

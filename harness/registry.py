"""Per-property registration: what MANIFEST.json says about each check.
A property appears under `checks` once its harness module declares it here;
until then it is listed under not_applicable with the reason 'not built yet'."""

CHECKS = {}


def register(pid, level_text, level_note, technique, design_ref, category="proof"):
    CHECKS[pid] = dict(
        level_text=level_text, level_note=level_note, technique=technique,
        design_ref=design_ref, category=category,
    )


register(
    "C16",
    "Coq theorems over the partition functions re-translated from quimb/core.py on every run: the chooser is "
    "total with >=1 block, every element lies in exactly one block visited by exactly one thread rank, blocks are "
    "contiguous; disjoint single-cell writes commute under every interleaving; pairwise tree reduction equals the "
    "serial fold. Tied to the code by the translator, an exhaustive impl-vs-model grid evaluated in Coq, a syntactic "
    "scan of every kernel's loop shape, and kernels-vs-serial oracles on integer data.",
    "Trusted: Coq kernel, tools/py2coq.py, float division modelled as exact rationals (operands < 2^26), "
    "sequentially consistent writes to disjoint cells; numba codegen and real OS interleavings are not modelled.",
    "Rocq/Coq proof over translated kernels + vm_compute correspondence",
    "DESIGN.md section 4 C16",
)

register(
    "C19",
    "Coq theorems (closed, no axioms): each configuration-ranking kernel (unconstrained, mixed radix, Z2, U1 via the "
    "Pascal table, U1xU1) is a bijection between [0, sector size) and the sector's configurations, with sizes 2^n, "
    "prod sizes, 2^(n-1), C(n,k), C(na,ka)C(nb,kb), for every n. Hand model of quimb/operator/configcore.py tied by "
    "exhaustive correspondence (every rank of every sector up to a bound, numba kernels vs model inside Coq). The "
    "'all representations agree' half is decided by an exact oracle stream on the implementation (dense, 4 sparse "
    "formats, matvec serial/parallel, linear operator, local terms, ikron, MPO, sectors, JW/Pauli rewrites, site "
    "relabelling, MPO_ham_* vs ham_*) against an independent numpy reference - a test stream, not a theorem.",
    "Trusted: Coq kernel, hand model + correspondence harness; int64 overflow not modelled (C(n,k) < 2^63); the "
    "builder's term processing and matrix assembly are modelled only by the reference semantics in the harness.",
    "Rocq/Coq proof of rank/unrank bijections + vm_compute correspondence + exact differential oracle",
    "DESIGN.md section 4 C19",
)

register(
    "C15",
    "Coq theorems (closed): kron's row-ownership bookkeeping accepts exactly 0<=ri<rf<=D, slices a contiguous block "
    "of rows containing [ri,rf) whose row count matches, and the final slice is exactly rows ri..rf-1, for every "
    "dimension list and range; ikron's emitted Kronecker factors fill the composite space exactly; dim_compress "
    "preserves the product of dimensions; the _trace_lose/_trace_keep index formulas address exactly the traced "
    "entries (ravel identities, injectivity); partial trace is the adjoint of embedding over any commutative ring. "
    "Hand model of quimb/core.py tied by correspondence evaluated in Coq against values observed in the running "
    "implementation (dynal, matching, sliced row counts, factors handed to kron, dim_compress output). Dense/sparse "
    "format agreement, pkron/permute, 2-D coordinates and Hamiltonian row ownership are decided by an exact "
    "numpy-reference oracle stream (test, not theorem).",
    "Trusted: Coq kernel; hand model + harness (module-global rebinding to observe kron / _kron_core); numpy/scipy "
    "kron, reshape, transpose and sparse formats are not modelled. Known finding: sparse partial trace with "
    "dimension-1 subsystems.",
    "Rocq/Coq proof over hand model + vm_compute correspondence + exact differential oracle",
    "DESIGN.md section 4 C15",
)

"""Per-property registration: what MANIFEST.json says about each check.
A property appears under `checks` once its harness module declares it here;
until then it is listed under not_applicable with the reason 'not built yet'."""

CHECKS = {}


def register(pid, level_text, level_note, technique, design_ref, category="proof"):
    CHECKS[pid] = dict(
        level_text=level_text, level_note=level_note, technique=technique,
        design_ref=design_ref, category=category,
    )


register(
    "C16",
    "Coq theorems over the partition functions re-translated from quimb/core.py on every run: the chooser is "
    "total with >=1 block, every element lies in exactly one block visited by exactly one thread rank, blocks are "
    "contiguous; disjoint single-cell writes commute under every interleaving; pairwise tree reduction equals the "
    "serial fold. Tied to the code by the translator, an exhaustive impl-vs-model grid evaluated in Coq, a syntactic "
    "scan of every kernel's loop shape, and kernels-vs-serial oracles on integer data.",
    "Trusted: Coq kernel, tools/py2coq.py, float division modelled as exact rationals (operands < 2^26), "
    "sequentially consistent writes to disjoint cells; numba codegen and real OS interleavings are not modelled.",
    "Rocq/Coq proof over translated kernels + vm_compute correspondence",
    "DESIGN.md section 4 C16",
)

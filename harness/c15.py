"""C15 - Kronecker, embedding, permutation and partial-trace algebra.

Proof part (coq/C15): row-ownership bookkeeping of kron for every dimension
list and range; ikron's factor emitter fills the space; dim_compress preserves
sizes; partial-trace kernels address exactly the traced entries; partial trace
is the adjoint of embedding over any commutative ring.
Tie (H): the model's dynal / matching / ownership plan / ikron blocks /
dim_compress are compared (inside Coq, vm_compute) with what the implementation
computes: public helper functions are called directly and kron/_kron_core are
observed by rebinding the module globals at run time.
Oracle (test/searcher): integer and Gaussian-integer operators through
kron(ownership), ikron, pkron, permute, partial_trace (3 implementations),
dim_map, dense and sparse formats, vs plain numpy references.
"""

import itertools

import numpy as np

from harness.common import natlit, zlist, zlit

RULE = (
    "ownership: every range 0<=ri<rf<=D for a family of dimension lists (exhaustive for D<=bound); ikron: "
    "dimension lists from {1..5}^{<=5}, sorted/unsorted/duplicated target sets, overlaid operators; ptr: all "
    "keep subsets in every order; dense + csr/csc/coo/bsr. Non-trivial: D>2 and not the full range / at least "
    "one identity factor / at least one traced subsystem."
)


def ownership_stream(ctx):
    import quimb as qu
    import quimb.core as qc

    rng = ctx.rng
    dim_lists = [[2, 2], [2, 3], [3, 2, 2], [2, 1, 3], [1, 4], [4, 1], [2, 2, 2, 2], [3, 1, 1, 2], [5, 3], [2, 3, 4]]
    if not ctx.quick:
        dim_lists += [[2, 3, 2, 3], [6, 6], [1, 1, 7], [3, 3, 4], [2, 2, 3, 3], [4, 3, 3]]
    cases, info = [], {}
    cid = 0
    nrows_seen = {}
    real_core = qc._kron_core

    def spy(*ops, **kw):
        X = real_core(*ops, **kw)
        nrows_seen["n"] = X.shape[0]
        return X

    qc._kron_core = spy
    try:
        for dims in dim_lists:
            D = int(np.prod(dims))
            ops = [rng_int_matrix(rng, d, rng.randint(1, 2) if D > 20 else d) for d in dims]
            full = ops[0]
            for o in ops[1:]:
                full = np.kron(full, o)
            ranges = [(ri, rf) for ri in range(D) for rf in range(ri + 1, D + 1)]
            if ctx.quick and len(ranges) > 140:
                ranges = rng.sample(ranges, 140)
            for ri, rf in ranges:
                nontriv = D > 2 and (rf - ri) < D
                ctx.count(("own", tuple(dims), ri, rf), nontriv)
                ctx.bump("ownership")
                m = tuple(qc.gen_matching_dynal(ri, rf - 1, dims))
                d1 = [int(x) for x in qc.dynal(ri, dims)]
                nrows_seen.clear()
                sparse = rng.random() < 0.3
                try:
                    if sparse:
                        import scipy.sparse as sp

                        X = qu.kron(*[sp.csr_matrix(o) for o in ops], ownership=(ri, rf)).toarray()
                    else:
                        X = np.asarray(qu.kron(*ops, ownership=(ri, rf)))
                except Exception as e:
                    ctx.violation("kron:ownership:raised", f"kron(ownership=({ri},{rf})) raised {type(e).__name__}",
                                  {"call": "kron", "dims": dims, "ownership": [ri, rf], "sparse": sparse, "error": str(e)[:200]})
                    continue
                if X.shape != full[ri:rf].shape or not np.array_equal(X, full[ri:rf]):
                    ctx.violation("kron:ownership", f"kron(ownership=({ri},{rf})) is not rows {ri}..{rf - 1} of the full product",
                                  {"call": "kron", "dims": dims, "ownership": [ri, rf], "sparse": sparse,
                                   "ops": [o.tolist() for o in ops]})
                n = nrows_seen.get("n", -1)
                cid += 1
                info[cid] = {"dims": dims, "ri": ri, "rf": rf, "impl_matching": [list(map(int, p)) for p in m], "impl_nrows": n}
                mlit = "[" + "; ".join(f"({zlit(a)}, {zlit(b)})" for a, b in m) + "]"
                cases.append((cid,
                              f"own_check {zlist(dims)} {zlit(ri)} {zlit(rf)} {mlit} {zlist(d1)} {zlit(n)} {zlit(X.shape[0])}"))
        # malformed ranges must be rejected on both sides
        for dims in dim_lists[:4]:
            D = int(np.prod(dims))
            ops = [rng_int_matrix(rng, d, d) for d in dims]
            for ri, rf in [(-1, 2), (0, D + 1), (D, D), (0, 0), (D, D + 1)]:
                ctx.bump("ownership_malformed")
                try:
                    qu.kron(*ops, ownership=(ri, rf))
                    rejected = False
                except ValueError:
                    rejected = True
                except Exception:
                    rejected = True
                cid += 1
                info[cid] = {"dims": dims, "ri": ri, "rf": rf, "impl_rejected": rejected}
                cases.append((cid, f"Bool.eqb (match ownership {zlist(dims)} {zlit(ri)} {zlit(rf)} with None => true | Some _ => false end) "
                                   f"{'true' if rejected else 'false'}"))
    finally:
        qc._kron_core = real_core
    header = (
        "From Coq Require Import ZArith List Bool.\nFrom QV Require Import C15.Model.\nImport ListNotations.\nOpen Scope Z_scope.\n"
        "Fixpoint zl_eqb (a b : list Z) : bool := match a, b with [], [] => true | x :: a', y :: b' => (x =? y) && zl_eqb a' b' | _, _ => false end.\n"
        "Fixpoint pl_eqb (a b : list (Z*Z)) : bool := match a, b with [], [] => true "
        "| (x,y) :: a', (u,v) :: b' => (x =? u) && (y =? v) && pl_eqb a' b' | _, _ => false end.\n"
        "Definition own_check dims ri rf m d1 nrows outrows : bool :=\n"
        "  match ownership dims ri rf with None => false | Some p =>\n"
        "    pl_eqb (op_slices p) m && zl_eqb (dynal ri dims) d1 && (op_nrows p =? nrows) && (op_hi p - op_lo p =? outrows) end.\n"
    )
    failed, errors = ctx.coq_cases("own", header, cases, shard=300)
    for path, err in errors:
        ctx.broken_obligation("correspondence:ownership:" + path.split("/")[-1], err)
    for c in failed[:5]:
        ctx.broken_obligation("correspondence:ownership_model_vs_impl", info[c])
    ctx.sample(info.get(1))


def rng_int_matrix(rng, r, c):
    return np.array([[float(rng.randint(-3, 3)) for _ in range(c)] for _ in range(r)])


def ref_ikron(ops, dims, inds):
    """independent reference for the documented domain: operators are attached,
    in the order of the SORTED target indices (cycled), to the target sites; an
    operator larger than its site is overlaid on the following sites, all of
    which must be targets and whose dimensions must multiply to its size."""
    order = [k for _, k in sorted(zip(inds, itertools.cycle(range(len(ops)))))]
    targets = set(inds)
    out = np.array([[1.0 + 0j]])
    i, n, fetch = 0, len(dims), 0
    while i < n:
        if i in targets:
            if fetch >= len(order):
                return None
            op = ops[order[fetch]]
            fetch += 1
            sz, j = 1, i
            while sz < op.shape[0] and j < n and j in targets:
                sz *= dims[j]
                j += 1
            if sz != op.shape[0] or j == i:
                # dimension-1 target with a 1x1 operator: j == i only if op is 1x1
                if not (op.shape[0] == 1 and dims[i] == 1):
                    return None
                j = i + 1
            out = np.kron(out, op)
            i = j
        else:
            out = np.kron(out, np.eye(dims[i]))
            i += 1
    return out


def ikron_stream(ctx):
    import quimb as qu
    import quimb.core as qc
    import scipy.sparse as sp

    rng = ctx.rng
    real_kron = qc.kron
    seen = {}

    def spy(*ops, **kw):
        seen["ops"] = list(ops)
        return real_kron(*ops, **kw)

    cases, info = [], {}
    cid = 0
    N = ctx.n(250, 3000)
    for it in range(N):
        n = rng.randint(1, 5)
        dims = [rng.randint(1, 4) for _ in range(n)]
        ntarget = rng.randint(1, min(3, n))
        inds = rng.sample(range(n), ntarget)
        mode = rng.choice(["single", "single", "multi", "overlay"])
        if mode == "overlay" and n >= 2:
            s = rng.randint(0, n - 2)
            L = rng.randint(2, min(3, n - s))
            inds = list(range(s, s + L))
            rng.shuffle(inds)
            ops = [rng_int_matrix(rng, int(np.prod(dims[s:s + L])), int(np.prod(dims[s:s + L])))]
        elif mode == "multi":
            # ops[j] is paired with inds[j] (the pairs are then sorted by index)
            ops = [rng_int_matrix(rng, dims[i], dims[i]) for i in inds]
        else:
            d = dims[inds[0]]
            if any(dims[i] != d for i in inds):
                inds = [inds[0]]
            ops = [rng_int_matrix(rng, d, d)]
        if rng.random() < 0.15:
            inds = inds + [inds[0]]  # duplicate index
            if mode == "multi":
                continue
        szs = [o.shape[0] for o in ops]
        ctx.count(("ikron", tuple(dims), tuple(inds), tuple(szs), mode), any(i not in inds for i in range(n)))
        ctx.bump("ikron_" + mode)
        ref = ref_ikron(ops, dims, inds)
        sparse_fmt = rng.choice([None, None, "csr", "csc", "coo", "bsr"])
        ops_in = [sp.csr_matrix(o).asformat(sparse_fmt) for o in ops] if sparse_fmt else ops
        seen.clear()
        qc.kron = spy
        try:
            R = qu.ikron(ops_in if len(ops_in) > 1 else ops_in[0], dims, inds)
            R = R.toarray() if sp.issparse(R) else np.asarray(R)
            err = None
        except Exception as e:
            R, err = None, e
        finally:
            qc.kron = real_kron
        desc = {"dims": dims, "inds": inds, "op_sizes": szs, "mode": mode, "sparse": sparse_fmt}
        if ref is None:
            ctx.bump("ikron_outside_domain")
            continue
        if it < 2:
            ctx.sample(desc)
        if err is not None:
            ctx.violation("ikron:raised", f"ikron raised {type(err).__name__} on a valid call",
                          {"call": "ikron", **desc, "error": str(err)[:200]})
            continue
        if R.shape != ref.shape or not np.array_equal(R, ref):
            ctx.violation("ikron:value", "ikron differs from the explicit Kronecker product with identities",
                          {"call": "ikron", **desc, "ops": [o.tolist() for o in ops]})
        # model blocks vs the factors handed to kron
        blocks = []
        k = 0
        okb = True
        for f in seen.get("ops", []):
            F = f.toarray() if sp.issparse(f) else np.asarray(f)
            isop = any(F.shape == o.shape and np.array_equal(F, o) for o in ops)
            if F.shape[0] == F.shape[1] and np.array_equal(F, np.eye(F.shape[0])) and not (isop and F.shape[0] in szs and F.shape[0] == 1):
                blocks.append(f"BId {zlit(F.shape[0])}")
            elif isop:
                blocks.append(f"BOp {natlit(k)}")
                k += 1
            else:
                okb = False
        # an operator that happens to equal an identity is ambiguous: skip the block comparison
        if any(np.array_equal(o, np.eye(o.shape[0])) for o in ops) or not okb:
            continue
        # szs in consumption order = sorted by index, cycled
        order = [kk for _, kk in sorted(zip(inds, itertools.cycle(range(len(ops)))))]
        szs_consumed = [szs[kk] for kk in order]
        cid += 1
        info[cid] = {**desc, "impl_blocks": blocks}
        cases.append((cid, f"blocks_check {zlist(dims)} {zlist(inds)} {zlist(szs_consumed)} [{'; '.join(blocks)}]"))
    header = (
        "From Coq Require Import ZArith List Bool.\nFrom QV Require Import C15.Model.\nImport ListNotations.\nOpen Scope Z_scope.\n"
        "Definition b_eqb (a b : block) : bool := match a, b with BId x, BId y => x =? y | BOp _, BOp _ => true | _, _ => false end.\n"
        "Fixpoint bl_eqb (a b : list block) : bool := match a, b with [], [] => true | x :: a', y :: b' => b_eqb x y && bl_eqb a' b' | _, _ => false end.\n"
        "Definition blocks_check dims inds szs impl : bool :=\n"
        "  match ikron_blocks dims inds szs with Some (bl, 1) => bl_eqb bl impl | _ => false end.\n"
    )
    failed, errors = ctx.coq_cases("ikron", header, cases, shard=400)
    for path, err in errors:
        ctx.broken_obligation("correspondence:ikron:" + path.split("/")[-1], err)
    for c in failed[:5]:
        ctx.broken_obligation("correspondence:ikron_blocks_model_vs_impl", info[c])


def compress_stream(ctx):
    import quimb.core as qc

    rng = ctx.rng
    cases, info = [], {}
    for cid in range(1, ctx.n(300, 3000) + 1):
        n = rng.randint(1, 7)
        dims = [rng.randint(1, 4) for _ in range(n)]
        inds = rng.sample(range(n), rng.randint(0, n))
        if all(d == 1 for d in dims):
            continue  # one-dimensional total space: nothing to compress (the generator is empty)
        ctx.count(("compress", tuple(dims), tuple(sorted(inds))), len(inds) not in (0, n))
        ctx.bump("dim_compress")
        try:
            cd, ci = qc.dim_compress(dims, tuple(inds))
        except Exception as e:
            ctx.violation("dim_compress:raised", f"dim_compress raised {type(e).__name__}", {"dims": dims, "inds": inds})
            continue
        pairs = [(int(d), 1 if i in ci else 0) for i, d in enumerate(cd)]
        info[cid] = {"dims": dims, "inds": inds, "impl": pairs}
        plit = "[" + "; ".join(f"({zlit(a)}, {zlit(b)})" for a, b in pairs) + "]"
        cases.append((cid, f"pl_eqb (dim_compress {zlist(dims)} {zlist(inds)}) {plit}"))
    header = (
        "From Coq Require Import ZArith List Bool.\nFrom QV Require Import C15.Model.\nImport ListNotations.\nOpen Scope Z_scope.\n"
        "Fixpoint pl_eqb (a b : list (Z*Z)) : bool := match a, b with [], [] => true "
        "| (x,y) :: a', (u,v) :: b' => (x =? u) && (y =? v) && pl_eqb a' b' | _, _ => false end.\n"
    )
    failed, errors = ctx.coq_cases("compress", header, cases, shard=500)
    for path, err in errors:
        ctx.broken_obligation("correspondence:dim_compress:" + path.split("/")[-1], err)
    for c in failed[:5]:
        ctx.broken_obligation("correspondence:dim_compress_model_vs_impl", info[c])


def gauss(rng, *shape):
    a = np.array([complex(rng.randint(-2, 2), rng.randint(-2, 2)) for _ in range(int(np.prod(shape)))])
    return a.reshape(shape)


def ref_ptr(rho, dims, keep):
    n = len(dims)
    T = rho.reshape(list(dims) + list(dims))
    lose = [i for i in range(n) if i not in keep]
    # einsum with explicit labels
    row = list(range(n))
    col = list(range(n, 2 * n))
    for i in lose:
        col[i] = row[i]
    keep_sorted = sorted(keep)
    out = [row[i] for i in keep_sorted] + [col[i] for i in keep_sorted]
    R = np.einsum(T, row + col, out)
    d = int(np.prod([dims[i] for i in keep_sorted])) if keep_sorted else 1
    return R.reshape(d, d)


def algebra_stream(ctx):
    import quimb as qu
    import quimb.core as qc
    import scipy.sparse as sp

    rng = ctx.rng
    for it in range(ctx.n(200, 2500)):
        n = rng.randint(1, 4)
        dims = [rng.randint(1, 3) for _ in range(n)]
        D = int(np.prod(dims))
        if D > 48 or D < 2:
            continue  # a 1x1 input is both a ket and an operator: outside the domain
        nk = rng.randint(1, n)
        keep = rng.sample(range(n), nk)
        rho = gauss(rng, D, D)
        rho = rho + rho.conj().T
        psi = gauss(rng, D, 1)
        desc = {"dims": dims, "keep": keep}
        ctx.count(("ptr", tuple(dims), tuple(keep)), nk < n)
        ctx.bump("ptr")
        want = ref_ptr(rho, dims, keep)
        wantk = ref_ptr(psi @ psi.conj().T, dims, keep)
        got = {}
        try:
            got["dense"] = np.asarray(qu.ptr(rho, dims, keep))
            got["ket"] = np.asarray(qu.ptr(psi, dims, keep))
            got["sparse"] = np.asarray(qu.ptr(sp.csr_matrix(rho), dims, keep))
            got["simple"] = np.asarray(qc._partial_trace_simple(rho, dims, keep))
            got["sparse_ket"] = np.asarray(qu.ptr(sp.csr_matrix(psi), dims, keep))
        except Exception as e:
            sparse_stage = "dense" in got and "ket" in got  # the dense routes already returned
            ctx.violation("ptr:raised" + (":sparse:dims_contain_1" if (sparse_stage and 1 in dims) else ""),
                          f"partial_trace raised {type(e).__name__}", {**desc, "error": str(e)[:200]})
            continue
        for name, g in got.items():
            w = wantk if "ket" in name else want
            if g.shape != w.shape or not np.allclose(g, w, atol=1e-9):
                sparse_route = name in ("sparse", "simple", "sparse_ket")
                ctx.violation(f"ptr:{name}" + (":dims_contain_1" if (sparse_route and 1 in dims) else ""),
                              f"partial_trace[{name}] differs from the explicit partial trace",
                              {**desc, "variant": name, "got": np.round(g, 6).tolist()[:6], "want": np.round(w, 6).tolist()[:6]})
        # adjointness Tr[ikron(A) rho] = Tr[A ptr(rho)]  (A acts on the kept sites in sorted order)
        ks = sorted(keep)
        dk = int(np.prod([dims[i] for i in ks]))
        if all(ks[i] + 1 == ks[i + 1] for i in range(len(ks) - 1)) and all(dims[i] >= 2 for i in ks):
            A = gauss(rng, dk, dk)
            try:
                E = np.asarray(qu.ikron(A, dims, ks))
                lhs = np.trace(E @ rho)
                rhs = np.trace(A @ got["dense"])
                if abs(lhs - rhs) > 1e-9:
                    ctx.violation("ptr:adjoint", "Tr[ikron(A) rho] != Tr[A ptr(rho)]", {**desc, "lhs": str(lhs), "rhs": str(rhs)})
                ctx.bump("adjoint_checked")
            except Exception as e:
                ctx.violation("ptr:adjoint:raised", f"ikron/ptr raised {type(e).__name__}", {**desc, "error": str(e)[:200]})
        # pkron: op acts on dims[inds] in the GIVEN order == permute-then-embed
        inds = keep
        din = [dims[i] for i in inds]
        A = gauss(rng, int(np.prod(din)), int(np.prod(din)))
        try:
            P = np.asarray(qu.pkron(A, dims, inds))
            # reference via einsum: A indices follow `inds` order
            TA = A.reshape(din + din)
            full = np.einsum(TA, list(range(2 * len(inds))))
            rest = [i for i in range(n) if i not in inds]
            for r in rest:
                full = np.multiply.outer(full, np.eye(dims[r]))
            k = len(inds)
            cur_out = {s: idx for idx, s in enumerate(inds)}
            cur_in = {s: k + idx for idx, s in enumerate(inds)}
            for j, r in enumerate(rest):
                cur_out[r] = 2 * k + 2 * j
                cur_in[r] = 2 * k + 2 * j + 1
            ref = full.transpose([cur_out[s] for s in range(n)] + [cur_in[s] for s in range(n)]).reshape(D, D)
            if P.shape != ref.shape or not np.allclose(P, ref, atol=1e-12):
                ctx.violation("pkron", "pkron differs from the operator acting on dims[inds] in the given order",
                              {"dims": dims, "inds": inds})
            ctx.bump("pkron")
        except Exception as e:
            ctx.violation("pkron:raised", f"pkron raised {type(e).__name__}", {"dims": dims, "inds": inds, "error": str(e)[:200]})
        # permute dense vs sparse vs reference
        perm = list(range(n))
        rng.shuffle(perm)
        try:
            pd = np.asarray(qu.permute(rho, dims, perm))
            ps = qu.permute(sp.csr_matrix(rho), dims, perm)
            ps = ps.toarray() if sp.issparse(ps) else np.asarray(ps)
            ref = rho.reshape(dims + dims).transpose(perm + [p + n for p in perm]).reshape(D, D)
            if not (np.allclose(pd, ref) and np.allclose(ps, ref)):
                ctx.violation("permute", "dense / sparse permute differ from reshape-transpose",
                              {"dims": dims, "perm": perm, "dense_ok": bool(np.allclose(pd, ref)), "sparse_ok": bool(np.allclose(ps, ref))})
            kd = np.asarray(qu.permute(psi, dims, perm))
            kref = psi.reshape(dims).transpose(perm).reshape(D, 1)
            if not np.allclose(kd, kref):
                ctx.violation("permute:ket", "ket permute differs from reshape-transpose", {"dims": dims, "perm": perm})
            ctx.bump("permute")
        except Exception as e:
            ctx.violation("permute:raised", f"permute raised {type(e).__name__}", {"dims": dims, "perm": perm, "error": str(e)[:200]})
    # _trace_lose / _trace_keep kernels
    for a, e, b in itertools.product([1, 2, 3], [1, 2, 3], [1, 2, 3]):
        dims = [a, e, b]
        D = a * e * b
        if D < 2:
            continue
        rho = gauss(rng, D, D)
        rho = rho + rho.conj().T
        ctx.count(("trace_kernels", a, e, b), True)
        tl = np.asarray(qc._trace_lose(rho, dims, 1))
        tk = np.asarray(qc._trace_keep(rho, dims, 1))
        if not np.allclose(tl, ref_ptr(rho, dims, [0, 2])):
            ctx.violation("trace_lose", "_trace_lose differs from the explicit partial trace", {"dims": dims})
        if not np.allclose(tk, ref_ptr(rho, dims, [1])):
            ctx.violation("trace_keep", "_trace_keep differs from the explicit partial trace", {"dims": dims})
    # dim_map: 2D coordinates, cyclic / trim
    for it in range(ctx.n(100, 1000)):
        sza, szb = rng.randint(1, 4), rng.randint(1, 4)
        dims2 = [[rng.randint(1, 3) for _ in range(szb)] for _ in range(sza)]
        coos = [(rng.randint(-2, sza + 1), rng.randint(-2, szb + 1)) for _ in range(rng.randint(1, 4))]
        mode = rng.choice(["plain", "cyclic", "trim"])
        ctx.count(("dim_map", sza, szb, tuple(coos), mode), True)
        inr = [0 <= x < sza and 0 <= y < szb for x, y in coos]
        try:
            fd, fi = qc.dim_map(dims2, coos, cyclic=(mode == "cyclic"), trim=(mode == "trim"))
            rejected = False
        except ValueError:
            rejected = True
        flat = [d for row in dims2 for d in row]
        if mode == "plain":
            if not all(inr):
                if not rejected:
                    ctx.violation("dim_map:plain_out_of_range", "out-of-range coordinate accepted", {"dims": dims2, "coos": coos})
                continue
            want = [x * szb + y for x, y in coos]
        elif mode == "cyclic":
            want = [(x % sza) * szb + (y % szb) for x, y in coos]
        else:
            want = [x * szb + y for (x, y), ok in zip(coos, inr) if ok]
        if rejected or list(fd) != flat or list(fi) != want:
            ctx.violation(f"dim_map:{mode}", "dim_map differs from row-major flattening", {"dims": dims2, "coos": coos, "mode": mode})


def dim_map_nd_stream(ctx):
    """3-D and higher coordinates (unequal axis lengths): flat index vs the model (in Coq) and a reference."""
    import quimb as qu
    import quimb.core as qc

    rng = ctx.rng
    cases, info = [], {}
    cid = 0
    for it in range(ctx.n(120, 1200)):
        nd = rng.randint(3, 4)
        szs = [rng.randint(1, 4) for _ in range(nd)]
        ncoo = rng.randint(1, 3)
        mode = rng.choice(["plain", "cyclic", "trim"])
        if mode == "plain":
            coos = [tuple(rng.randint(0, s - 1) for s in szs) for _ in range(ncoo)]
        else:
            coos = [tuple(rng.randint(-2, s + 1) for s in szs) for _ in range(ncoo)]
        dims = np.array([rng.randint(1, 3) for _ in range(int(np.prod(szs)))]).reshape(szs)
        ctx.count(("dim_map_nd", tuple(szs), tuple(coos), mode), len(set(szs[1:])) > 1)
        ctx.bump("dim_map_nd:" + mode)
        try:
            fd, fi = qc.dim_map(dims.tolist(), coos, cyclic=(mode == "cyclic"), trim=(mode == "trim"))
        except Exception as e:
            ctx.violation("dim_map_nd:raised", f"dim_map raised {type(e).__name__} on valid nd input", {"szs": szs, "coos": coos, "mode": mode})
            continue
        if mode == "cyclic":
            eff = [tuple(c % s for c, s in zip(coo, szs)) for coo in coos]
        elif mode == "trim":
            eff = [coo for coo in coos if all(0 <= c < s for c, s in zip(coo, szs))]
        else:
            eff = coos
        want = [int(np.ravel_multi_index(c, szs)) for c in eff]
        if list(fd) != [int(x) for x in dims.reshape(-1)] or list(fi) != want:
            ctx.violation("dim_map_nd", "dim_map on >= 3-D coordinates is not row-major flattening",
                          {"szs": szs, "coos": coos, "mode": mode, "got": list(map(int, fi)), "want": want})
        for c, got in zip(eff, fi):
            cid += 1
            info[cid] = {"szs": szs, "coo": c, "impl": int(got)}
            cases.append((cid, f"nd_flat {zlist(szs)} {zlist(c)} =? {zlit(int(got))}"))
        # embedding at nd coordinates: operator lands on the subsystem at the row-major position
        if mode == "plain" and np.prod([float(x) for x in dims.reshape(-1)]) <= 64 and len(set(coos)) == len(coos):
            c0 = coos[0]
            d0 = int(dims[c0])
            A = rng_int_matrix(rng, d0, d0)
            try:
                E = np.asarray(qu.ikron(A, dims.tolist(), [c0]))
                flat = [int(x) for x in dims.reshape(-1)]
                pos = int(np.ravel_multi_index(c0, szs))
                ref = np.array([[1.0]])
                for k, dk in enumerate(flat):
                    ref = np.kron(ref, A if k == pos else np.eye(dk))
                if E.shape != ref.shape or not np.array_equal(E, ref):
                    ctx.violation("ikron:nd_coordinates", "ikron at a multi-dimensional coordinate embeds on the wrong subsystem",
                                  {"szs": szs, "coo": c0})
            except Exception as e:
                ctx.violation("ikron:nd_coordinates:raised", f"ikron raised {type(e).__name__}", {"szs": szs, "coo": c0, "error": str(e)[:150]})
    header = ("From Coq Require Import ZArith List Bool.\nFrom QV Require Import C15.Model.\nImport ListNotations.\nOpen Scope Z_scope.\n")
    failed, errors = ctx.coq_cases("dimmapnd", header, cases, shard=500)
    for path, err in errors:
        ctx.broken_obligation("correspondence:dim_map_nd:" + path.split("/")[-1], err)
    for c in failed[:5]:
        ctx.broken_obligation("correspondence:dim_map_nd_model_vs_impl", info[c])


def ham_ownership(ctx):
    """every Hamiltonian generator that accepts `ownership`, over its option cross product (couplings, fields, cyclic,
    parallel, dense/sparse): the owned block is exactly those rows of the full operator"""
    import quimb as qu

    def dense(x):
        return x.toarray() if hasattr(x, "toarray") else np.asarray(x)

    builders = []
    for n in ctx.n([3, 4], [2, 3, 4, 5, 6]):
        for cyclic in (False, True):
            builders.append((f"ham_heis", n, 2**n, {"cyclic": cyclic}, lambda n=n, cyclic=cyclic, **kw: qu.ham_heis(n, j=(1.0, 2.0, 3.0), b=0.5, cyclic=cyclic, **kw)))
            builders.append((f"ham_heis", n, 2**n, {"cyclic": cyclic, "b": "vector"},
                             lambda n=n, cyclic=cyclic, **kw: qu.ham_heis(n, j=0.5, b=(0.25, 0.5, -1.0), cyclic=cyclic, **kw)))
            for bz in (0.0, 0.25):
                builders.append((f"ham_j1j2", n, 2**n, {"cyclic": cyclic, "bz": bz},
                                 lambda n=n, cyclic=cyclic, bz=bz, **kw: qu.ham_j1j2(n, j1=1.0, j2=0.5, bz=bz, cyclic=cyclic, **kw)))
            builders.append((f"ham_mbl", n, 2**n, {"cyclic": cyclic},
                             lambda n=n, cyclic=cyclic, **kw: qu.ham_mbl(n, dh=1.5, seed=7, cyclic=cyclic, **kw)))
            for par in (False, True):
                builders.append((f"ham_hubbard_hardcore", n, 2**n, {"cyclic": cyclic, "parallel": par},
                                 lambda n=n, cyclic=cyclic, par=par, **kw: qu.ham_hubbard_hardcore(n, t=0.5, V=1.5, mu=0.75, cyclic=cyclic, parallel=par, **kw)))
    for (nx, ny) in ctx.n([(2, 2), (2, 3)], [(2, 2), (2, 3), (3, 2), (3, 3)]):
        for cyclic in (False, True):
            for par in (False, True):
                for bz in (0.0, 0.75):
                    for jj in (1.0, (0.5, 1.0, -2.0), 0.0):
                        if jj == 0.0 and bz == 0.0:
                            continue
                        builders.append((f"ham_heis_2D", (nx, ny), 2**(nx * ny), {"cyclic": cyclic, "parallel": par, "bz": bz, "j": jj},
                                         lambda nx=nx, ny=ny, cyclic=cyclic, par=par, bz=bz, jj=jj, **kw:
                                         qu.ham_heis_2D(nx, ny, j=jj, bz=bz, cyclic=cyclic, parallel=par, **kw)))
    for name, n, D, opts, f in builders:
        try:
            full = dense(f())
        except Exception as e:
            ctx.bump("ham_builder_rejected:" + name)
            continue
        if full.shape != (D, D):
            ctx.violation(f"{name}:shape", f"{name} full operator has shape {full.shape}, expected {(D, D)}", {"call": name, "n": n, "options": opts})
            continue
        rngs = [(0, D), (0, 1), (D - 1, D), (1, D - 1), (D // 2, min(D, D // 2 + 3)), (3, 5)]
        for ri, rf in rngs:
            if not (0 <= ri < rf <= D):
                continue
            for sparse in ((True, False) if name in ("ham_heis", "ham_mbl") and rf - ri < D else (None,)):
                ctx.count((name, str(n), str(sorted(opts.items())), ri, rf, sparse), rf - ri < D)
                ctx.bump("ham_ownership:" + name)
                kw = {"ownership": (ri, rf)}
                if sparse is not None:
                    kw["sparse"] = sparse
                desc = {"call": name, "n": n, "options": {k: (list(v) if isinstance(v, tuple) else v) for k, v in opts.items()},
                        "ownership": [ri, rf], "sparse": sparse}
                try:
                    X = dense(f(**kw))
                except Exception as e:
                    ctx.violation(f"{name}:ownership:raised", f"{name}(ownership=({ri},{rf})) raised {type(e).__name__}: {str(e)[:120]}", desc)
                    continue
                if X.shape != full[ri:rf].shape or not np.allclose(X, full[ri:rf]):
                    ctx.violation(f"{name}:ownership", f"{name}(ownership=({ri},{rf})) is not those rows of the full Hamiltonian", desc)


def permute_correspondence(ctx):
    """permute (dense and sparse route, ket and operator): the implementation moves arrays with pairwise distinct
    entries, the observed placement is compared INSIDE COQ with `permute_index` of coq/C15/Permute.v for every
    entry; exhaustive over small dimension lists and ALL permutations.  Plus (exact, implementation level) the
    inverse and composition laws proved in PropsPermute.v."""
    import quimb as qu
    import scipy.sparse as sp
    from harness.common import natlist

    header = ("From Coq Require Import ZArith List Bool.\nFrom QV Require Import C20.Model C20.Proofs C15.Permute.\n"
              "Import ListNotations.\nOpen Scope Z_scope.\n"
              "Definition zrange (n : Z) : list Z := map Z.of_nat (seq 0 (Z.to_nat n)).\n"
              "Fixpoint zl_eqb (a b : list Z) : bool := match a, b with [], [] => true | x :: a', y :: b' => Z.eqb x y && zl_eqb a' b' "
              "| _, _ => false end.\n"
              "(* where each position of the RESULT comes from: by C15_permute_inverse_undoes the entry at new position m is the old "
              "entry at permute_index dims[perm] (inv perm) m *)\n"
              "Definition sources (dims : list Z) (perm : list nat) : list Z :=\n"
              "  map (permute_index (takeZ perm dims) (inv perm)) (zrange (prodZ dims)).\n"
              "Definition ket_check (dims : list Z) (perm : list nat) (res : list Z) : bool :=\n"
              "  zl_eqb (map (fun o => o + 1) (sources dims perm)) res.\n"
              "Definition op_check (dims : list Z) (perm : list nat) (res : list Z) : bool :=\n"
              "  let D := prodZ dims in let src := sources dims perm in\n"
              "  zl_eqb (flat_map (fun r => map (fun c => r * D + c + 1) src) src) res.\n")
    cases, info = [], {}

    def add(expr, d):
        cid = len(cases)
        cases.append((cid, expr))
        info[cid] = d

    rng = np.random.default_rng(ctx.seed + 1515)
    dim_lists = []
    for n in (1, 2, 3, 4):
        for dims in itertools.product((1, 2, 3), repeat=n):
            D = int(np.prod(dims))
            if D == 1 or D > (24 if ctx.quick else 54):
                continue
            dim_lists.append(list(dims))
    if ctx.quick:
        # every list of <= 3 subsystems, a sample of the 4-subsystem ones
        four = [d for d in dim_lists if len(d) == 4]
        dim_lists = [d for d in dim_lists if len(d) < 4] + [four[i] for i in rng.choice(len(four), size=min(10, len(four)), replace=False)]
    for dims in dim_lists:
        n, D = len(dims), int(np.prod(dims))
        perms = list(itertools.permutations(range(n)))
        if ctx.quick and len(perms) > 6:
            perms = [perms[i] for i in rng.choice(len(perms), size=8, replace=False)]
        for perm in perms:
            ket = np.arange(1, D + 1, dtype=float).reshape(D, 1)
            op = np.arange(1, D * D + 1, dtype=float).reshape(D, D)
            desc = {"call": "permute", "dims": dims, "perm": list(perm)}
            try:
                outs = {
                    "ket:dense": np.asarray(qu.permute(qu.qu(ket), dims, perm)),
                    "ket:sparse": qu.permute(sp.csr_matrix(ket), dims, perm).toarray(),
                    "op:dense": np.asarray(qu.permute(qu.qu(op), dims, perm)),
                    "op:sparse": qu.permute(sp.csr_matrix(op), dims, perm).toarray(),
                }
            except Exception as e:
                ctx.violation("permute:raised", f"permute(dims={dims}, perm={list(perm)}) raised {type(e).__name__}: {e}", desc)
                continue
            for route, res in outs.items():
                ctx.count(("permute", tuple(dims), perm, route), perm != tuple(range(n)))
                ctx.bump("permute_corr:" + route)
                if D * D > (150 if ctx.quick else 2500) and route.startswith("op"):
                    continue
                chk = "ket_check" if route.startswith("ket") else "op_check"
                add(f"{chk} {zlist(dims)} {natlist(perm)} {zlist([int(round(v)) for v in np.asarray(res).real.reshape(-1)])}",
                    {**desc, "route": route})
            # laws (exact: permutations of exactly representable entries)
            inv = list(np.argsort(perm))
            ndims = [dims[k] for k in perm]
            for route, arr, mk in (("dense", op, lambda a: qu.qu(a)), ("sparse", op, sp.csr_matrix)):
                back = qu.permute(qu.permute(mk(arr), dims, perm), ndims, inv)
                back = back.toarray() if sp.issparse(back) else np.asarray(back)
                if not np.array_equal(back.real, arr):
                    ctx.violation(f"permute:inverse:{route}", f"permute with the inverse permutation does not undo permute (dims={dims}, perm={list(perm)})",
                                  {**desc, "route": route})
                p2 = list(rng.permutation(n))
                comp = [perm[k] for k in p2]
                two = qu.permute(qu.permute(mk(arr), dims, perm), ndims, p2)
                one = qu.permute(mk(arr), dims, comp)
                two = two.toarray() if sp.issparse(two) else np.asarray(two)
                one = one.toarray() if sp.issparse(one) else np.asarray(one)
                if not np.array_equal(two, one):
                    ctx.violation(f"permute:compose:{route}", f"permuting twice differs from permuting once with the composed permutation "
                                  f"(dims={dims}, p1={list(perm)}, p2={p2})", {**desc, "route": route, "p2": p2})
    failed, errors = ctx.coq_cases("permute", header, cases, shard=150)
    for path, err in errors:
        ctx.broken_obligation("correspondence:" + path.split("/")[-1], err)
    seen = set()
    for c in failed:
        d = info[c]
        key = "permute:index_map:" + d["route"]
        if key in seen:
            continue
        seen.add(key)
        ctx.violation(key, f"permute ({d['route']}) with dims={d['dims']} perm={d['perm']} does not place the entries where the "
                           "proved index map permute_index (coq/C15/Permute.v) puts them", d)
    ctx.extra["coq_cases_permute"] = len(cases)


def run(ctx):
    ctx.extra["rule"] = RULE
    ctx.trusted_base += [
        "hand-written model coq/C15/Model.v (dynal, gen_matching_dynal, kron ownership offsets, ikron factor emitter, "
        "dim_compress, _trace_lose/_trace_keep index formulas); tie = correspondence in Coq against values observed in "
        "the implementation (helper functions called directly; kron/_kron_core observed by rebinding module globals)",
        "modelled, not verified: numpy/scipy kron, reshape/transpose, sparse formats; those are exercised only by the "
        "exact oracle stream against plain numpy references",
    ]
    ctx.check_props(["Base/Sums.vo", "C15/Model.vo", "C15/Proofs.vo", "C15/Adjoint.vo", "C20/Model.vo", "C20/Proofs.vo",
                     "C15/Permute.vo", "C15/Props.v", "C15/PropsPermute.v"])
    ctx.stage(ownership_stream)
    ctx.stage(ikron_stream)
    ctx.stage(compress_stream)
    ctx.stage(algebra_stream)
    ctx.stage(dim_map_nd_stream)
    ctx.stage(ham_ownership)
    ctx.stage(permute_correspondence)


def replay(ctx, path):
    run(ctx)

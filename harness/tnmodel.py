"""Bridge between quimb tensor networks and the Coq network semantics
(coq/Base/TN.v, coq/Base/TNExec.v): dump a network with exact (Gaussian)
integer data as a Coq literal and build the boolean expressions that the
correspondence evaluates with vm_compute."""

import numpy as np

HEADER = (
    "From Coq Require Import ZArith Arith List Bool.\n"
    "From QV Require Import Base.Sums Base.TN Base.TNExec.\n"
    "Import ListNotations.\n"
)


class NotExact(Exception):
    pass


def to_gauss(x, tol=1e-7):
    """complex/float scalar -> exact (re, im) integers, refusing otherwise."""
    x = complex(x)
    re, im = round(x.real), round(x.imag)
    scale = max(1.0, abs(x))
    if abs(x.real - re) > tol * scale or abs(x.imag - im) > tol * scale:
        raise NotExact(repr(x))
    return int(re), int(im)


def glit(x):
    re, im = to_gauss(x)
    return f"(({re})%Z, ({im})%Z)"


def glist(arr):
    return "[" + "; ".join(glit(v) for v in np.asarray(arr).reshape(-1)) + "]"


def nlist(xs):
    return "[" + "; ".join(f"{int(x)}%nat" for x in xs) + "]"


class Namer:
    def __init__(self):
        self.ids = {}

    def __call__(self, name):
        if name not in self.ids:
            self.ids[name] = len(self.ids)
        return self.ids[name]


def net_literal(tensors, namer=None):
    """tensors: iterable of (inds, array).  Returns (dims_literal, ts_literal, namer)."""
    namer = namer or Namer()
    dims = {}
    ts = []
    for inds, arr in tensors:
        arr = np.asarray(arr)
        if arr.shape != tuple(arr.shape[: len(inds)]) or arr.ndim != len(inds):
            raise ValueError("rank mismatch")
        ids = [namer(i) for i in inds]
        for i, d in zip(ids, arr.shape):
            if dims.setdefault(i, int(d)) != int(d):
                raise ValueError(f"inconsistent dimension for label {i}")
        ts.append(f"arr_tensor {nlist(ids)} {nlist(arr.shape)} {glist(arr)}")
    dl = "[" + "; ".join(f"({i}%nat, {d}%nat)" for i, d in sorted(dims.items())) + "]"
    return dl, "[" + "; ".join(ts) + "]", namer


def qtn_tensors(tn):
    """(inds, exact array) for every tensor of a quimb TensorNetwork / Tensor."""
    import quimb.tensor as qtn

    if isinstance(tn, qtn.Tensor):
        return [(tuple(tn.inds), np.asarray(tn.data))]
    return [(tuple(t.inds), np.asarray(t.data)) for t in tn.tensors]


def dense_check_expr(tensors, outs, exponent, impl_flat, namer=None):
    """Coq bool: dense(network over outs) * 10^exponent == impl (flattened row-major over outs)."""
    dl, tl, namer = net_literal(tensors, namer)
    ol = nlist([namer(o) for o in outs])
    return f"check_dense {dl} {tl} {ol} ({int(exponent)})%Z {glist(impl_flat)}"


def same_value_expr(tensors_a, exp_a, tensors_b, exp_b, outs):
    """Coq bool: two networks denote the same tensor over `outs`
    (10^exp_a * dense a == 10^exp_b * dense b; exponents are shifted to be >= 0)."""
    m = min(int(exp_a), int(exp_b))
    ea, eb = int(exp_a) - m, int(exp_b) - m
    namer = Namer()
    for o in outs:
        namer(o)
    da, ta, _ = net_literal(tensors_a, namer)
    ol = nlist([namer(o) for o in outs])
    db, tb, _ = net_literal(tensors_b, namer)
    return (
        f"glist_eqb (map (gscale (10 ^ {ea})%Z) (dense {da} {ta} {ol})) "
        f"(map (gscale (10 ^ {eb})%Z) (dense {db} {tb} {ol}))"
    )


def np_dense(tensors, outs, exponent=0):
    """independent numpy reference (einsum over integer labels)."""
    namer = Namer()
    args = []
    for inds, arr in tensors:
        args += [np.asarray(arr), [namer(i) for i in inds]]
    out = [namer(o) for o in outs]
    return np.einsum(*args, out) * (10.0 ** exponent)

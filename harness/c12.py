"""C12 - approximate contraction is exact when untruncated and obeys its bond cap.

Proof part (coq/C12): a PLAN language for compressed-contraction schemes
(Contract | Canonize | Compress | Project | Fuse | Gauge | HandOver | Env) with
an executable checker `plan_ok`; theorems (for every plan): at each hand-over
every bond compressed since the previous hand-over is within the cap
(plan_bond_cap), every compression ends within its max_bond, only known
primitives, no tensor used after contraction; and, over any commutative ring on
top of Base/TN.v: exact local rewrites + contraction steps preserve the network
value (plan_exact), environment + excluded part = whole (env_consistent).

Tie (H, trace refinement): the primitives of quimb are rebound at run time
(TensorNetwork._compress_between_tids / _canonize_between_tids /
_contract_between_tids / contract_tags / insert_gauge /
insert_compressor_between_regions, module globals tensor_compress_bond /
tensor_canonize_bond / tensor_fuse_squeeze, and partition -> 1D/2D boundary
compressor / l2bp -> re-add as one macro primitive) so that every scheme run is
LOGGED as a plan with the actual bond sizes before/after; `plan_ok`,
`plan_opts_are` (every primitive got the scheme's max_bond and cutoff) and
`scheme_untruncating` are evaluated on the logged plan inside Coq.  A frame check at each hand-over (tensor set and untouched bond
sizes must be explained by the logged primitives) turns any unlogged mutation
into an `Unknown` step, which Coq refuses.  Exact integer stream: schemes that
only contract (dense environments, contract_compressed without compression)
are compared with the model's `dense` inside Coq.

Every contract_boundary_from call additionally logs a `Boundary` step: the total
size (product over ALL shared indices, fused or not) of the bond between every
pair of tensors of the new boundary layer, compressed or not - Coq refuses any
above the cap (a forgotten compressor, e.g. on the bond closing a periodic
direction, is caught here).  Each Compress records which truncation code really
ran (svd / virtual-tree / full-bond / local-fit / qr-only).

Oracle (tests, tolerance 1e-8 relative): whenever the logged plan is
untruncating the scheme value equals exact contraction - every scheme is run
with real and complex data, open and periodic lattices, and three caps:
generous (or None), "mid" (the smallest cap covering every rank bound of the
generous run, used when it is below the raw bond so that the truncation code
runs although nothing may be lost) and tight; every environment (row / column /
plaquette) combined with the excluded part gives the value of the whole; one
shared environment store (2D x/plaquette envs, 3D cell envs) handed to several
consumers in sequence keeps every stored environment consistent and every
consumer exact.
"""

import contextlib
import inspect
import itertools

import numpy as np

from harness import tnmodel as tm
from harness.common import blit, natlit

RULE = (
    "schemes x options drawn from: 2D contract_boundary / contract_boundary_from_* (every side, sequences, modes "
    "mps/full-bond/projector2d + every 1D and arbitrary-geometry boundary compressor, canonize on/off, compress_late, "
    "sweep_reverse, flat and bra/ket layered with layer_tags, open and cyclic, real and complex), 3D likewise "
    "(peps/l2bp3d/projector3d + the 2D compressors), contract_compressed / contract_around over random connected graphs "
    "and random contraction trees (all compress modes), HOTRG, CTMRG, row/column/plaquette environments; lattices <= 4x4 / "
    "2x2x3, D in {2,3}; each scheme is run with a generous cap (64, 128 or None) and a tight one (1..6), cutoff 0 or "
    "1e-10.  Every run is logged as a plan and decided inside Coq.  Non-trivial: the plan contains >= 1 compression that "
    "changed a bond size (tight cap) or >= 1 compression/projection at all (generous cap); distinct = distinct (scheme, "
    "options, lattice, seed, max_bond)."
)

HEADER = (
    "From Coq Require Import ZArith List Bool Arith.\n"
    "From QV Require Import C12.Model.\n"
    "Import ListNotations.\n"
)

TOL = 1e-8

# ------------------------------------------------------------------------------
# tracing

_T = None  # the active trace


def _prod(xs):
    p = 1
    for x in xs:
        p *= int(x)
    return p


def pair_sizes(t1, t2):
    """(bond size, outer size of t1, outer size of t2) or None if no shared index"""
    shared = [ix for ix in t1.inds if ix in t2.inds]
    if not shared:
        return None
    b = _prod(t1.ind_size(ix) for ix in shared)
    l = _prod(t1.ind_size(ix) for ix in t1.inds if ix not in shared)
    r = _prod(t2.ind_size(ix) for ix in t2.inds if ix not in shared)
    return b, l, r


class Trace:
    """one logged plan = one working network (the root).  Tensors are named in the plan by
    object identity (quimb re-uses its integer tids): a tensor keeps its name through in-place
    gauge / compression moves, a contraction creates a new name."""

    def __init__(self, cap, cutoff, root=None):
        self.cap = cap
        self.cut0 = cutoff == 0.0
        self.root = None
        self.names = {}  # id(tensor) -> plan identifier
        self.keep = []  # references, so that ids are never recycled during a run
        self.ops = []
        self.prims = []
        self.depth = 0
        self.consumed = set()
        self.introduced = set()
        self.touched = set()
        self.snap_bonds = None
        self.snap_ids = None
        self.stepref = None
        self.stepfail = None
        self.nenv = 0
        self.detached = None
        self.paths = {}  # which truncation code paths really ran (counted at any nesting depth)
        self.bstage = None  # (introduced, consumed) since the entry of the current contract_boundary_from
        if root is not None:
            self.adopt(root)

    # -- naming / membership ------------------------------------------------
    def known(self, t):
        return id(t) in self.names

    def P(self, t):
        i = id(t)
        if i not in self.names:
            self.names[i] = len(self.keep) + 1
            self.keep.append(t)
        return self.names[i]

    def alias(self, copy, orig):
        self.names[id(copy)] = self.P(orig)
        self.keep.append(copy)

    def adopt(self, net):
        self.root = net
        self.snap_bonds = self.bondmap(net)
        self.snap_ids = {self.P(t) for t in net.tensor_map.values()}

    def rel_net(self, net):
        if self.root is None:
            self.adopt(net)
            return True
        if net is self.root:
            return True
        names = self.names
        return any(id(t) in names for t in net.tensor_map.values())

    def rel_tensors(self, *ts):
        return self.root is not None and all(id(t) in self.names for t in ts)

    def bondmap(self, net):
        bm = {}
        for ix, tids in net.ind_map.items():
            if len(tids) < 2:
                continue
            d = int(net.ind_size(ix))
            ps = sorted(self.P(net.tensor_map[t]) for t in tids)
            for a, b in itertools.combinations(ps, 2):
                bm[(a, b)] = bm.get((a, b), 1) * d
        return bm

    # -- logging ---------------------------------------------------------------
    def emit(self, op, prim, net=None):
        self.ops.append(op)
        self.prims.append(prim)
        k = op[0]
        if k == "Contract":
            self.consumed |= set(op[1]) - {op[2]}
            self.introduced.add(op[2])
            self.touched |= set(op[1]) | {op[2]}
        elif k in ("Canonize", "Fuse", "Gauge", "Compress"):
            self.touched |= {op[1], op[2]}
        elif k == "Project":
            self.introduced |= {op[3], op[4]}
            self.touched |= set(op[1]) | set(op[2]) | {op[3], op[4]}
        if self.bstage is not None and k == "Contract":
            self.bstage[0].add(op[2])
            self.bstage[1].update(set(op[1]) - {op[2]})
        if self.stepref is not None and self.stepfail is None and net is not None and net is self.root:
            self._stepcheck()

    def _stepcheck(self):
        global _T
        keep, _T = _T, None
        try:
            v = complex(self.root.contract(all, optimize="auto-hq"))
        except Exception:  # cannot evaluate: not a failure of the step
            v = None
        finally:
            _T = keep
        if v is not None and not close(v, self.stepref):
            self.stepfail = (len(self.ops) - 1, self.prims[-1], self.ops[-1], v)

    def handover(self, why=""):
        root = self.root
        if root is None or self.detached is not None:
            return
        unknown = [t for t in root.tensor_map.values() if id(t) not in self.names]
        bm = self.bondmap(root)
        ids = {self.P(t) for t in root.tensor_map.values()}
        expect = (self.snap_ids - self.consumed) | (self.introduced - self.consumed)
        if unknown or ids != expect:
            self.ops.append(("Unknown", 2))
            self.prims.append(f"tensor set changed outside the logged primitives: {sorted(ids ^ expect)[:6]} ({why})")
        else:
            for key in set(bm) | set(self.snap_bonds):
                a, b = key
                if a in self.touched or b in self.touched or a not in ids or b not in ids:
                    continue
                if bm.get(key, 1) != self.snap_bonds.get(key, 1):
                    self.ops.append(("Unknown", 1))
                    self.prims.append(
                        f"bond {key} changed size {self.snap_bonds.get(key, 1)}->{bm.get(key, 1)} outside the logged primitives ({why})"
                    )
                    break
        # the table lists the bonds between tensors touched since the previous hand-over (a bond compressed in this
        # stage always joins two such tensors); untouched bonds are covered by the frame check above
        self.ops.append(("HandOver", self.cap, sorted((a, b, s) for (a, b), s in bm.items()
                                                       if a in self.touched and b in self.touched)))
        self.prims.append("handover:" + why)
        self.snap_bonds = bm
        self.snap_ids = ids
        self.consumed = set()
        self.introduced = set()
        self.touched = set()

    def boundary(self, why=""):
        """a boundary-contraction step returns: the total size of the bond between every pair of tensors produced
        by the contractions of this step (the new boundary layer) - compressed or not"""
        if self.root is None or self.bstage is None or self.detached is not None or self.cap is None:
            return
        layer = self.bstage[0] - self.bstage[1]
        bm = self.bondmap(self.root)
        table = sorted((a, b, s) for (a, b), s in bm.items() if a in layer and b in layer)
        if table:
            self.ops.append(("Boundary", self.cap, table))
            self.prims.append("boundary:" + why)

    def env(self, key, tn_env):
        self.nenv += 1
        self.ops.append(("Env", self.nenv, sorted(self.P(t) for t in tn_env.tensor_map.values())))
        self.prims.append(f"env:{key}")


class SpyDict(dict):
    """envs dict that logs every stored environment at the time it is stored"""

    def __init__(self, tr):
        super().__init__()
        self.tr = tr

    def __setitem__(self, key, val):
        super().__setitem__(key, val)
        tr = self.tr
        if tr is not None and tr.root is not None and tr.depth == 0 and val.num_tensors and tr.rel_net(val):
            tr.env(key, val)


_SIG = {}


def _bound(orig, args, kwargs):
    try:
        sig = _SIG.get(orig)
        if sig is None:
            sig = _SIG[orig] = inspect.signature(orig)
        ba = sig.bind(*args, **kwargs)
        ba.apply_defaults()
        return ba.arguments
    except TypeError:
        return {}


def _patches():
    """(owner, attribute name, original, wrapper) for every rebinding"""
    import functools
    import importlib

    import quimb.tensor.tensor_core as tc
    from quimb.tensor.tn2d.core import TensorNetwork2D
    from quimb.tensor.tn3d.core import TensorNetwork3D

    TN = tc.TensorNetwork
    out = []

    def primitive(owner, name, before, after, relevant=None, count=None):
        """outermost-only logging wrapper: nested primitives are part of the outer one"""
        orig = owner.__dict__[name] if isinstance(owner, type) else getattr(owner, name)
        assert not isinstance(orig, functools.partialmethod)

        def wrapper(*args, **kwargs):
            tr = _T
            if tr is not None and count:
                tr.paths[count] = tr.paths.get(count, 0) + 1
            if tr is None or tr.depth:
                return orig(*args, **kwargs)
            a = _bound(orig, args, kwargs)
            try:
                ok = bool(a) and (relevant(tr, a) if relevant else tr.rel_net(args[0]))
            except Exception:
                ok = False
            if not ok:
                return orig(*args, **kwargs)
            st = before(tr, a)
            tr.depth += 1
            try:
                res = orig(*args, **kwargs)
            finally:
                tr.depth -= 1
            after(tr, a, st, res)
            return res

        wrapper.__wrapped__ = orig
        out.append((owner, name, orig, wrapper))
        return wrapper

    def objs(net):
        return dict(net.tensor_map)

    # ---- TensorNetwork._compress_between_tids ---------------------------------
    def path_of(tr, p0):
        ran = [k for k, v in tr.paths.items() if v > p0.get(k, 0)]
        for k in ("virtual-tree", "full-bond", "local-fit", "svd"):
            if k in ran:
                return k
        return "qr-only"

    def cb_before(tr, a):
        net = a["self"]
        t1, t2 = net.tensor_map[a["tid1"]], net.tensor_map[a["tid2"]]
        return t1, t2, pair_sizes(t1, t2), dict(tr.paths)

    def cb_after(tr, a, st, res):
        t1, t2, sz, p0 = st
        if sz is None:
            return
        b, l, r = sz
        now = pair_sizes(t1, t2)
        # rank bound: the pair-local (SVD / QR based) modes see exactly the matrix of the pair, whose rank is at most
        # min(bond, other legs of either tensor); environment / fit based modes (full-bond, local-fit, callables) are
        # only certain to lose nothing when max_bond covers the whole bond
        rk = min(b, l, r) if a.get("mode") in ("basic", "virtual-tree") else b
        tr.emit(("Compress", tr.P(t1), tr.P(t2), a["max_bond"], a["cutoff"] == 0.0, rk, b, now[0] if now else 1),
                f"_compress_between_tids(mode={a.get('mode')},path={path_of(tr, p0)})", a["self"])

    primitive(TN, "_compress_between_tids", cb_before, cb_after)

    def counter(owner, name, label):
        orig = owner.__dict__[name]

        def wrapper(*args, **kwargs):
            tr = _T
            if tr is not None:
                tr.paths[label] = tr.paths.get(label, 0) + 1
            return orig(*args, **kwargs)

        wrapper.__wrapped__ = orig
        out.append((owner, name, orig, wrapper))

    counter(TN, "_compress_between_virtual_tree_tids", "virtual-tree")
    counter(TN, "_compress_between_full_bond_tids", "full-bond")
    counter(TN, "_compress_between_local_fit", "local-fit")

    # ---- TensorNetwork._canonize_between_tids --------------------------------------
    def cz_before(tr, a):
        net = a["self"]
        return net.tensor_map[a["tid1"]], net.tensor_map[a["tid2"]]

    primitive(TN, "_canonize_between_tids", cz_before,
              lambda tr, a, st, res: tr.emit(("Canonize", tr.P(st[0]), tr.P(st[1])), "_canonize_between_tids", a["self"])
              if st[0] is not st[1] else None)

    # ---- every in-place contraction: diff of the tensor objects -----------------------
    def ct_after(tr, a, st, res, prim):
        net = a["self"]
        now = objs(net)
        gone = [t for tid, t in st.items() if now.get(tid) is not t]
        new = [t for tid, t in now.items() if st.get(tid) is not t]
        if len(new) == 1 and gone:
            tr.emit(("Contract", sorted(tr.P(t) for t in gone), tr.P(new[0])), prim, net)
        elif gone or new:
            tr.emit(("Unknown", 4), f"{prim} changed the tensor set ({len(gone)} gone, {len(new)} new)", net)

    primitive(TN, "_contract_between_tids", lambda tr, a: objs(a["self"]),
              lambda tr, a, st, res: ct_after(tr, a, st, res, "_contract_between_tids"))
    ct_wrapped = primitive(TN, "contract_tags", lambda tr, a: objs(a["self"]) if a.get("inplace") else None,
                           lambda tr, a, st, res: ct_after(tr, a, st, res, "contract_tags") if st is not None else None)

    def contract_tags_(self, *args, **kwargs):
        kwargs["inplace"] = True
        return ct_wrapped(self, *args, **kwargs)

    out.append((TN, "contract_tags_", TN.__dict__["contract_tags_"], contract_tags_))

    # ---- TensorNetwork.insert_gauge --------------------------------------------------
    def ig_before(tr, a):
        net = a["self"]
        (tid1,) = net._get_tids_from_tags(a["where1"], which="all")
        (tid2,) = net._get_tids_from_tags(a["where2"], which="all")
        t1, t2 = net.tensor_map[tid1], net.tensor_map[tid2]
        return t1, t2, pair_sizes(t1, t2)

    def ig_after(tr, a, st, res):
        t1, t2, sz = st
        now = pair_sizes(t1, t2)
        if sz is None or now is None:
            return
        if now[0] == sz[0]:
            tr.emit(("Gauge", tr.P(t1), tr.P(t2)), "insert_gauge", a["self"])
        else:
            # similarity compressors of an (approximate, not necessarily hermitian) bond environment: only a cap that
            # covers the whole bond is certain to lose nothing
            tr.emit(("Compress", tr.P(t1), tr.P(t2), tr.cap, tr.cut0, sz[0], sz[0], now[0]), "insert_gauge(compressors)", a["self"])

    primitive(TN, "insert_gauge", ig_before, ig_after)

    # ---- TensorNetwork.insert_compressor_between_regions ------------------------------
    def target_of(a):
        if a.get("insert_into") is not None:
            return a["insert_into"]
        return a["self"] if a.get("inplace") else None

    def ic_rel(tr, a):
        tgt = target_of(a)
        return tgt is not None and tr.rel_net(tgt)

    def ic_before(tr, a):
        tgt = target_of(a)
        ltn = tgt.select(a["ltags"], which=a["select_which"])
        rtn = tgt.select(a["rtags"], which=a["select_which"])
        # the projectors are computed from the receiver (often an untouched copy of the target in which the
        # neighbouring bonds are not yet cut): the rank bound is the one of ITS two regions
        src = a["self"]
        lsrc = src.select(a["ltags"], which=a["select_which"])
        rsrc = src.select(a["rtags"], which=a["select_which"])
        bix = [ix for ix in lsrc.ind_map if ix in rsrc.ind_map]
        before = _prod(src.ind_size(ix) for ix in bix)
        dl = _prod(src.ind_size(ix) for ix in lsrc.outer_inds() if ix not in bix)
        dr = _prod(src.ind_size(ix) for ix in rsrc.outer_inds() if ix not in bix)
        co = dict(a.get("kwargs") or {})
        co.update(a.get("compress_opts") or {})
        chi = co.get("max_bond", a["max_bond"])
        cut = co.get("cutoff", a["cutoff"])
        return (list(ltn.tensor_map.values()), list(rtn.tensor_map.values()), before, min(before, dl, dr), chi, cut, objs(tgt))

    def ic_after(tr, a, st, res):
        la, lb, before, rk, chi, cut, st0 = st
        tgt = target_of(a)
        now = objs(tgt)
        new = [t for tid, t in now.items() if st0.get(tid) is not t]
        gone = [t for tid, t in st0.items() if now.get(tid) is not t]
        if len(new) != 2 or gone:
            tr.emit(("Unknown", 5), "insert_compressor_between_regions did not add exactly two tensors", tgt)
            return
        pa, pb = new
        sz = pair_sizes(pa, pb)
        if not any(ix in pa.inds for t in la for ix in t.inds):
            pa, pb = pb, pa
        tr.emit(("Project", sorted(tr.P(t) for t in la), sorted(tr.P(t) for t in lb), tr.P(pa), tr.P(pb), chi, cut == 0.0, rk,
                 before, sz[0] if sz else 1), f"insert_compressor_between_regions(mode={a.get('mode')})", tgt)

    primitive(TN, "insert_compressor_between_regions", ic_before, ic_after, relevant=ic_rel)

    # ---- module level primitives called directly on tensors -----------------------------
    def t_rel(tr, a):
        return tr.rel_tensors(a["T1"], a["T2"]) if "T1" in a else tr.rel_tensors(a["t1"], a["t2"])

    def tcb_after(tr, a, st, res):
        if st is None:
            return
        co = a.get("compress_opts") or {}
        now = pair_sizes(a["T1"], a["T2"])
        tr.emit(("Compress", tr.P(a["T1"]), tr.P(a["T2"]), co.get("max_bond"), co.get("cutoff", 1e-10) == 0.0,
                 min(st), st[0], now[0] if now else 1), "tensor_compress_bond")

    primitive(tc, "tensor_compress_bond", lambda tr, a: pair_sizes(a["T1"], a["T2"]), tcb_after, relevant=t_rel, count="svd")
    primitive(tc, "tensor_canonize_bond", lambda tr, a: pair_sizes(a["T1"], a["T2"]),
              lambda tr, a, st, res: tr.emit(("Canonize", tr.P(a["T1"]), tr.P(a["T2"])), "tensor_canonize_bond")
              if st is not None else None, relevant=t_rel)
    primitive(tc, "tensor_fuse_squeeze", lambda tr, a: len([ix for ix in a["t1"].inds if ix in a["t2"].inds]),
              lambda tr, a, st, res: tr.emit(("Fuse", tr.P(a["t1"]), tr.P(a["t2"])), "tensor_fuse_squeeze")
              if st > 1 else None, relevant=t_rel)

    # ---- macro primitives: the 1D / 2D boundary compressors and l2bp ------------------------
    # the drivers split the boundary off the working network (partition, which COPIES the
    # tensors), compress the detached part and add it back: the three calls together are logged
    # as Contract(site group -> site tensor) + Compress(site, site') per pair of neighbouring sites.
    def region_sizes(net, groups):
        """product of the shared index sizes between every pair of site groups"""
        owner = {}
        for g, tids in groups.items():
            for t in tids:
                owner[t] = g
        sz, outer = {}, {}
        for ix, tids in net.ind_map.items():
            gs = sorted({owner[t] for t in tids if t in owner}, key=str)
            d = int(net.ind_size(ix))
            if len(gs) == 2:
                key = (gs[0], gs[1])
                sz[key] = sz.get(key, 1) * d
            if len(gs) >= 2 or len(tids) == 1 or any(t not in owner for t in tids):
                for g in gs:
                    outer[g] = outer.get(g, 1) * d
        # valid rank bound of the bond a-b: the other legs of site a, or of site b
        rk = {k: min(b, outer[k[0]] // b, outer[k[1]] // b) for k, b in sz.items()}
        return sz, rk

    def part_rel(tr, a):
        return a["self"] is tr.root and bool(a.get("inplace")) and tr.detached is None

    def part_before(tr, a):
        net = a["self"]
        return [net.tensor_map[t] for t in net._get_tids_from_tags(a["tags"], which=a["which"])]

    def part_after(tr, a, st, res):
        t1, t2 = res
        copies = list(t2.tensor_map.values())
        ok = len(copies) == len(st) and all(c.inds == o.inds and c.shape == o.shape for c, o in zip(copies, st))
        if ok:
            for c, o in zip(copies, st):
                tr.alias(c, o)
        tr.detached = {"net": t2, "ok": ok, "macro": None}

    primitive(TN, "partition", part_before, part_after, relevant=part_rel)

    def macro(modname, fname, tn_arg):
        mod = importlib.import_module(modname)

        def rel(tr, a):
            det = tr.detached
            return det is not None and a[tn_arg] is det["net"] and bool(a.get("inplace")) and a.get("site_tags") is not None

        def before(tr, a):
            net = a[tn_arg]
            groups = {st: sorted(net.tag_map.get(st, ())) for st in a["site_tags"]}
            sz, rk = region_sizes(net, groups)
            chain, cross_ = {}, {}
            if fname == "tensor_network_1d_compress":
                # the result is an OPEN chain in the order of site_tags: the bond between consecutive sites has to carry
                # everything that crosses that cut (long range bonds, e.g. the one closing a periodic direction, are
                # re-routed through the chain).  Compressors that bring the whole chain to canonical form before
                # truncating (for the tree-gauge ones: gauge distance 3 spans a chain of <= 5 sites) lose nothing as
                # soon as max_bond covers the Schmidt rank of the cut, min(crossing, open legs left, open legs right)
                order = list(a["site_tags"])
                pos = {}
                for k, st_ in enumerate(order):
                    for t in groups[st_]:
                        pos[t] = k
                glob = (a.get("method") in GLOBALLY_EXACT_1D and a.get("canonize", True) is not False and len(order) <= 5)
                if len(pos) == net.num_tensors:
                    for k in range(len(order) - 1):
                        cross = left = right = 1
                        for ix, tids in net.ind_map.items():
                            ps = [pos[t] for t in tids]
                            d = int(net.ind_size(ix))
                            if min(ps) <= k < max(ps):
                                cross *= d
                            elif len(tids) == 1:
                                if ps[0] <= k:
                                    left *= d
                                else:
                                    right *= d
                        kk = tuple(sorted((order[k], order[k + 1]), key=str))
                        cross_[kk] = cross
                        chain[kk] = min(cross, left, right) if glob else cross
            return {s: [tr.P(net.tensor_map[t]) for t in g] for s, g in groups.items()}, sz, rk, chain, dict(tr.paths), cross_

        def after(tr, a, st, res):
            net = a[tn_arg]
            groups1 = {s: sorted(net.tag_map.get(s, ())) for s in a["site_tags"]}
            covered = set(t for g in groups1.values() for t in g)
            tr.detached["macro"] = {
                "name": f"{fname}(method={a.get('method')})", "site_tags": list(a["site_tags"]),
                "groups0": st[0], "sz0": st[1], "rk0": st[2], "chain": st[3], "cross": st[5],
                "paths": sorted(k for k, v in tr.paths.items() if v > st[4].get(k, 0)),
                "objs1": {s: [net.tensor_map[t] for t in g] for s, g in groups1.items()},
                "sz1": region_sizes(net, groups1)[0], "complete": covered == set(net.tensor_map),
                "chi": a.get("max_bond"), "cut0": a.get("cutoff", 1e-10) == 0.0,
            }

        primitive(mod, fname, before, after, relevant=rel)

    macro("quimb.tensor.tn1d.compress", "tensor_network_1d_compress", "tn")
    macro("quimb.tensor.tn2d.compress", "tensor_network_2d_compress", "tn")
    macro("quimb.tensor.belief_propagation.l2bp", "compress_l2bp", "tn")

    def readd_rel(tr, a):
        det = tr.detached
        return det is not None and a["self"] is tr.root and a["tn"] is det["net"]

    def readd_after(tr, a, st, res):
        det, tr.detached = tr.detached, None
        root = a["self"]
        m = det["macro"]
        if not det["ok"]:
            tr.emit(("Unknown", 6), "partition returned unexpected tensors", root)
            return
        if m is None:
            return  # detached and re-added untouched (the copies carry the names of the originals)
        if not m["complete"] or any(len(o) != 1 for o in m["objs1"].values()):
            tr.emit(("Unknown", 3), f"{m['name']}: result is not one tensor per site", root)
            return
        new = {s: tr.P(o[0]) for s, o in m["objs1"].items()}
        for s in m["site_tags"]:
            old = sorted(m["groups0"][s])
            if old and old != [new[s]]:
                tr.emit(("Contract", old, new[s]), m["name"] + ":site", root)
        for key, b in sorted(m["sz0"].items(), key=str):
            aft = m["sz1"].get(key, m["sz1"].get((key[1], key[0])))
            if aft is None:
                continue  # long range bond re-routed through other sites
            # one-sided sweeps (zip-up ...) truncate on partial information: only max_bond >= the bond size itself
            # certifies that nothing can be lost; the globally canonical compressors get the Schmidt bound of the cut
            kk = tuple(sorted(key, key=str))
            b = m["cross"].get(kk, b)
            rk = m["chain"].get(kk, b)
            tr.emit(("Compress", new[key[0]], new[key[1]], m["chi"], m["cut0"], rk, b, aft),
                    m["name"] + f",paths={'+'.join(m['paths']) or 'none'}", root)

    primitive(TN, "add_tensor_network", lambda tr, a: None, readd_after, relevant=readd_rel)

    # ---- scheme structure: hand-over points ---------------------------------------------------
    def structural(cls, name, why):
        orig = cls.__dict__[name]

        def wrapper(self, *args, **kwargs):
            tr = _T
            mine = tr is not None and tr.depth == 0 and (tr.root is None or tr.root is self)
            if mine and tr.root is None:
                tr.adopt(self)
            stage = mine and why == "contract_boundary_from" and tr.bstage is None
            if stage:
                tr.bstage = (set(), set())
            try:
                res = orig(self, *args, **kwargs)
            finally:
                if stage and not (tr.root is self):
                    tr.bstage = None
            if mine and tr.root is self:
                if stage:
                    tr.boundary(why)
                    tr.bstage = None
                tr.handover(why)
            return res

        wrapper.__wrapped__ = orig
        out.append((cls, name, orig, wrapper))
        return wrapper

    for cls in (TensorNetwork2D, TensorNetwork3D):
        w = structural(cls, "contract_boundary_from", "contract_boundary_from")

        def cbf_(self, *args, _w=w, **kwargs):
            kwargs["inplace"] = True
            return _w(self, *args, **kwargs)

        out.append((cls, "contract_boundary_from_", cls.__dict__["contract_boundary_from_"], cbf_))
        structural(cls, "compress_plane", "compress_plane")
        w2 = structural(cls, "coarse_grain_hotrg", "coarse_grain_hotrg")

        def cgh_(self, *args, _w=w2, **kwargs):
            kwargs["inplace"] = True
            return _w(self, *args, **kwargs)

        out.append((cls, "coarse_grain_hotrg_", cls.__dict__["coarse_grain_hotrg_"], cgh_))
    return out


_INSTALLED = []


def install():
    """rebind the primitives (once per process; the wrappers are transparent while no trace is active)"""
    if not _INSTALLED:
        for owner, name, orig, wrapper in _patches():
            setattr(owner, name, wrapper)
            _INSTALLED.append((owner, name, orig))


def uninstall():
    while _INSTALLED:
        owner, name, orig = _INSTALLED.pop()
        setattr(owner, name, orig)


@contextlib.contextmanager
def tracing(tr):
    """log one scheme run into `tr`"""
    global _T
    install()
    _T = tr
    try:
        yield tr
    finally:
        _T = None


# ------------------------------------------------------------------------------
# plans -> Coq / Python mirror


class TooBig(Exception):
    pass


def plan_literal(ops):
    nm = {}

    def T(x):
        if x not in nm:
            nm[x] = len(nm) + 1
        return natlit(nm[x])

    def N(x):
        x = int(x)
        if x >= 5000:
            raise TooBig(x)
        return natlit(x)

    def L(xs):
        return "[" + "; ".join(T(x) for x in xs) + "]"

    def O(x):
        return "None" if x is None else f"(Some {N(x)})"

    out = []
    for op in ops:
        k = op[0]
        if k == "Contract":
            out.append(f"Contract {L(op[1])} {T(op[2])}")
        elif k in ("Canonize", "Fuse", "Gauge"):
            out.append(f"{k} {T(op[1])} {T(op[2])}")
        elif k == "Compress":
            _, a, b, chi, c0, rk, bf, af = op
            out.append(f"Compress {T(a)} {T(b)} {O(chi)} {blit(c0)} {N(rk)} {N(bf)} {N(af)}")
        elif k == "Project":
            _, la, lb, pa, pb, chi, c0, rk, bf, af = op
            out.append(f"Project {L(la)} {L(lb)} {T(pa)} {T(pb)} {O(chi)} {blit(c0)} {N(rk)} {N(bf)} {N(af)}")
        elif k == "HandOver":
            bonds = "[" + "; ".join(f"({T(a)}, {T(b)}, {N(s)})" for a, b, s in op[2]) + "]"
            out.append(f"HandOver {O(op[1])} {bonds}")
        elif k == "Boundary":
            bonds = "[" + "; ".join(f"({T(a)}, {T(b)}, {N(s)})" for a, b, s in op[2]) + "]"
            out.append(f"Boundary {O(op[1])} {bonds}")
        elif k == "Env":
            out.append(f"Env {N(op[1])} {L(op[2])}")
        else:
            out.append(f"Unknown {N(op[1])}")
    return "[" + ";\n    ".join(out) + "]"


def py_untruncating(ops, cap="own"):
    """no step can truncate: cutoff = 0 and cap >= rank bound at every compression; cap = the scheme's cap, or
    ("own") the max_bond each primitive was called with"""
    for op in ops:
        if op[0] == "Compress":
            chi, c0, rk = op[3], op[4], op[5]
        elif op[0] == "Project":
            chi, c0, rk = op[5], op[6], op[7]
        elif op[0] == "Unknown":
            return False
        else:
            continue
        if cap != "own":
            chi = cap
        if not c0 or (chi is not None and rk > chi):
            return False
    return True


def py_cap_mismatch(ops, cap, cut0):
    for k, op in enumerate(ops):
        chi, c0 = (op[3], op[4]) if op[0] == "Compress" else (op[5], op[6]) if op[0] == "Project" else (cap, cut0)
        if chi != cap:
            return k, f"primitive called with max_bond={chi} while the scheme's cap is {cap}"
        if bool(c0) != bool(cut0):
            return k, f"primitive called with cutoff {'= 0' if c0 else '> 0'} while the scheme's cutoff is {'= 0' if cut0 else '> 0'}"
    return None


def cap_literal(cap):
    return "None" if cap is None else f"(Some {natlit(cap)})"


def py_first_bad(ops):
    """Python mirror of the checker, used only to point the searcher at the offending call"""
    dead, pend = set(), []
    for k, op in enumerate(ops):
        kind = op[0]

        def ok_cap(n, cap):
            return cap is None or n <= cap

        if kind == "Contract":
            ts, r = op[1], op[2]
            if not ts or any(t in dead for t in ts) or len(set(ts)) != len(ts) or (r not in ts and r in dead):
                return k, "contract of dead/duplicate tensors"
            dead |= set(ts) - {r}
            pend = [(r if a in ts else a, r if b in ts else b) for a, b in pend]
            pend = [(a, b) for a, b in pend if a != b]
        elif kind in ("Canonize", "Fuse", "Gauge"):
            if op[1] in dead or op[2] in dead or op[1] == op[2]:
                return k, "dead tensor"
        elif kind == "Compress":
            _, a, b, chi, c0, rk, bf, af = op
            if a in dead or b in dead or a == b or not ok_cap(af, chi):
                return k, f"compression {bf}->{af} with max_bond={chi}"
            pend.append((a, b))
        elif kind == "Project":
            _, la, lb, pa, pb, chi, c0, rk, bf, af = op
            if any(t in dead for t in la + lb + [pa, pb]) or pa == pb or not ok_cap(af, chi):
                return k, f"projection {bf}->{af} with max_bond={chi}"
            pend.append((pa, pb))
        elif kind == "HandOver":
            bonds = {(a, b): s for a, b, s in op[2]}
            for a, b in pend:
                s = bonds.get((a, b), bonds.get((b, a)))
                if s is None or not ok_cap(s, op[1]):
                    return k, f"bond ({a},{b}) compressed in this stage has size {s} > cap {op[1]} at hand-over"
            if any(a in dead or b in dead for a, b, _ in op[2]):
                return k, "dead tensor at hand-over"
            pend = []
        elif kind == "Boundary":
            for a, b, sz in op[2]:
                if a in dead or b in dead:
                    return k, "dead tensor in the returned boundary"
                if not ok_cap(sz, op[1]):
                    return k, (f"the returned boundary layer has a bond of total size {sz} > cap {op[1]} between tensors "
                               f"({a},{b}) (product over all shared indices)")
        elif kind == "Env":
            if any(t in dead for t in op[2]):
                return k, "environment of dead tensors"
        else:
            return k, "unknown primitive"
    return None


def ncompress(ops):
    n = ch = 0
    for op in ops:
        if op[0] == "Compress":
            n += 1
            ch += op[7] < op[6]
        elif op[0] == "Project":
            n += 1
            ch += op[9] < op[8]
    return n, ch


class Ref(complex):
    """exact reference value carrying an absolute tolerance: 1e-11 x (the same network with every entry replaced by
    its modulus), so that a value which is small by cancellation is not compared at an impossible relative accuracy"""

    atol = 1e-13


def close(a, b, tol=TOL):
    atol = max(getattr(a, "atol", 0.0), getattr(b, "atol", 0.0), 1e-13)
    a, b = complex(a), complex(b)
    if not (np.isfinite(a.real) and np.isfinite(a.imag)):
        return False
    return abs(a - b) <= tol * max(abs(a), abs(b), 1e-300) or abs(a - b) <= atol


# ------------------------------------------------------------------------------
# networks


def make_network(d):
    import quimb.tensor as qtn

    kind = d["net"]
    if kind == "2d":
        tn = qtn.TN2D_rand(d["Lx"], d["Ly"], D=d["D"], cyclic=d.get("cyclic", False), seed=d["seed"],
                           dtype=d.get("dtype", "float64"))
    elif kind == "2dnorm":
        p = qtn.PEPS.rand(d["Lx"], d["Ly"], bond_dim=d["D"], phys_dim=2, seed=d["seed"], dtype=d.get("dtype", "float64"))
        tn = p.make_norm()
    elif kind == "2dint":
        rng = np.random.default_rng(d["seed"])
        tn = qtn.TN2D_from_fill_fn(lambda shape: rng.integers(-1, 3, size=shape).astype(float), d["Lx"], d["Ly"], D=d["D"],
                                   cyclic=d.get("cyclic", False))
    elif kind == "3d":
        tn = qtn.TN3D_rand(d["Lx"], d["Ly"], d["Lz"], D=d["D"], seed=d["seed"], dtype=d.get("dtype", "float64"),
                           cyclic=d.get("cyclic", False))
    elif kind == "3dnorm":
        p = qtn.PEPS3D.rand(d["Lx"], d["Ly"], d["Lz"], bond_dim=d["D"], phys_dim=2, seed=d["seed"])
        tn = p.make_norm()
    elif kind in ("graph", "graphint"):
        edges = [tuple(e) for e in d["edges"]]
        tn = qtn.TN_from_edges_rand(edges, D=d["D"], seed=d["seed"], dtype=d.get("dtype", "float64"))
        if kind == "graphint":
            rng = np.random.default_rng(d["seed"])
            for t in tn.tensors:
                t.modify(data=rng.integers(-1, 3, size=t.shape).astype(float))
    else:
        raise ValueError(kind)
    if d.get("exponent"):
        tn.exponent = d["exponent"]
    return tn


def exact_value(tn):
    r = Ref(complex(tn.contract(all, optimize="auto-hq")))
    try:
        ab = tn.copy()
        for t in ab.tensors:
            t.modify(data=np.abs(np.asarray(t.data)))
        r.atol = max(1e-13, 1e-11 * abs(complex(ab.contract(all, optimize="auto-hq"))))
    except Exception:
        pass
    return r


def rand_graph(rng, n):
    """random connected simple graph: a random spanning tree plus extra edges"""
    edges = set()
    nodes = list(range(n))
    rng.shuffle(nodes)
    for k in range(1, n):
        edges.add(tuple(sorted((nodes[k], nodes[rng.randrange(k)]))))
    extra = rng.randint(1, n)
    for _ in range(extra):
        a, b = rng.sample(range(n), 2)
        edges.add(tuple(sorted((a, b))))
    return sorted(edges)


def rand_path(rng, n):
    path, cur = [], n
    while cur > 1:
        i, j = sorted(rng.sample(range(cur), 2))
        path.append((i, j))
        cur -= 1
    return tuple(path)


# ------------------------------------------------------------------------------
# running one scheme under the tracer

# 1D compressors that truncate in a canonical form of the WHOLE chain (exact as soon as max_bond >= Schmidt rank)
GLOBALLY_EXACT_1D = ("dm", "direct", "sdc", "local-late")

MODES_2D = ["mps", "full-bond", "projector2d", "dm", "zipup", "direct", "fit", "src", "sdc", "zipup-first", "projector",
            "local-early", "local-late", "superorthogonal", "l2bp"]
MODES_3D = ["peps", "l2bp3d", "projector3d", "local-early", "local-late", "projector", "superorthogonal", "l2bp"]


def unwrap_value(res):
    import quimb.tensor as qtn

    if isinstance(res, tuple):
        m, e = res
        return complex(m) * 10.0 ** float(e)
    if isinstance(res, qtn.TensorNetwork):
        return complex(res.contract(all, optimize="auto-hq"))
    if isinstance(res, qtn.Tensor):
        return complex(np.asarray(res.data).reshape(-1)[0])
    return complex(res)


def run_scheme(d, max_bond, cutoff, stepref=None):
    """run the scheme described by d in place on a fresh network, logged; returns (trace, value, result)"""
    tn = make_network(d)
    work = tn.copy()
    sch = d["scheme"]
    o = dict(d.get("opts", {}))
    lazy_root = sch in ("env",)
    tr = Trace(max_bond, cutoff, root=None if lazy_root else work)
    tr.stepref = stepref
    res = None
    with tracing(tr):
        if sch == "boundary":
            res = work.contract_boundary_(max_bond=max_bond, cutoff=cutoff, **o)
        elif sch == "boundary_from":
            side = o.pop("side")
            getattr(work, f"contract_boundary_from_{side}_")(xrange=o.pop("xrange"), yrange=o.pop("yrange"),
                                                              max_bond=max_bond, cutoff=cutoff, **o)
            res = work
        elif sch == "boundary3d":
            res = work.contract_boundary_(max_bond=max_bond, cutoff=cutoff, **o)
        elif sch == "hotrg":
            res = work.contract_hotrg_(max_bond=max_bond, cutoff=cutoff, **o)
        elif sch == "ctmrg":
            res = work.contract_ctmrg_(max_bond=max_bond, cutoff=cutoff, **o)
        elif sch == "compressed":
            late = o.get("compress_late")
            opt = o.pop("optimize")
            if isinstance(opt, list):
                opt = tuple(tuple(p) for p in opt)
            cbs = {}
            if late:
                cbs["callback_pre_contract"] = lambda net, pair: tr.handover("pre_contract")
            else:
                cbs["callback"] = lambda net, tid: tr.handover("step")
            res = work.contract_compressed_(opt, max_bond=max_bond, cutoff=cutoff, **cbs, **o)
        elif sch == "around":
            which = o.pop("which")
            cbs = {"callback_pre_contract": lambda net, pair: tr.handover("pre_contract")}
            if which == "tag":
                tag = o.pop("tag")
                res = work.contract_around_(tag, max_bond=max_bond, cutoff=cutoff, **cbs, **o)
            else:
                # contract_around_center / corner copy the network themselves: call the core on our copy
                tid = work.most_central_tid() if which == "center" else work.least_central_tid()
                res = work._contract_around_tids([tid], max_bond=max_bond, cutoff=cutoff, inplace=True, **cbs, **o)
        else:
            raise ValueError(sch)
        if tr.root is not None and hasattr(res, "tensor_map") and res is tr.root:
            tr.handover("return")
    val = unwrap_value(res)
    return tr, val, res, tn


def check_plan(ctx, col, d, tr, regime, val, ref):
    """register the Coq case for one logged plan and apply the direct oracle"""
    ops = tr.ops
    n, changed = ncompress(ops)
    unt = py_untruncating(ops, tr.cap)
    key = (d["scheme"], d.get("net"), d.get("Lx"), d.get("Ly"), d.get("Lz"), d.get("D"), d.get("seed"),
           str(sorted(d.get("opts", {}).items())), regime, tr.cap)
    ctx.count(key, (changed > 0) if regime in ("cap", "mid") else (n > 0))
    if unt:
        # exactness is claimed for this run: which truncation code really ran under the claim
        for path, cnt in tr.paths.items():
            ctx.bump(f"exact_claim_ran_path:{path}", cnt)
        if changed:
            ctx.bump("exact_claim_with_a_bond_really_reduced")
    for pth in tr.prims:
        if "path=" in pth:
            ctx.bump("compress_path:" + pth.split("path=")[1].rstrip(")"))
    ctx.bump(f"plan:{d['scheme']}:{regime}")
    ctx.bump("plan_untruncating" if unt else "plan_truncating")
    ctx.bump("ops", len(ops))
    ctx.bump("compressions", n)
    ctx.bump("compressions_that_truncated", changed)
    try:
        lit = plan_literal(ops)
    except TooBig:
        ctx.bump("plan_skipped_sizes_too_big")
        lit = None
    if lit is not None:
        col.add({"desc": d, "regime": regime, "max_bond": tr.cap, "nops": len(ops)},
                f"let p := {lit} in plan_ok p && plan_opts_are {cap_literal(tr.cap)} {blit(tr.cut0)} p && "
                f"Bool.eqb (scheme_untruncating {cap_literal(tr.cap)} p) {blit(unt)}", ops=ops, prims=tr.prims, cap=tr.cap, cut0=tr.cut0)
    # direct oracle 1: the cap invariant, straight from the observations
    bad = py_first_bad(ops) or py_cap_mismatch(ops, tr.cap, tr.cut0)
    if bad is not None:
        k, why = bad
        ctx.violation(f"cap:{d['scheme']}:{mode_of(d)}", f"{d['scheme']} ({mode_of(d)}): {why} [{tr.prims[k]}]",
                      {"desc": d, "max_bond": tr.cap, "regime": regime, "op_index": k, "op": ops[k], "primitive": tr.prims[k],
                       "plan_tail": ops[max(0, k - 6):k + 1]})
    # direct oracle 2: exactness whenever nothing can truncate
    if unt and ref is not None and not close(val, ref):
        exactness_violation(ctx, d, tr.cap, 0.0 if tr.cut0 else 1e-10, val, ref)
    return unt


def mode_of(d):
    o = d.get("opts", {})
    if "mode" in o:
        return str(o["mode"])
    if d.get("scheme") in ("compressed", "around"):
        opt = o.get("optimize", "span")
        return f"{o.get('compress_mode', 'auto')}:{opt if isinstance(opt, str) else 'path'}:{'late' if o.get('compress_late') else 'early'}"
    return "default"


def exactness_violation(ctx, d, max_bond, cutoff, val, ref):
    """searcher: re-run with a value check after every logged primitive to find the concrete failing call"""
    info = {"desc": d, "max_bond": max_bond, "cutoff": cutoff, "value": repr(val), "exact": repr(ref)}
    try:
        tr2, _, _, _ = run_scheme(d, max_bond, cutoff, stepref=ref)
        if tr2.stepfail is not None:
            k, prim, op, v = tr2.stepfail
            info.update({"failing_call_index": k, "failing_primitive": prim, "failing_op": op, "value_after_call": repr(v)})
    except Exception as e:
        info["searcher_error"] = repr(e)[:200]
    ctx.violation(f"exact:{d['scheme']}:{mode_of(d)}",
                  f"{d['scheme']} ({mode_of(d)}) with an untruncating plan (max_bond={max_bond}, cutoff={cutoff}) returned "
                  f"{val} instead of the exact value {ref}", info)


class Collector:
    def __init__(self):
        self.cases = []
        self.info = {}
        self.seen = {}
        self.dups = 0

    def add(self, desc, expr, **extra):
        if expr in self.seen:  # the very same logged plan (e.g. two caps that never bind): one evaluation decides both
            self.dups += 1
            return
        cid = len(self.cases) + 1
        self.seen[expr] = cid
        self.cases.append((cid, expr))
        self.info[cid] = (desc, extra)


# ------------------------------------------------------------------------------
# scheme generators


def lattice2d(rng, quick, big_ok=True):
    sizes = [(2, 3), (3, 2), (3, 3), (2, 4), (3, 4), (4, 3)]
    if big_ok and rng.random() < (0.08 if quick else 0.25):
        sizes = [(4, 4)]
    Lx, Ly = rng.choice(sizes)
    return Lx, Ly


def gen_boundary_2d(ctx):
    rng = ctx.rng
    sides = ["xmin", "xmax", "ymin", "ymax"]
    seqs = [None] + [[s] for s in sides] + [["xmin", "xmax"], ["ymin", "ymax"], ["xmax", "ymin"], ["ymax", "xmin", "xmax"],
                                            ["xmin", "ymin", "xmax", "ymax"], "b", "rl", "blrt"]
    out = []
    reps = ctx.n(1, 4)
    for mi, mode in enumerate(MODES_2D):
        # quick: two sides per mode (rotating, so every side x mode pair is met over a few seeds); thorough: all four
        for side in (sides if not ctx.quick else [sides[(mi + ctx.seed) % 4], sides[(mi + ctx.seed + 1 + mi // 4) % 4]]):
            for rep in range(reps):
                Lx, Ly = lattice2d(rng, ctx.quick)
                layered = rng.random() < 0.3
                if layered and Lx * Ly > 9:
                    Lx, Ly = 3, 3
                if rep == 0 and (Lx if side[0] == "x" else Ly) < 3:
                    Lx, Ly = Ly, Lx  # at least one boundary step from the pinned side
                d = {"scheme": "boundary", "net": "2dnorm" if layered else "2d", "Lx": Lx, "Ly": Ly,
                     "D": 2 if (layered or Lx * Ly > 9 or rng.random() < 0.7) else 3, "seed": rng.randrange(10 ** 6)}
                if rng.random() < 0.4:
                    d["dtype"] = "complex128"
                o = {"mode": mode}
                # the first repetition pins the side, later ones draw any sequence
                seq = [side] if rep == 0 else rng.choice(seqs)
                if not layered and rng.random() < 0.35:
                    # periodic in one direction.  Modes that close the periodic bond themselves (projector, 1D /
                    # arbitrary-geometry compressors) mostly get the boundary running ALONG the periodic direction
                    # (contracted from the sides of the other axis); mps / full-bond never compress that bond and are
                    # contracted along the periodic direction from its first line (the documented default sequence)
                    along_ok = mode not in ("mps", "full-bond")
                    pin = side[0] if rep == 0 else rng.choice("xy")
                    if along_ok and rng.random() < 0.75:
                        per = "y" if pin == "x" else "x"
                        seq = [side] if rep == 0 else rng.choice([[pin + "min"], [pin + "max"], [pin + "min", pin + "max"]])
                    else:
                        per = pin
                        seq = [per + "min"]
                    if (Lx if per == "x" else Ly) >= 3 and (Lx if seq[0][0] == "x" else Ly) >= 3:
                        d["cyclic"] = (per == "x", per == "y")
                    else:
                        seq = [side] if rep == 0 else seq
                o["sequence"] = seq
                if mode == "mps":
                    # (the documented defaults are always met through the per-side sweeps below)
                    o["canonize"] = rng.random() < 0.6
                    if rng.random() < 0.3:
                        o["compress_late"] = False
                    if rng.random() < 0.3:
                        o["sweep_reverse"] = True
                elif mode not in ("full-bond", "projector2d") and rng.random() < 0.3:
                    o["canonize"] = False
                if layered and mode not in ("full-bond", "projector2d") and rng.random() < 0.7:
                    o["layer_tags"] = ["KET", "BRA"] if rng.random() < 0.6 else ["BRA", "KET"]
                if rng.random() < 0.15 and mode != "full-bond":
                    o["equalize_norms"] = 1.0
                if rng.random() < 0.1:
                    o["final_contract"] = False
                d["opts"] = o
                out.append(d)
    # wide boundaries (5 sites): the raw bond outgrows the Schmidt rank of the cut, so that with the cap of the "mid"
    # regime (>= every rank bound, < raw bond) the truncation code really runs while nothing may be lost
    wide_modes = ["local-late", "local-late", "dm", "direct", "mps", "sdc", "full-bond", "local-early", "projector2d"]
    for k in range(ctx.n(5, 27)):
        mode = wide_modes[k % len(wide_modes)]
        Lx, Ly = rng.choice([(4, 5), (5, 5)])
        side = rng.choice(["xmin", "xmax"])
        if rng.random() < 0.5:
            Lx, Ly, side = Ly, Lx, "y" + side[1:]
        d = {"scheme": "boundary", "net": "2d", "Lx": Lx, "Ly": Ly, "D": 2, "seed": rng.randrange(10 ** 6),
             "dtype": "complex128" if k % 3 != 2 else "float64", "opts": {"mode": mode, "sequence": [side]}, "wide": True}
        out.append(d)
    # lattices periodic ALONG the boundary (contracted from the sides of the other axis, ranges starting at 0): the
    # bond that closes the periodic direction is part of the boundary layer and must be capped like every other one
    closing = ["projector2d", "dm", "projector", "local-early", "local-late", "zipup", "direct", "superorthogonal", "l2bp",
               "fit", "src", "sdc", "zipup-first"]
    pick = ["projector2d", "projector2d"] + ([closing[(ctx.seed + k) % len(closing)] for k in (1, 5)] if ctx.quick
                                             else closing + closing)
    for k, mode in enumerate(pick):
        per = "y" if k % 2 == 0 else "x"
        L = rng.choice([3, 4])
        W = rng.choice([3, 4])
        Lx, Ly = (L, W) if per == "y" else (W, L)
        side = ("x" if per == "y" else "y") + rng.choice(["min", "max"])
        d = {"scheme": "boundary", "net": "2d", "Lx": Lx, "Ly": Ly, "D": rng.choice([2, 2, 3]) if Lx * Ly <= 9 else 2,
             "seed": rng.randrange(10 ** 6), "cyclic": (per == "x", per == "y"),
             "opts": {"mode": mode, "sequence": [side] if rng.random() < 0.7 else [side[0] + "min", side[0] + "max"]}}
        if rng.random() < 0.4:
            d["dtype"] = "complex128"
        if rng.random() < 0.3:
            d["opts"]["final_contract"] = False
        out.append(d)
    # explicit multi-row sweeps through the per-side entry points
    for side in sides:
        for mode in ["mps", "dm", "projector2d", "full-bond"][: ctx.n(2, 4)]:
            Lx, Ly = rng.choice([(3, 3), (3, 4), (4, 3)])
            d = {"scheme": "boundary_from", "net": "2d", "Lx": Lx, "Ly": Ly, "D": 2, "seed": rng.randrange(10 ** 6),
                 "opts": {"side": side, "mode": mode, "xrange": (0, Lx - 1), "yrange": (0, Ly - 1)}}
            if mode not in ("mps", "full-bond", "projector2d"):
                # the 1D compressors need a boundary with open legs: stop one line before the far side
                L = Lx if side[0] == "x" else Ly
                d["opts"]["xrange" if side[0] == "x" else "yrange"] = (0, L - 2) if "min" in side else (1, L - 1)
            elif rng.random() < 0.5:
                d["opts"]["yrange" if side[0] == "x" else "xrange"] = None
            out.append(d)
    return out


def gen_boundary_3d(ctx):
    rng = ctx.rng
    sides = ["xmin", "xmax", "ymin", "ymax", "zmin", "zmax"]
    out = []
    for mode in MODES_3D:
        for rep in range(ctx.n(2 if mode == "peps" else 1, 6)):
            Lx, Ly, Lz = rng.choice([(2, 2, 3), (2, 3, 2), (3, 2, 2)] if rep == 0 else [(2, 2, 2), (2, 2, 3), (2, 3, 2), (3, 2, 2)])
            layered = rng.random() < 0.15 and mode in ("peps", "projector3d", "local-early") and (Lx, Ly, Lz) == (2, 2, 2)
            d = {"scheme": "boundary3d", "net": "3dnorm" if layered else "3d", "Lx": Lx, "Ly": Ly, "Lz": Lz, "D": 2,
                 "seed": rng.randrange(10 ** 6)}
            if not layered and rng.random() < 0.4:
                d["dtype"] = "complex128"
            o = {"mode": mode}
            r = rng.random()
            long_axis = "xyz"[[Lx, Ly, Lz].index(max(Lx, Ly, Lz))]
            if rep == 0 and max(Lx, Ly, Lz) >= 3:
                # at least one boundary step: sweep along the long axis
                o["sequence"] = [long_axis + rng.choice(["min", "max"])]
            elif r < 0.45:
                o["sequence"] = [rng.choice(sides)]
            elif r < 0.8:
                o["sequence"] = rng.sample(sides, rng.randint(2, 4))
            if mode == "peps" and rep > 0:  # rep 0: the documented defaults
                o["canonize"] = rng.random() < 0.6
                if rng.random() < 0.3:
                    o["canonize_interleave"] = False
                if rng.random() < 0.25:
                    o["compress_late"] = False
            d["opts"] = o
            out.append(d)
    return out


def gen_compressed(ctx):
    rng = ctx.rng
    out = []
    for rep in range(ctx.n(18, 300)):
        n = rng.randint(4, 8)
        d = {"scheme": "compressed", "net": "graph", "edges": rand_graph(rng, n), "D": rng.choice([2, 2, 3]),
             "seed": rng.randrange(10 ** 6)}
        if rng.random() < 0.45:
            d["dtype"] = "complex128"
        ntensors = len({v for e in d["edges"] for v in e})
        r = rng.random()
        if r < 0.25:
            opt = "greedy-compressed"
        elif r < 0.35:
            opt = "greedy-span"
        else:
            opt = [list(p) for p in rand_path(rng, ntensors)]
        o = {"optimize": opt, "compress_late": rng.choice([True, False])}
        r = rng.random()
        if r < 0.15:
            o["tree_gauge_distance"] = rng.choice([0, 2])
        elif r < 0.3:
            o["compress_mode"] = rng.choice(["basic", "virtual-tree"])
        elif r < 0.36:
            o["compress_mode"] = "full-bond"
        elif r < 0.45:
            o["compress_span"] = rng.choice([False, 2, 3])
        elif r < 0.5:
            o["compress_matrices"] = False
        elif r < 0.55:
            o["compress_min_size"] = rng.choice([4, 8])
        elif r < 0.6:
            o["gauge_boundary_only"] = False
        elif r < 0.65:
            o["equalize_norms"] = 1.0
        d["opts"] = o
        out.append(d)
    # lattices through the arbitrary-geometry route
    for rep in range(ctx.n(6, 40)):
        Lx, Ly = rng.choice([(2, 3), (3, 3), (3, 4)])
        d = {"scheme": "compressed", "net": "2d", "Lx": Lx, "Ly": Ly, "D": 2, "seed": rng.randrange(10 ** 6),
             "opts": {"optimize": rng.choice(["greedy-compressed", "greedy-span", [list(p) for p in rand_path(rng, Lx * Ly)]]),
                      "compress_late": rng.choice([True, False])}}
        out.append(d)
    for rep in range(ctx.n(8, 40)):
        Lx, Ly = rng.choice([(3, 3), (3, 4), (2, 4)])
        which = rng.choice(["center", "corner", "tag"])
        d = {"scheme": "around", "net": "2d", "Lx": Lx, "Ly": Ly, "D": rng.choice([2, 3]), "seed": rng.randrange(10 ** 6),
             "opts": {"which": which}}
        if which == "tag":
            d["opts"]["tag"] = f"I{rng.randrange(Lx)},{rng.randrange(Ly)}"
        out.append(d)
    return out


def gen_rg(ctx):
    rng = ctx.rng
    out = []
    for rep in range(ctx.n(8, 60)):
        net = rng.choice(["2d", "2d", "2d", "3d"])
        sch = rng.choice(["hotrg", "ctmrg"])
        if net == "2d":
            Lx, Ly = rng.choice([(2, 3), (3, 3), (2, 4), (4, 4), (4, 3), (3, 4)])
            d = {"scheme": sch, "net": "2d", "Lx": Lx, "Ly": Ly, "D": 2, "seed": rng.randrange(10 ** 6)}
            if rng.random() < 0.3:
                d["cyclic"] = rng.choice([(True, False), (False, True)])
        else:
            Lx, Ly, Lz = rng.choice([(2, 2, 2), (2, 2, 3), (2, 3, 2)])
            d = {"scheme": sch, "net": "3d", "Lx": Lx, "Ly": Ly, "Lz": Lz, "D": 2, "seed": rng.randrange(10 ** 6)}
        if rng.random() < 0.4:
            d["dtype"] = "complex128"
        o = {}
        if sch == "hotrg":
            if rng.random() < 0.3:
                o["sequence"] = ("y", "x") if net == "2d" else tuple(rng.sample("xyz", 3))
            if rng.random() < 0.25:
                o["canonize"] = True
        else:
            if rng.random() < 0.3 and net == "2d" and not d.get("cyclic"):
                o["sequence"] = rng.sample(["xmin", "xmax", "ymin", "ymax"], rng.randint(1, 4))
            if rng.random() < 0.2:
                o["canonize"] = True
        if rng.random() < 0.15:
            o["equalize_norms"] = 1.0
        d["opts"] = o
        out.append(d)
    return out


def pick_bonds(rng):
    """(max_bond, cutoff) pairs for one scheme: one generous (exact regime) and one tight (cap regime)"""
    return [(rng.choice([64, 64, 128, None]), 0.0), (rng.choice([1, 2, 2, 3, 3, 4, 6]), rng.choice([0.0, 0.0, 1e-10]))]


# ------------------------------------------------------------------------------
# stage 1: every scheme logged as a plan


COL = {}


def stage_plans(ctx):
    rng = ctx.rng
    col = COL["plans"]
    descs = gen_boundary_2d(ctx) + gen_boundary_3d(ctx) + gen_compressed(ctx) + gen_rg(ctx)
    nsamp = 0
    for d in descs:
        try:
            ref = exact_value(make_network(d))
        except Exception:
            ref = None
        regimes = pick_bonds(rng)
        if d.get("wide"):
            regimes = [(64, 0.0)]  # + the mid regime below
        ri, mid_idx = 0, None
        while ri < len(regimes):
            max_bond, cutoff = regimes[ri]
            ri += 1
            if max_bond is None and not (
                d["scheme"] in ("compressed", "around")
                or (d["scheme"].startswith("boundary") and d["net"].startswith("2d") and mode_of(d) in ("mps", "dm", "zipup", "direct")
                    and d.get("opts", {}).get("compress_late") is not False)
            ):
                max_bond = 64  # an unbounded cap is outside the other modes' domain (they size arrays / compare with it)
            if max_bond is None and d["scheme"] in ("compressed", "around"):
                cutoff = 0.0 if rng.random() < 0.5 else 1e-10
            regime = "mid" if ri - 1 == mid_idx else "exact" if (max_bond is None or max_bond >= 64) else "cap"
            try:
                tr, val, res, tn0 = run_scheme(d, max_bond, cutoff)
            except Exception as e:
                import traceback

                ctx.violation(f"raised:{d['scheme']}:{mode_of(d)}",
                              f"{d['scheme']} ({mode_of(d)}) raised {type(e).__name__}: {str(e)[:160]}",
                              {"desc": d, "max_bond": max_bond, "cutoff": cutoff, "traceback": traceback.format_exc()[-1500:]})
                continue
            unt = check_plan(ctx, col, d, tr, regime, val, ref)
            if ri == 1 and regime == "exact":
                # "mid" regime: the smallest cap that still covers every rank bound of the generous run; when it is
                # below the largest raw bond the truncation code runs although nothing may be lost
                rks = [o[5] for o in tr.ops if o[0] == "Compress"] + [o[7] for o in tr.ops if o[0] == "Project"]
                raws = [o[6] for o in tr.ops if o[0] == "Compress"] + [o[8] for o in tr.ops if o[0] == "Project"]
                if rks and max(rks) < max(raws) and (d.get("wide") or rng.random() < ctx.n(0.5, 1.0)):
                    regimes = regimes + [(max(rks), 0.0)]
                    mid_idx = len(regimes) - 1
            if nsamp < 4 and ncompress(tr.ops)[1] > 0:
                ctx.sample({"desc": d, "max_bond": max_bond, "cutoff": cutoff, "plan_head": [str(o)[:110] for o in tr.ops[:8]],
                            "nops": len(tr.ops), "untruncating": unt})
                nsamp += 1


def finish_cases(ctx, col, name):
    failed, errors = ctx.coq_cases(name, HEADER, col.cases, shard=max(80, (len(col.cases) + 3) // 4))
    for path, err in errors:
        ctx.broken_obligation(f"correspondence:{name}:" + path.split("/")[-1], err)
    for c in failed:
        desc, extra = col.info[c]
        ops = extra.get("ops")
        where = (py_first_bad(ops) or py_cap_mismatch(ops, extra.get("cap"), extra.get("cut0"))) if ops else None
        d = desc["desc"]
        if where is None:
            # the Coq checker and the Python mirror disagree (or the untruncating flags do): the tie itself is broken
            ctx.broken_obligation(f"correspondence:{name}:case{c}", {"desc": desc, "note": "plan refused by Coq only"})
        else:
            k, why = where
            ctx.violation(f"cap:{d['scheme']}:{mode_of(d)}", f"logged plan refused by plan_ok: {why} [{extra['prims'][k]}]",
                          {**desc, "op_index": k, "op": ops[k], "primitive": extra["prims"][k]})
    ctx.extra["coq_cases_" + name] = len(col.cases)
    ctx.extra["coq_cases_" + name + "_identical_plans_merged"] = col.dups
    ctx.traces += col.dups


# ------------------------------------------------------------------------------
# stage 2: environments


def stage_envs(ctx):
    """row / column environments from every side x mode x layered/flat, logged as plans; each stored environment,
    combined with the rows it excludes, must give the value of the whole whenever the plan is untruncating."""
    rng = ctx.rng
    col = COL["plans"]
    sides = ["xmin", "xmax", "ymin", "ymax"]
    modes = ["mps", "full-bond", "projector2d", "dm", "projector", "zipup", "direct", "local-early"][: ctx.n(5, 8)]
    nrun = 0
    for mi, mode in enumerate(modes):
        for side in (sides if not ctx.quick else [sides[(mi + ctx.seed) % 4], sides[(mi + ctx.seed + 2 + mi // 2) % 4]]):
            for rep in range(ctx.n(1, 3)):
                layered = rng.random() < 0.35
                Lx, Ly = rng.choice([(3, 3), (3, 4), (4, 3)] if not layered else [(3, 3), (2, 3), (3, 2)])
                d = {"scheme": "env", "net": "2dnorm" if layered else "2d", "Lx": Lx, "Ly": Ly, "D": 2,
                     "seed": rng.randrange(10 ** 6)}
                o = {"mode": mode, "from_which": side}
                if layered and mode not in ("full-bond", "projector2d") and rng.random() < 0.6:
                    o["layer_tags"] = ["KET", "BRA"]
                if mode == "mps" and rng.random() < 0.4:
                    o["canonize"] = False
                if rng.random() < 0.2:
                    d["exponent"] = rng.choice([1.0, -1.0])
                d["opts"] = o
                for max_bond, cutoff in [(64, 0.0), (rng.choice([2, 3, 4]), 0.0)]:
                    tn = make_network(d)
                    ref = exact_value(tn)
                    tr = Trace(max_bond, cutoff)
                    envs = SpyDict(tr)
                    oo = dict(o)
                    try:
                        with tracing(tr):
                            tn.compute_environments(max_bond=max_bond, cutoff=cutoff, envs=envs, **oo)
                    except Exception as e:
                        import traceback

                        ctx.violation(f"raised:env:{mode}", f"compute_environments({side}, mode={mode}) raised {type(e).__name__}: {str(e)[:150]}",
                                      {"desc": d, "max_bond": max_bond, "traceback": traceback.format_exc()[-1200:]})
                        continue
                    nrun += 1
                    regime = "exact" if max_bond >= 64 else "cap"
                    unt = check_plan(ctx, col, d, tr, regime, ref, ref)
                    # every stored environment: max_bond of the environment, and consistency
                    plane = side[0]
                    L = Lx if plane == "x" else Ly
                    tagf = tn.x_tag if plane == "x" else tn.y_tag
                    for (fw, i), e in envs.items():
                        ctx.count(("env", str(sorted(d.items(), key=str)), max_bond, fw, i), e.num_tensors > 0)
                        ctx.bump("env_checked")
                        rest = range(i, L) if "min" in side else range(0, i + 1)
                        if unt:
                            # with_exponent: the environment only accumulates NEW exponent (documented)
                            try:
                                import quimb.tensor as qtn

                                sel = tn.select_any([tagf(r) for r in rest])
                                whole = qtn.TensorNetwork([e, sel])
                                if whole.outer_inds():
                                    ctx.violation(f"env:{mode}:dangling",
                                                  f"stored environment ({fw},{i}) of compute_environments(mode={mode}) no longer matches "
                                                  f"the lattice: (env | excluded rows) has {len(whole.outer_inds())} dangling indices",
                                                  {"desc": d, "max_bond": max_bond, "key": [fw, i]})
                                    continue
                                v = complex(whole.contract(all, optimize="auto-hq")) * 10.0 ** float(d.get("exponent", 0.0))
                            except Exception as ex:
                                ctx.violation(f"env:raised:{mode}", f"(env | rest) could not be contracted: {ex!r}"[:200],
                                              {"desc": d, "key": [fw, i]})
                                continue
                            if not close(v, ref):
                                ctx.violation(f"env:{mode}:{side}",
                                              f"environment ({fw},{i}) of compute_environments(mode={mode}) combined with the excluded "
                                              f"rows gives {v} instead of {ref} although nothing was truncated",
                                              {"desc": d, "max_bond": max_bond, "cutoff": cutoff, "key": [fw, i]})
                        elif e.num_tensors > 1 and mode in ("mps", "dm", "zipup", "direct", "projector2d", "projector", "local-early") \
                                and abs(i - (0 if "min" in side else L - 1)) >= 2:
                            mb = e.max_bond()
                            # bonds inside a compressed boundary are within the cap
                            inner = max([s for (a, b), s in Trace(None, 0.0).bondmap(e).items()], default=1)
                            if inner > max_bond:
                                ctx.violation(f"envcap:{mode}:{side}", f"stored environment ({fw},{i}) has an internal bond of size {inner} > max_bond {max_bond}",
                                              {"desc": d, "max_bond": max_bond, "key": [fw, i], "env_max_bond": mb})
    ctx.extra["env_runs"] = nrun


def stage_env_oracle(ctx):
    """x/y environment pairs and plaquette environments (oracle only: several working networks per call)"""
    import quimb.tensor as qtn

    rng = ctx.rng
    for rep in range(ctx.n(8, 60)):
        layered = rng.random() < 0.3
        Lx, Ly = rng.choice([(3, 3), (3, 4), (4, 3), (4, 4)] if not layered else [(3, 3), (2, 3)])
        d = {"net": "2dnorm" if layered else "2d", "Lx": Lx, "Ly": Ly, "D": 2, "seed": rng.randrange(10 ** 6)}
        tn = make_network(d)
        ref = exact_value(tn)
        mode = rng.choice(["mps", "mps", "full-bond", "projector2d", "dm", "zipup"])
        kw = {"mode": mode}
        if layered and mode in ("mps", "dm", "zipup") and rng.random() < 0.6:
            kw["layer_tags"] = ["KET", "BRA"]
        which = rng.choice(["x", "y", "plaq", "plaq"])
        desc = {**d, "which": which, **kw}
        try:
            if which in "xy":
                envs = getattr(tn, f"compute_{which}_environments")(max_bond=64, cutoff=0.0, **kw)
                L = Lx if which == "x" else Ly
                tagf = tn.x_tag if which == "x" else tn.y_tag
                for i in range(L):
                    ctx.count(("envpair", str(sorted(desc.items(), key=str)), i), True)
                    ctx.bump("env_pair_checked")
                    whole = qtn.TensorNetwork([envs[which + "min", i], tn.select(tagf(i)), envs[which + "max", i]])
                    if whole.outer_inds():
                        ctx.violation(f"env:{mode}:dangling", f"envs[{which}min,{i}] | line {i} | envs[{which}max,{i}] has "
                                      f"{len(whole.outer_inds())} dangling indices", {"desc": desc, "i": i})
                        continue
                    v = complex(whole.contract(all, optimize="auto-hq"))
                    if not close(v, ref):
                        ctx.violation(f"env:{mode}:{which}pair", f"envs[{which}min,{i}] | row {i} | envs[{which}max,{i}] = {v} != {ref} (untruncated)",
                                      {"desc": desc, "i": i})
            else:
                xb, yb = rng.choice([(1, 1), (2, 2), (1, 2), (2, 1)])
                pk = dict(kw)
                if rng.random() < 0.5:
                    pk["first_contract"] = rng.choice(["x", "y"])
                if rng.random() < 0.3:
                    pk["second_dense"] = rng.choice([True, False])
                desc.update({"x_bsz": xb, "y_bsz": yb, **{k: v for k, v in pk.items() if k not in kw}})
                penvs = tn.compute_plaquette_environments(x_bsz=xb, y_bsz=yb, max_bond=64, cutoff=0.0, **pk)
                want = {((i, j), (xb, yb)) for i in range(Lx - xb + 1) for j in range(Ly - yb + 1)}
                if set(penvs) != want:
                    ctx.violation("plaq:keys", f"plaquette environments have keys {sorted(set(penvs) ^ want)[:4]} missing/extra", {"desc": desc})
                for ((i0, j0), _), e in penvs.items():
                    ctx.count(("plaq", str(sorted(desc.items(), key=str)), i0, j0), True)
                    ctx.bump("plaquette_checked")
                    sites = [tn.site_tag(i0 + a, j0 + b) for a in range(xb) for b in range(yb)]
                    whole = qtn.TensorNetwork([e, tn.select_any(sites)])
                    if whole.outer_inds():
                        ctx.violation(f"env:{mode}:dangling", f"plaquette environment ({i0},{j0}) | plaquette has "
                                      f"{len(whole.outer_inds())} dangling indices", {"desc": desc, "plaquette": [i0, j0]})
                        continue
                    v = complex(whole.contract(all, optimize="auto-hq"))
                    if not close(v, ref):
                        ctx.violation(f"plaq:{mode}", f"plaquette environment ({i0},{j0}) size ({xb},{yb}) | plaquette = {v} != {ref} (untruncated)",
                                      {"desc": desc, "plaquette": [i0, j0]})
        except Exception as e:
            import traceback

            ctx.violation(f"raised:envs:{mode}:{which}", f"environment computation raised {type(e).__name__}: {str(e)[:150]}",
                          {"desc": desc, "traceback": traceback.format_exc()[-1200:]})


# ------------------------------------------------------------------------------
# stage 3: exact integer stream (schemes that only contract), compared inside Coq


def stage_exact_integer(ctx):
    import quimb.tensor as qtn

    rng = ctx.rng
    col = COL["plans"]
    vcol = COL["values"]
    # (a) dense environments on integer lattices: (env | excluded rows) == whole, as exact integers
    for rep in range(ctx.n(6, 40)):
        Lx, Ly = rng.choice([(2, 3), (3, 2), (3, 3), (2, 4)])
        d = {"scheme": "env_dense", "net": "2dint", "Lx": Lx, "Ly": Ly, "D": 2, "seed": rng.randrange(10 ** 6)}
        tn = make_network(d)
        base = tm.qtn_tensors(tn)
        side = rng.choice(["xmin", "xmax", "ymin", "ymax"])
        d["opts"] = {"from_which": side, "dense": True}
        tr = Trace(None, 0.0)
        envs = SpyDict(tr)
        with tracing(tr):
            tn.compute_environments(side, dense=True, envs=envs)
        check_plan(ctx, col, d, tr, "exact", 0, None)
        plane = side[0]
        L = Lx if plane == "x" else Ly
        tagf = tn.x_tag if plane == "x" else tn.y_tag
        for (fw, i), e in envs.items():
            rest = range(i, L) if "min" in side else range(0, i + 1)
            sel = tn.select_any([tagf(r) for r in rest])
            ctx.count(("envint", str(sorted(d.items(), key=str)), i), e.num_tensors > 0)
            ctx.bump("env_exact_integer")
            try:
                expr = tm.same_value_expr(base, 0, tm.qtn_tensors(e) + tm.qtn_tensors(sel), 0, ())
            except (tm.NotExact, ValueError) as ex:
                v = complex(qtn.TensorNetwork([e, sel]).contract(all))
                if not close(v, exact_value(tn)):
                    ctx.violation("env:dense", f"dense environment ({fw},{i}) | rest != whole ({ex})", {"desc": d, "key": [fw, i]})
                continue
            vcol.add({"desc": d, "key": [fw, i], "kind": "env_dense"}, expr, value=True)
    # (b) contract_compressed without any compression is a plain contraction along the given tree
    for rep in range(ctx.n(10, 80)):
        n = rng.randint(4, 7)
        d = {"scheme": "compressed", "net": "graphint", "edges": rand_graph(rng, n), "D": 2, "seed": rng.randrange(10 ** 6)}
        if len(d["edges"]) > 11:
            d["edges"] = d["edges"][:11] if len({v for e in d["edges"][:11] for v in e}) == n else d["edges"]
        nt = len({v for e in d["edges"] for v in e})
        d["opts"] = {"optimize": [list(p) for p in rand_path(rng, nt)], "compress_late": rng.choice([True, False])}
        tn = make_network(d)
        if len(tn.ind_map) > 13:
            continue
        base = tm.qtn_tensors(tn)
        try:
            tr, val, res, _ = run_scheme(d, None, 0.0)
        except Exception as e:
            ctx.violation("raised:compressed:nocompress", f"contract_compressed(max_bond=None, cutoff=0) raised {e!r}"[:200], {"desc": d})
            continue
        check_plan(ctx, col, d, tr, "exact", val, None)
        ctx.count(("ccint", str(d["edges"]), d["seed"]), True)
        ctx.bump("contract_compressed_exact_integer")
        try:
            expr = tm.dense_check_expr(base, (), 0, np.asarray([val.real]))
        except tm.NotExact:
            if not close(val, exact_value(tn)):
                ctx.violation("exact:compressed:nocompress", "contract_compressed without compression != contraction", {"desc": d})
            continue
        vcol.add({"desc": d, "kind": "compressed_nocompress"}, expr, value=True)


def stage_coq(ctx):
    """evaluate every logged plan (plan_ok, plan_untruncating) and every exact value inside Coq"""
    finish_cases(ctx, COL["plans"], "plans")
    vcol = COL["values"]
    failed, errors = ctx.coq_cases("exactint", HEADER + tm.HEADER, vcol.cases, shard=60)
    for path, err in errors:
        ctx.broken_obligation("correspondence:exactint:" + path.split("/")[-1], err)
    for c in failed:
        desc, extra = vcol.info[c]
        ctx.violation(f"exactint:{desc.get('kind')}", "scheme that only contracts does not return the network value (exact mismatch "
                      "against the Coq model)", desc)
    ctx.extra["coq_cases_exactint"] = len(vcol.cases)
    pcol = COL["plaq"]
    failed, errors = ctx.coq_cases("plaq", PLAQ_HEADER, pcol.cases, shard=200)
    for path, err in errors:
        ctx.broken_obligation("correspondence:plaq:" + path.split("/")[-1], err)
    for c in failed:
        desc, extra = pcol.info[c]
        ctx.violation(f"plaq:{extra['tagk']}:sites", f"plaquette environment {desc['plaquette']} does not carry the ring of sites of the "
                      f"model (env_sites_ok false): it carries {desc['env_sites']}", desc)
    ctx.extra["coq_cases_plaq"] = len(pcol.cases)


# ------------------------------------------------------------------------------
# stage 2b: plaquette environments, systematically: first_contract x second_dense x shapes x non-square lattices


PLAQ_HEADER = (
    "From Coq Require Import ZArith List Bool.\n"
    "From QV Require Import C12.PlaqModel.\n"
    "Import ListNotations.\n"
)


def _sites_of(tn_env):
    import re

    seen = set()
    for t in tn_env.tensors:
        for tag in t.tags:
            m = re.fullmatch(r"I(\d+),(\d+)", tag)
            if m:
                seen.add((int(m.group(1)), int(m.group(2))))
    return sorted(seen)


def stage_plaquettes(ctx):
    """compute_plaquette_environments for both sweep orders (first_contract = 'x' / 'y' / automatic) x both kinds of
    second sweep (dense / boundary) x plaquette shapes x non-square lattices.  Tie: the sites carried by every returned
    environment are compared, inside Coq, with the ring of the model (C12_plaquette_*_is_ring); oracle: (environment |
    plaquette) has no dangling index and contracts to the value of the whole (generous cap, cutoff 0).
    Then row / column environment pairs for dense x equalize_norms."""
    import quimb.tensor as qtn

    rng = ctx.rng
    col = COL["plaq"]
    shapes = [(2, 2), (1, 2), (2, 1), (1, 1), (3, 2), (2, 3)]
    combos = [("x", True), ("x", False), ("y", True), ("y", False)]
    runs = []
    if ctx.quick:
        for k, (fc, sd) in enumerate(combos):
            runs.append(((3, 4) if (k + ctx.seed) % 2 == 0 else (4, 3), (2, 2), fc, sd))
            runs.append((rng.choice([(3, 4), (4, 3), (4, 4)]), shapes[1 + (k + ctx.seed) % 5], fc, sd))
        runs += [((3, 4), (2, 2), None, None), ((4, 4), (3, 2), None, None), ((4, 3), (2, 2), None, None)]
    else:
        for lat in [(3, 4), (4, 3), (4, 4)]:
            for shp in shapes:
                for fc, sd in combos + [(None, None)]:
                    runs.append((lat, shp, fc, sd))
    for (Lx, Ly), (xb, yb), fc, sd in runs:
        if xb > Lx or yb > Ly:
            continue
        layered = rng.random() < 0.2 and Lx * Ly <= 12 and (xb, yb) != (3, 2) and (xb, yb) != (2, 3)
        if layered:
            Lx, Ly = min(Lx, 3), min(Ly, 4) if Lx <= 3 else 3
        d = {"net": "2dnorm" if layered else "2d", "Lx": Lx, "Ly": Ly, "D": 2, "seed": rng.randrange(10 ** 6)}
        if rng.random() < 0.3:
            d["dtype"] = "complex128"
        mode = rng.choice(["mps", "mps", "mps", "dm", "full-bond"])
        kw = {"mode": mode}
        if fc is not None:
            kw["first_contract"] = fc
        if sd is not None:
            kw["second_dense"] = sd
        desc = {**d, "x_bsz": xb, "y_bsz": yb, **kw}
        tn = make_network(d)
        ref = exact_value(tn)
        tagk = f"{fc or 'auto'}:{'dense' if sd else 'auto' if sd is None else 'boundary'}"
        try:
            penvs = tn.compute_plaquette_environments(x_bsz=xb, y_bsz=yb, max_bond=64, cutoff=0.0, **kw)
        except Exception as e:
            import traceback

            ctx.violation(f"plaq:{tagk}:raised", f"compute_plaquette_environments raised {type(e).__name__}: {str(e)[:120]}",
                          {"desc": desc, "traceback": traceback.format_exc()[-1000:]})
            continue
        want = {((i, j), (xb, yb)) for i in range(Lx - xb + 1) for j in range(Ly - yb + 1)}
        if set(penvs) != want:
            ctx.violation(f"plaq:{tagk}:keys", f"plaquette environments have keys {sorted(set(penvs) ^ want)[:4]} missing/extra",
                          {"desc": desc})
        for ((i0, j0), _), e in sorted(penvs.items()):
            ctx.count(("plaqsys", str(sorted(desc.items(), key=str)), i0, j0), True)
            ctx.bump(f"plaquette_systematic:{tagk}")
            seen = _sites_of(e)
            lit = "[" + "; ".join(f"({a}, {b})" for a, b in seen) + "]"
            col.add({"desc": desc, "plaquette": [i0, j0], "env_sites": seen},
                    f"env_sites_ok {Lx} {Ly} {i0} {j0} {xb}%nat {yb}%nat {lit}", tagk=tagk)
            sites = [tn.site_tag(i0 + a, j0 + b) for a in range(xb) for b in range(yb)]
            whole = qtn.TensorNetwork([e, tn.select_any(sites)])
            if whole.outer_inds():
                ctx.violation(f"plaq:{tagk}:dangling", f"plaquette environment ({i0},{j0}) of size ({xb},{yb}) on {Lx}x{Ly}: (env | "
                              f"plaquette) has {len(whole.outer_inds())} dangling indices (environment carries sites {seen})",
                              {"desc": desc, "plaquette": [i0, j0], "env_sites": seen})
                continue
            v = complex(whole.contract(all, optimize="auto-hq"))
            if not close(v, ref):
                ctx.violation(f"plaq:{tagk}:value", f"plaquette environment ({i0},{j0}) size ({xb},{yb}) | plaquette = {v} != {complex(ref)} "
                              "(untruncated)", {"desc": desc, "plaquette": [i0, j0]})

    # ---- row / column environment pairs: dense x equalize_norms -------------------------------------------------------
    for which in "xy":
        for dense in (True, False):
            for eq in ((True, 1.0) if not ctx.quick else (rng.choice([True, 1.0]),)):
                Lx, Ly = rng.choice([(4, 3), (3, 4), (3, 3)])
                d = {"net": "2d", "Lx": Lx, "Ly": Ly, "D": 2, "seed": rng.randrange(10 ** 6)}
                tn = make_network(d)
                ref = exact_value(tn)
                desc = {**d, "which": which, "dense": dense, "equalize_norms": eq}
                key = f"env:{'dense' if dense else 'mps'}:equalize_norms"
                try:
                    envs = getattr(tn, f"compute_{which}_environments")(max_bond=64, cutoff=0.0, dense=dense, equalize_norms=eq)
                except Exception as e:
                    ctx.violation(key + ":raised", f"compute_{which}_environments(dense={dense}, equalize_norms={eq}) raised {e!r}"[:200],
                                  {"desc": desc})
                    continue
                L = Lx if which == "x" else Ly
                tagf = tn.x_tag if which == "x" else tn.y_tag
                for i in range(L):
                    ctx.count(("enveq", str(desc), i), True)
                    ctx.bump("env_pair_equalize_checked")
                    whole = qtn.TensorNetwork([envs[which + "min", i], tn.select(tagf(i)), envs[which + "max", i]])
                    v = complex(whole.contract(all, optimize="auto-hq"))
                    if not close(v, ref):
                        ctx.violation(key, f"compute_{which}_environments(dense={dense}, equalize_norms={eq}): envs[{which}min,{i}] | line {i} | "
                                      f"envs[{which}max,{i}] = {v} instead of {complex(ref)} (nothing truncated)", {"desc": desc, "i": i})
                        break


# ------------------------------------------------------------------------------
# stage 3a: repeated use of one shared environment store (oracle)


def stage_shared_stores(ctx):
    """One `envs` / `plaquette_envs` / `x_envs` store handed to several consumers in sequence (compute, fetch and
    consume, fetch again): after EVERY consumer each stored environment must still combine with the part it excludes
    to the value of the whole, and every consumer must return the exact value every time (generous cap, cutoff 0)."""
    import quimb as qu
    import quimb.tensor as qtn

    rng = ctx.rng
    opts = dict(max_bond=64, cutoff=0.0)

    def val(net):
        return complex(net.contract(all, optimize="auto-hq"))

    def check_cells(envs, Z, key, desc, step):
        """3D cell stores: every entry is (cell + its environments), so it contracts to the whole"""
        for k, e in envs.items():
            ctx.count(("store3d", str(desc), step, str(k)), True)
            ctx.bump("store_entries_checked")
            try:
                bad = e.outer_inds() or not close(val(e), Z)
            except Exception as ex:
                bad = repr(ex)[:80]
            if bad:
                ctx.violation(key, f"stored cell environment {k} no longer contracts to the value of the whole after step "
                              f"'{step}' (shared store handed to several consumers)", {"desc": desc, "step": step, "entry": str(k)})
                return False
        return True

    # ---- 3D, flat network: compute / fetch + consume in place / fetch ---------------------------------------------
    for rep in range(ctx.n(1, 4)):
        d = {"net": "3d", "Lx": 2, "Ly": 3, "Lz": 3, "D": 2, "seed": rng.randrange(10 ** 6),
             "dtype": rng.choice(["float64", "complex128"])}
        tn = make_network(d)
        Z = exact_value(tn)
        key = (("x", rng.randrange(2), 1), ("y", 1, 1), ("z", rng.randrange(3), 1))
        desc = {**d, "key": str(key)}
        envs = {}
        try:
            c1 = tn._maybe_compute_cell_env(key=key, envs=envs, **opts)
            ok = check_cells(envs, Z, "store:3d:cell_env", desc, "computed")
            if not close(val(c1), Z):
                ctx.violation("store:3d:cell_env:value", "freshly computed cell environment != whole", {"desc": desc})
            for step in ("fetch+scale", "fetch+contract", "fetch+cut"):
                c = tn._maybe_compute_cell_env(key=key, envs=envs, **opts)
                if not close(val(c), Z):
                    ctx.violation("store:3d:cell_env", f"cell environment fetched from the shared store at step '{step}' contracts to "
                                  f"{val(c)} instead of {complex(Z)}", {"desc": desc, "step": step})
                    break
                # the caller consumes, in place, what it was handed
                if step == "fetch+scale":
                    for t in c:
                        t.modify(apply=lambda x: 2 * x)
                elif step == "fetch+contract":
                    c.contract_(all)
                else:
                    t0 = next(iter(c.tensor_map.values()))
                    t0.modify(data=0 * t0.data)
                if ok and not check_cells(envs, Z, "store:3d:cell_env", desc, step):
                    break
        except Exception as e:
            import traceback

            ctx.violation("store:3d:cell_env:raised", f"shared 3D cell store sequence raised {e!r}"[:200],
                          {"desc": desc, "traceback": traceback.format_exc()[-1000:]})

    # ---- 3D, PEPS: reduced density matrices / local expectations re-using one store -------------------------------
    for rep in range(ctx.n(1, 3)):
        d = {"Lx": 2, "Ly": 2, "Lz": 2, "D": 2, "seed": rng.randrange(10 ** 6), "dtype": rng.choice(["float64", "complex128"])}
        psi = qtn.PEPS3D.rand(2, 2, 2, bond_dim=2, seed=d["seed"], dtype=d["dtype"])
        k = np.asarray(psi.to_dense())
        k = k / np.linalg.norm(k)
        sites = [(i, j, l) for i in range(2) for j in range(2) for l in range(2)]
        Zn = exact_value(psi.make_norm())
        envs = {}
        site = rng.choice(sites)
        for call in range(3):
            s2 = site if call < 2 else rng.choice(sites)
            ctx.count(("store3d:ptr", str(d), call), True)
            ctx.bump("store_consumers")
            try:
                rho = np.asarray(psi.partial_trace(s2, max_bond=32, cutoff=0.0, envs=envs))
                ref = np.asarray(qu.partial_trace(k, [2] * 8, [sites.index(s2)]))
                err = float(np.abs(rho - ref).max())
            except Exception as e:
                err = repr(e)[:120]
            if isinstance(err, str) or err > 1e-8:
                ctx.violation("store:3d:partial_trace", f"PEPS3D.partial_trace({s2}, envs=shared store), call #{call}: {err} "
                              "(single-site reduced density matrix vs dense)", {"desc": d, "site": s2, "call": call})
                break
            if not check_cells(envs, Zn, "store:3d:partial_trace", {**d, "site": s2}, f"after call {call}"):
                break

    # ---- 2D: plaquette environments and x/y environments handed to several consumers ----------------------------------
    for rep in range(ctx.n(1, 4)):
        d = {"Lx": 3, "Ly": 3, "D": 2, "seed": rng.randrange(10 ** 6), "dtype": rng.choice(["float64", "complex128"])}
        psi = qtn.PEPS.rand(3, 3, bond_dim=2, seed=d["seed"], dtype=d["dtype"])
        norm = psi.make_norm()
        Zn = exact_value(norm)
        k = np.asarray(psi.to_dense())
        sites = [(i, j) for i in range(3) for j in range(3)]
        mode = rng.choice(["mps", "full-bond", "dm"])
        desc = {**d, "mode": mode}

        def check_plaq(pe, step):
            for ((i0, j0), (xb, yb)), e in pe.items():
                ctx.bump("store_entries_checked")
                tags = [norm.site_tag(i0 + a, j0 + b) for a in range(xb) for b in range(yb)]
                w = qtn.TensorNetwork([e, norm.select_any(tags)])
                if w.outer_inds() or not close(val(w), Zn):
                    ctx.violation("store:2d:plaquette_envs", f"stored plaquette environment ({i0},{j0}) no longer combines with its "
                                  f"plaquette to the norm after step '{step}'", {"desc": desc, "step": step})
                    return False
            return True

        def check_x(xe, step):
            for i in range(3):
                ctx.bump("store_entries_checked")
                w = qtn.TensorNetwork([xe["xmin", i], norm.select(norm.x_tag(i)), xe["xmax", i]])
                if w.outer_inds() or not close(val(w), Zn):
                    ctx.violation("store:2d:x_envs", f"stored row environments of row {i} no longer combine with the row to the norm "
                                  f"after step '{step}'", {"desc": desc, "step": step})
                    return False
            return True

        try:
            xe = norm.compute_x_environments(mode=mode, **opts)
            check_x(xe, "computed")
            pe = norm.compute_plaquette_environments(x_bsz=1, y_bsz=1, first_contract="x", x_envs=xe, mode=mode, **opts)
            check_x(xe, "plaquettes from x_envs") and check_plaq(pe, "computed")
            pe2 = norm.compute_plaquette_environments(x_bsz=1, y_bsz=2, first_contract="x", x_envs=xe, mode=mode, **opts)
            check_x(xe, "second plaquettes from x_envs") and check_plaq(pe2, "computed")
            for call in range(3):
                where = rng.choice(sites)
                G = np.array([[1.0, 2.0], [2.0, -1.0]]) if call % 2 == 0 else np.array([[0.0, 1.0], [1.0, 0.0]])
                ctx.count(("store2d", str(desc), call), True)
                ctx.bump("store_consumers")
                got = complex(psi.compute_local_expectation({where: G}, plaquette_envs=pe, normalized=True, **opts))
                ref = complex(qu.expec(qu.ikron(G, [2] * 9, [sites.index(where)]), k) / np.vdot(k, k))
                if abs(got - ref) > 1e-8 * max(1.0, abs(ref)):
                    ctx.violation("store:2d:plaquette_envs:value", f"compute_local_expectation with a shared plaquette store, call #{call}: "
                                  f"{got} != {ref}", {"desc": desc, "where": where, "call": call})
                    break
                if not check_plaq(pe, f"after expectation {call}"):
                    break
        except Exception as e:
            import traceback

            ctx.violation("store:2d:raised", f"shared 2D store sequence raised {e!r}"[:200],
                          {"desc": desc, "traceback": traceback.format_exc()[-1000:]})


# ------------------------------------------------------------------------------
# stage 3b: the public entry points themselves (oracle)


def stage_api(ctx):
    """(1) an unbounded cap (the documented default max_bond=None) with cutoff 0 can never truncate: every driver
    option must then return the exact value; (2) the per-side entry points, called NOT in place, return the partially
    contracted network (same value) and leave the receiver untouched."""
    import quimb.tensor as qtn

    rng = ctx.rng
    nets = [("2d", {"net": "2d", "Lx": 3, "Ly": 3, "D": 2, "seed": rng.randrange(10 ** 6)}),
            ("3d", {"net": "3d", "Lx": 2, "Ly": 2, "Lz": 3, "D": 2, "seed": rng.randrange(10 ** 6)})]
    for dim, d in nets:
        tn = make_network(d)
        ref = exact_value(tn)
        for late in (True, False):
            ctx.count(("api", dim, "unbounded", late), True)
            ctx.bump("api_unbounded_cap")
            key = f"api:contract_boundary{'3d' if dim == '3d' else ''}:compress_late_{str(late).lower()}:max_bond_none"
            try:
                v = complex(tn.contract_boundary(cutoff=0.0, compress_late=late))
            except Exception as e:
                ctx.violation(key, f"{dim} contract_boundary(max_bond=None (default), cutoff=0, compress_late={late}) raised "
                              f"{type(e).__name__}: {str(e)[:120]}", {"desc": d, "compress_late": late})
                continue
            if not close(v, ref):
                ctx.violation(key, f"{dim} contract_boundary with an unbounded cap returned {v} != {ref}", {"desc": d})
        # not in place
        n0 = tn.num_tensors
        if dim == "2d":
            calls = [(s, lambda s=s: getattr(tn, f"contract_boundary_from_{s}")(
                xrange=(0, 1) if s == "xmin" else (1, 2) if s == "xmax" else None,
                yrange=(0, 1) if s == "ymin" else (1, 2) if s == "ymax" else None, max_bond=8, cutoff=0.0))
                for s in ("xmin", "xmax", "ymin", "ymax")]
            calls.append(("generic", lambda: tn.contract_boundary_from((0, 1), (0, 2), "xmin", max_bond=8, cutoff=0.0)))
        else:
            calls = [(s, lambda s=s: tn.contract_boundary_from(
                (0, 1), (0, 1), (0, 1) if s == "zmin" else (1, 2) if s == "zmax" else (0, 2), s, max_bond=8, cutoff=0.0))
                for s in ("zmin", "zmax", "xmin", "ymax")]
        for side, call in calls:
            ctx.count(("api", dim, "notinplace", side), True)
            ctx.bump("api_not_inplace")
            key = f"api:contract_boundary_from{'3d' if dim == '3d' else ''}:not_inplace"
            try:
                r = call()
            except Exception as e:
                ctx.violation(key + ":raised", f"{dim} contract_boundary_from({side}) raised {e!r}"[:200], {"desc": d, "side": side})
                continue
            if not isinstance(r, qtn.TensorNetwork):
                ctx.violation(key + ":returns_none", f"{dim} contract_boundary_from(..., '{side}', inplace=False) returns "
                              f"{type(r).__name__} instead of the contracted network (the result is lost)", {"desc": d, "side": side})
                continue
            if tn.num_tensors != n0 or not close(exact_value(tn), ref):
                ctx.violation(key + ":mutates", f"{dim} contract_boundary_from({side}, inplace=False) changed the receiver", {"desc": d})
            if not close(exact_value(r), ref):
                ctx.violation(key + ":value", f"{dim} contract_boundary_from({side}) with max_bond above every bond changed the value",
                              {"desc": d, "side": side})


# ------------------------------------------------------------------------------
# stage 4: validation of the primitive contract (each untruncating logged step preserves the value)


def stage_contract_validation(ctx):
    """test of the Section hypothesis of plan_exact: after EVERY logged primitive of an untruncating run the network
    value is unchanged (searcher machinery run pre-emptively on a sample)"""
    rng = ctx.rng
    descs = gen_boundary_2d(ctx)
    rng.shuffle(descs)
    descs = [d for d in descs if d["scheme"] == "boundary" and d["Lx"] * d["Ly"] <= 9][: ctx.n(5, 60)]
    descs += gen_compressed(ctx)[: ctx.n(3, 40)] + gen_rg(ctx)[: ctx.n(2, 20)]
    for d in descs:
        o = d.get("opts", {})
        if o.get("equalize_norms") or o.get("final_contract") is False:
            continue
        try:
            ref = exact_value(make_network(d))
            tr, val, res, _ = run_scheme(d, 64, 0.0, stepref=ref)
        except Exception as e:
            continue  # raised: reported by stage_plans
        ctx.count(("stepcheck", str(sorted(d.items(), key=str))), len(tr.ops) > 0)
        ctx.bump("stepchecked_runs")
        ctx.bump("stepchecked_ops", len(tr.ops))
        if py_untruncating(tr.ops, tr.cap) and tr.stepfail is not None:
            k, prim, op, v = tr.stepfail
            ctx.violation(f"step:{d['scheme']}:{mode_of(d)}", f"untruncating primitive {prim} changed the network value {ref} -> {v}",
                          {"desc": d, "op_index": k, "op": op, "primitive": prim})


# ------------------------------------------------------------------------------


def run(ctx):
    ctx.extra["rule"] = RULE
    ctx.trusted_base += [
        "plan language + checker coq/C12/Model.v; tie = trace refinement: harness/c12.py rebinds quimb's primitives at run "
        "time and logs every scheme run as a plan with the observed bond sizes; plan_ok / plan_opts_are / scheme_untruncating "
        "are evaluated on the logged plan inside Coq (vm_compute)",
        "the logger itself (harness): completeness is enforced only by the frame check at hand-overs (tensor set and "
        "untouched bond sizes must be explained by logged primitives, otherwise an `Unknown` step is logged and refused)",
        "modelled, not verified: the numerics inside each primitive (QR/SVD/eigh/oblique projectors/1D compressors). The "
        "hypothesis of C12_plan_exact (an untruncating primitive is a composition of contraction steps and exact local "
        "rewrites) is TESTED per logged step at tolerance 1e-8 (stage_contract_validation), never proved",
        "driver schedules are not modelled ahead of time: theorems are per observed trace (DESIGN: partial)",
        "oracle streams (tests, tolerance 1e-8 relative): scheme value vs exact contraction whenever the logged plan is "
        "untruncating; (environment | excluded part) vs whole; internal bonds of stored environments vs max_bond",
    ]
    ctx.assumptions += [
        "mps / full-bond boundary modes never compress the bond that closes a periodic direction running along the "
        "boundary (not supported by those modes): they are drawn on periodic lattices only contracted ALONG the periodic "
        "direction (the documented default sequence); all other modes are also drawn with the boundary along it",
        "global Schmidt-rank certificates are used only for the 1D compressors that truncate in a canonical form of the "
        "whole chain (dm, direct, sdc, local-late with gauge distance 3 on chains of <= 5 sites); zip-up style, projector "
        "and local-early compressors are certified only when max_bond covers everything crossing the cut",
        "hand-over points: exit of contract_boundary_from / compress_plane / coarse_grain_hotrg, the per-step callbacks of "
        "contract_compressed (callback_pre_contract when compress_late else callback), and the scheme's return",
        "max_bond=None is only drawn for modes that accept an unbounded cap (mps compress_late, 1D compressors, "
        "contract_compressed); full-bond / projector / HOTRG / CTMRG / compress_late=False compare or size with max_bond",
        "exactness is claimed only for runs whose logged plan is untruncating: cutoff = 0 and max_bond >= the rank bound of "
        "every compression (min(bond, other legs of either side) for the pair-local SVD/QR modes and the oblique "
        "projectors; the bond size itself for one-sided sweeps (1D/2D compressors) and environment/fit based modes)",
    ]
    ctx.check_props(["Base/Sums.vo", "Base/TN.vo", "Base/TNExec.vo", "C12/Model.vo", "C12/Proofs.vo", "C12/Exact.vo", "C12/PlaqModel.vo", "C12/PlaqProofs.vo",
                     "C12/Props.v"])
    COL["plans"], COL["values"], COL["plaq"] = Collector(), Collector(), Collector()
    try:
        ctx.stage(stage_plans)
        ctx.stage(stage_envs)
        ctx.stage(stage_exact_integer)
        ctx.stage(stage_plaquettes)
        ctx.stage(stage_coq)
        ctx.stage(stage_env_oracle)
        ctx.stage(stage_shared_stores)
        ctx.stage(stage_api)
        ctx.stage(stage_contract_validation)
    finally:
        uninstall()


def replay(ctx, path):
    run(ctx)
